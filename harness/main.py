"""./check <id> [--tier quick|thorough] [--replay file]"""
import argparse
import importlib
import json
import os
import sys

from harness import core


def main():
    ap = argparse.ArgumentParser()
    ap.add_argument("pid")
    ap.add_argument("--tier", default=os.environ.get("VERIF_TIER", "quick"))
    ap.add_argument("--replay", default=None)
    args = ap.parse_args()
    pid = args.pid.upper()
    tier = args.tier if args.tier in ("quick", "thorough") else "quick"
    try:
        seed = int(os.environ.get("VERIF_SEED", "0"))
    except ValueError:
        seed = 0
    sys.path.insert(0, str(core.REPO))
    mod = importlib.import_module(f"harness.props.{pid.lower()}")
    ctx = core.Ctx(pid, tier, seed)
    try:
        build_ok, build_log = core.coq_build()
        forbidden = core.scan_forbidden()
        thm = core.theorem_check(pid) if build_ok else {"theorems": [], "ok": False, "log": build_log,
                                                        "file": f"coq/Properties/{pid}.v", "axioms": []}
        if build_ok and tier == "thorough" and thm.get("ok"):
            chk = core.coqchk(pid)
            thm["coqchk"] = chk
            if not chk["ok"]:
                thm["ok"] = False
                thm["log"] = "coqchk failed: " + chk["tail"]
        out = core.Outcome()
        replay = json.load(open(args.replay)) if args.replay else None
        if build_ok:
            try:
                mod.run(ctx, out, replay)
            except Exception as e:      # noqa: BLE001
                # the harness could not process what the implementation did (on /repo this never happens; on a changed
                # tree it means the behaviour left what the correspondence can express): fail closed with a proper
                # verdict instead of a traceback - the correspondence no longer checks
                import traceback
                out.disagreements.append({
                    "key": f"{pid}/harness-exception", "explained": False,
                    "why": f"the correspondence harness raised {type(e).__name__}: {str(e)[:300]}",
                    "case": {"traceback": traceback.format_exc()[-3000:]}})
        else:
            # the model cannot be evaluated: still run the direct oracle on the implementation
            if hasattr(mod, "run_oracle_only"):
                mod.run_oracle_only(ctx, out)
        rc = core.finish(ctx, mod, thm, forbidden, build_ok, build_log, out)
    finally:
        ctx.cleanup()
    sys.exit(rc)


if __name__ == "__main__":
    main()
