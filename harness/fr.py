"""Adapters between the harness' plain-data cases, the FRAME objects and Gallina."""
from __future__ import annotations

import json
import traceback
from fractions import Fraction
from pathlib import Path

from harness import core
from harness.core import gq, gbool, gstr

LOCS = {"TRUNK": "TRUNK", "NORTH": "NORTH", "SOUTH": "SOUTH", "EAST": "EAST", "WEST": "WEST",
        "NO_POLYGON": "NOPOLY", "NOPOLY": "NOPOLY"}


# ---------------- JSON with exact rationals ----------------
def tojson(x):
    if isinstance(x, Fraction):
        return {"$q": f"{x.numerator}/{x.denominator}"}
    if isinstance(x, float):
        return {"$f": x.hex()}
    if isinstance(x, dict):
        return {str(k): tojson(v) for k, v in x.items()}
    if isinstance(x, (list, tuple)):
        return [tojson(v) for v in x]
    return x


def unjson(x):
    if isinstance(x, dict):
        if set(x) == {"$q"}:
            return Fraction(x["$q"])
        if set(x) == {"$f"}:
            return float.fromhex(x["$f"])
        return {k: unjson(v) for k, v in x.items()}
    if isinstance(x, list):
        return [unjson(v) for v in x]
    return x


def load_corpus(pid: str) -> list:
    d = core.VERIF / "corpus" / pid
    out = []
    if d.exists():
        for p in sorted(d.glob("*.json")):
            try:
                out.append(unjson(json.loads(p.read_text())["case"]))
            except Exception:
                pass
    return out


# ---------------- rectangles ----------------
def mk_rect(d):
    from frame.geometry.geometry import Rectangle, Point, Shape
    r = Rectangle(center=Point(float(d["cx"]), float(d["cy"])), shape=Shape(float(d["w"]), float(d["h"])),
                  fixed=bool(d.get("fixed", False)), hard=bool(d.get("hard", False)),
                  region=d.get("region", "_"))
    loc = d.get("loc", "NOPOLY")
    r.location = getattr(Rectangle.StogLocation, "NO_POLYGON" if loc == "NOPOLY" else loc)
    return r


def rect_obs(r) -> dict:
    return {"cx": r.center.x, "cy": r.center.y, "w": r.shape.w, "h": r.shape.h,
            "fixed": r.fixed, "hard": r.hard, "region": r.region, "loc": LOCS[r.location.name]}


def grect(d) -> str:
    return (f"(mkRect {gq(d['cx'])} {gq(d['cy'])} {gq(d['w'])} {gq(d['h'])} {gbool(d.get('fixed', False))} "
            f"{gbool(d.get('hard', False))} {gstr(d.get('region', '_'))} {LOCS[d.get('loc', 'NOPOLY')]})")


# ---------------- generic correspondence loop ----------------
def shrink_failure(case, run_impl, oracle, shrink, budget=400):
    """Greedy shrinking of a case on which the direct oracle reports a property failure."""
    def fails(c):
        try:
            obs = run_impl(c)
        except Exception as e:
            return f"implementation raised {type(e).__name__}: {e}", {"crash": str(e)}
        try:
            return oracle(c, obs), obs
        except Exception:
            return None, obs
    why, obs = fails(case)
    if not why:
        return case, None, None
    improved = True
    while improved and budget > 0:
        improved = False
        try:
            for cand in shrink(case):
                budget -= 1
                if budget <= 0:
                    break
                w, o = fails(cand)
                if w:
                    case, why, obs, improved = cand, w, o, True
                    break
        except Exception:       # a shrinker that cannot handle a case must never cost the verdict: keep what we have
            break
    return case, why, obs


def run_cases(ctx, out, cases, run_impl, to_coq, oracle, failure_key, header, dist_key=None,
              nontrivial=None, shard=300, shrink=None):
    """Run the implementation on every case, evaluate the model's comparison in Coq,
    run the direct oracle on every case; record disagreements / failures in `out`."""
    exprs, kept = [], []
    for case in cases:
        try:
            obs = run_impl(case)
        except Exception as e:  # the harness could not drive the implementation
            obs = {"crash": f"{type(e).__name__}: {e}", "tb": traceback.format_exc()[-800:]}
        nt = True if nontrivial is None else bool(nontrivial(case))
        out.add_case(tojson(case), nt)
        if dist_key:
            out.count(dist_key(case))
        if "crash" in obs:
            why = f"implementation raised {obs['crash']}"
            out.failures.append({"key": failure_key(case, why), "why": why, "case": tojson(case),
                                 "impl": tojson(obs)})
            continue
        try:
            why = oracle(case, obs)
        except Exception as e:
            why = f"oracle could not interpret the implementation's output: {type(e).__name__}: {e}"
        if why:
            out.failures.append({"key": failure_key(case, why), "why": why, "case": tojson(case),
                                 "impl": tojson(obs)})
        try:
            exprs.append(to_coq(case, obs))
            kept.append((case, obs, why))
        except Exception as e:
            out.disagreements.append({"key": failure_key(case, "unprintable"), "case": tojson(case),
                                      "impl": tojson(obs), "explained": bool(why),
                                      "why": f"output not expressible as a model value: {type(e).__name__}: {e}"})
    if shrink and out.failures:
        seen = set()
        shrunk = []
        for f in out.failures:
            if f["key"] in seen:
                continue
            seen.add(f["key"])
            c, w, o = shrink_failure(unjson(f["case"]), run_impl, oracle, shrink)
            if w:
                shrunk.append({"key": f["key"], "why": w, "case": tojson(c), "impl": tojson(o),
                               "shrunk_from": f["case"]})
        out.failures = shrunk + out.failures
    res = core.coq_eval_bools(ctx, header, exprs, shard=shard)
    bad = []
    for (case, obs, why), e, r in zip(kept, exprs, res):
        if r is not True:
            bad.append((case, obs, why, e, r))
    for case, obs, why, e, r in bad[:50]:
        out.disagreements.append({"key": failure_key(case, why or "disagree"), "case": tojson(case),
                                  "impl": tojson(obs), "explained": bool(why), "oracle": why,
                                  "coq_check": e[:3000],
                                  "model_result": "false" if r is False else "coqc failed"})
    out.extra["model_impl_agreements"] = len(kept) - len(bad)
    return bad
