"""C10 - the constraint system optimize_allocation hands to GEKKO: capture, canonical form, Gallina printer,
feasibility probe.  Used by harness/props/c10.py (kinds "system" and "run").

Capture.  Nothing of /repo is edited: `tools.glbfloor.optimization.solve_and_extract_solution` is replaced, in the
harness process, by a function that reads the GEKKO object the real optimize_allocation has just filled:
`_variables` (name, LOWER, UPPER), `_equations` (the strings GEKKO will write into the .apm file), `_objects` /
`_connections` (the `sum` objects g.sum creates), and the dictionaries model.a / model.x / model.y / model.d which say
WHAT each variable denotes.  Names are never parsed: a GEKKO variable denotes (a, key, cell) because
`model.a[key][cell]` IS that variable object.

Canonical form.  g.sum(list) creates, per call, one `sum` object, one output variable y and, per non-variable term, an
auxiliary unbounded variable v with the equation `v = term`.  These are substituted away (y := sum of the inputs,
v := term), which leaves exactly the (in)equations the code issued through g.Equation, as expression trees over the
remaining variables.  Python floats were printed by GEKKO with str(), which round-trips: every constant is recovered
exactly.
"""
from __future__ import annotations

import re
from fractions import Fraction as F

from harness import core, fr
from harness.core import gq, gstr, glist, gopt

TOKEN = re.compile(r"\s*(?:(\d+\.?\d*(?:[eE][-+]?\d+)?|\.\d+(?:[eE][-+]?\d+)?)|([A-Za-z_][A-Za-z0-9_\[\]\.]*)|(<=|>=|\*\*|.))")


class Unparsable(Exception):
    pass


# ======================================================================================
# parser of GEKKO expression strings
# ======================================================================================
def tokenize(s):
    out, i = [], 0
    while i < len(s):
        m = TOKEN.match(s, i)
        if not m:
            raise Unparsable(s[i:i + 20])
        i = m.end()
        if m.group(1) is not None:
            out.append(("n", m.group(1)))
        elif m.group(2) is not None:
            out.append(("v", m.group(2)))
        elif m.group(3).strip():
            out.append(("o", m.group(3)))
    return out


class _P:
    def __init__(self, toks):
        self.t, self.i = toks, 0

    def peek(self):
        return self.t[self.i] if self.i < len(self.t) else ("$", "$")

    def eat(self, val=None):
        k = self.peek()
        if val is not None and k[1] != val:
            raise Unparsable(f"expected {val} at {self.i}: {k}")
        self.i += 1
        return k

    def expr(self):
        a = self.term()
        while self.peek() in (("o", "+"), ("o", "-")):
            op = self.eat()[1]
            b = self.term()
            a = (op, a, b)
        return a

    def term(self):
        a = self.power()
        while self.peek() in (("o", "*"), ("o", "/")):
            op = self.eat()[1]
            b = self.power()
            a = (op, a, b)
        return a

    def power(self):
        a = self.unary()
        if self.peek() in (("o", "^"), ("o", "**")):
            self.eat()
            b = self.power()
            a = ("^", a, b)
        return a

    def unary(self):
        if self.peek() == ("o", "-"):
            self.eat()
            return ("neg", self.unary())
        if self.peek() == ("o", "+"):
            self.eat()
            return self.unary()
        return self.atom()

    def atom(self):
        k = self.peek()
        if k[0] == "n":
            self.eat()
            return ("c", F(k[1]))            # Fraction('1e-07'), Fraction('0.30000000000000004'): the decimal text, exactly
        if k[0] == "v":
            self.eat()
            return ("v", k[1])
        if k == ("o", "("):
            self.eat()
            e = self.expr()
            self.eat(")")
            return e
        raise Unparsable(f"unexpected {k}")


def dec_to_float_exact(e):
    """Constants were printed with str(float): the float is the nearest binary64 to the decimal text."""
    k = e[0]
    if k == "c":
        return ("c", core.frac(float(e[1])))
    if k == "v":
        return e
    if k == "neg":
        return ("neg", dec_to_float_exact(e[1]))
    return (k, dec_to_float_exact(e[1]), dec_to_float_exact(e[2]))


def parse_equation(s):
    """'lhs<=rhs' / 'lhs>=rhs' / 'lhs=rhs' (relation at parenthesis depth 0) -> (rel, lhs tree, rhs tree)."""
    depth, pos, rel = 0, None, None
    i = 0
    while i < len(s):
        ch = s[i]
        if ch == "(":
            depth += 1
        elif ch == ")":
            depth -= 1
        elif depth == 0 and ch in "<>=":
            if s[i:i + 2] in ("<=", ">="):
                pos, rel, width = i, ("LE" if ch == "<" else "GE"), 2
            elif ch == "=":
                pos, rel, width = i, "EQ", 1
            else:
                pos, rel, width = i, ("LT" if ch == "<" else "GT"), 1
            break
        i += 1
    if pos is None:
        raise Unparsable(f"no relation in {s[:60]}")
    lhs = _P(tokenize(s[:pos]))
    rhs = _P(tokenize(s[pos + width:]))
    l, r = lhs.expr(), rhs.expr()
    if lhs.peek()[0] != "$" or rhs.peek()[0] != "$":
        raise Unparsable(f"trailing input in {s[:60]}")
    return rel, dec_to_float_exact(l), dec_to_float_exact(r)


# ======================================================================================
# capture
# ======================================================================================
def _num(v):
    if v is None:
        return None
    return core.frac(float(v))


def capture(model, ncells):
    """Plain data describing the system in `model.gekko` (see the module docstring)."""
    g = model.gekko
    # ---- what each variable object denotes
    deno = {}              # id(variable object) -> list of denotations
    objs = {}
    from gekko.gk_variable import GKVariable

    def note(obj, d):
        if isinstance(obj, GKVariable):
            deno.setdefault(id(obj), []).append(d)
            objs[id(obj)] = obj

    for k, row in model.a.items():
        for c in range(ncells):
            if c in row:
                note(row[c], ["a", k, c])
    for tab, tag in ((model.x, "x"), (model.y, "y"), (model.d, "d")):
        for k, v in tab.items():
            note(v, [tag, k])
    variables = []
    by_name = {}
    problems = []
    for v in g._variables:
        ds = deno.get(id(v), [])
        rec = {"name": v.name, "lb": _num(v.LOWER), "ub": _num(v.UPPER), "deno": ds}
        variables.append(rec)
        if v.name in by_name:
            problems.append(f"duplicate-name:{v.name}")
        by_name[v.name] = rec
    for i, o in objs.items():
        if not any(o is v for v in g._variables):
            problems.append(f"foreign-variable:{o.name}")
    # ---- sum objects
    sums = {}              # object name -> {"x": {i: var}, "y": var}
    for o in g._objects:
        m = re.fullmatch(r"\s*(\w+)\s*=\s*sum\((\d+)\)\s*", o)
        if not m:
            problems.append(f"object:{o}")
            continue
        sums[m.group(1)] = {"n": int(m.group(2)), "x": {}, "y": None}
    for cn in g._connections:
        m = re.fullmatch(r"\s*(\w+)\s*=\s*(\w+)\.(x\[(\d+)\]|y)\s*", cn)
        if not m or m.group(2) not in sums:
            problems.append(f"connection:{cn}")
            continue
        if m.group(3) == "y":
            sums[m.group(2)]["y"] = m.group(1)
        else:
            sums[m.group(2)]["x"][int(m.group(4))] = m.group(1)
    # ---- equations
    eqs = []
    for e in g._equations:
        try:
            eqs.append(list(parse_equation(str(e.value))))
        except Unparsable as ex:
            problems.append(f"unparsable-equation:{ex}")
    for attr in ("_parameters", "_intermediates", "_constants", "_inter_equations"):
        if getattr(g, attr, None):
            problems.append(f"{attr}:{len(getattr(g, attr))}")
    return {"variables": variables, "sums": sums, "eqs": eqs, "problems": problems,
            "objectives": [str(o) for o in g._objectives],
            "consts": {"a": {k: {str(c): core.frac(float(row[c])) for c in range(ncells)
                                 if c in row and not isinstance(row[c], GKVariable)} for k, row in model.a.items()},
                       "x": {k: core.frac(float(v)) for k, v in model.x.items() if not isinstance(v, GKVariable)},
                       "y": {k: core.frac(float(v)) for k, v in model.y.items() if not isinstance(v, GKVariable)}},
            "keys_a": list(model.a.keys())}


# ======================================================================================
# canonical form
# ======================================================================================
def _vars_of(e, acc):
    if e[0] == "v":
        acc.add(e[1])
    elif e[0] != "c":
        for s in e[1:]:
            _vars_of(s, acc)
    return acc


def _subst(e, env):
    k = e[0]
    if k == "v":
        return env.get(e[1], e)
    if k == "c":
        return e
    if k == "neg":
        return ("neg", _subst(e[1], env))
    return (k, _subst(e[1], env), _subst(e[2], env))


def canonical(cap):
    """Substitute the sum objects away.  Returns {"vars": [(vid, lb, ub)], "cons": [(rel, lhs, rhs)], "problems"}
    where vid = ("a", key, c) / ("x", key) / ("y", key) / ("d", key) / ("e", k) (k-th variable that no
    dictionary of the Model refers to, in creation order) and the trees use ("v", vid)."""
    problems = list(cap["problems"])
    recs = {v["name"]: v for v in cap["variables"]}
    sum_inputs, sum_outputs = {}, {}
    for name, s in cap["sums"].items():
        if s["y"] is None or sorted(s["x"]) != list(range(1, s["n"] + 1)):
            problems.append(f"sum-object-incomplete:{name}")
            continue
        sum_outputs[s["y"]] = [s["x"][i] for i in range(1, s["n"] + 1)]
        for i in s["x"].values():
            sum_inputs[i] = sum_inputs.get(i, 0) + 1
    # auxiliary inputs: unnamed, unbounded, denoting nothing, defined by exactly one equation `v = term`
    defs, used_eq = {}, set()
    for idx, (rel, l, r) in enumerate(cap["eqs"]):
        if rel == "EQ" and l[0] == "v" and l[1] in sum_inputs and l[1] in recs:
            v = recs[l[1]]
            if v["lb"] is None and v["ub"] is None and not v["deno"] and l[1] not in _vars_of(r, set()) \
                    and l[1] not in defs:
                defs[l[1]] = r
                used_eq.add(idx)
    env = dict(defs)

    def resolve(name, depth=0):
        """Expression of a variable after substitution."""
        if depth > 50:
            raise Unparsable("cyclic definitions")
        if name in sum_outputs:
            terms = [resolve(i, depth + 1) for i in sum_outputs[name]]
            e = ("c", F(0))
            for k, t in enumerate(terms):
                e = t if k == 0 else ("+", e, t)
            return e
        if name in env:
            return full(env[name], depth + 1)
        return ("v", name)

    def full(e, depth=0):
        k = e[0]
        if k == "v":
            return resolve(e[1], depth)
        if k == "c":
            return e
        if k == "neg":
            return ("neg", full(e[1], depth))
        return (k, full(e[1], depth), full(e[2], depth))

    eliminated = set(defs) | set(sum_outputs)
    for y in sum_outputs:
        v = recs.get(y)
        if v is None or v["lb"] is not None or v["ub"] is not None or v["deno"]:
            problems.append(f"sum-output-not-plain:{y}")
    # remaining variables and their identities
    ident, extra = {}, 0
    out_vars = []
    for v in cap["variables"]:
        if v["name"] in eliminated:
            continue
        if len(v["deno"]) > 1:
            problems.append(f"variable-denotes-twice:{v['name']}")
        if v["deno"]:
            vid = tuple(v["deno"][0])
        else:
            vid = ("e", extra)
            extra += 1
        ident[v["name"]] = vid
        out_vars.append((vid, v["lb"], v["ub"]))
    cons = []
    for idx, (rel, l, r) in enumerate(cap["eqs"]):
        if idx in used_eq:
            continue
        try:
            l2, r2 = full(l), full(r)
        except Unparsable as ex:
            problems.append(f"substitution:{ex}")
            continue
        free = _vars_of(l2, set()) | _vars_of(r2, set())
        if not free <= set(ident):
            problems.append(f"unknown-variable:{sorted(free - set(ident))[:3]}")
            continue
        ren = {n: ("v", ident[n]) for n in free}
        cons.append((rel, _subst(l2, ren), _subst(r2, ren)))
    return {"vars": out_vars, "cons": cons, "problems": problems, "ident": ident}


# ======================================================================================
# polynomials over Fractions (Python side: probe and its verification only)
# ======================================================================================
def p_const(q):
    return {(): F(q)} if q else {}


def p_add(a, b, s=1):
    out = dict(a)
    for m, q in b.items():
        v = out.get(m, 0) + s * q
        if v:
            out[m] = v
        else:
            out.pop(m, None)
    return out


def p_mul(a, b):
    out = {}
    for m1, q1 in a.items():
        for m2, q2 in b.items():
            m = tuple(sorted(m1 + m2, key=repr))
            v = out.get(m, 0) + q1 * q2
            if v:
                out[m] = v
            else:
                out.pop(m, None)
    return out


def poly(e):
    k = e[0]
    if k == "c":
        return p_const(e[1])
    if k == "v":
        return {(e[1],): F(1)}
    if k == "neg":
        return p_add({}, poly(e[1]), -1)
    a = poly(e[1])
    if k == "^":
        n = e[2]
        if n[0] != "c" or n[1].denominator != 1 or not 0 <= n[1] <= 4:
            raise Unparsable(f"power {n}")
        out = p_const(1)
        for _ in range(int(n[1])):
            out = p_mul(out, a)
        return out
    b = poly(e[2])
    if k == "+":
        return p_add(a, b)
    if k == "-":
        return p_add(a, b, -1)
    if k == "*":
        return p_mul(a, b)
    if k == "/":
        if list(b) != [()]:
            raise Unparsable("division by a non-constant")
        return {m: q / b[()] for m, q in a.items()}
    raise Unparsable(k)


def evaluate(e, val):
    k = e[0]
    if k == "c":
        return e[1]
    if k == "v":
        return val[e[1]]
    if k == "neg":
        return -evaluate(e[1], val)
    a = evaluate(e[1], val)
    b = evaluate(e[2], val)
    if k == "+":
        return a + b
    if k == "-":
        return a - b
    if k == "*":
        return a * b
    if k == "/":
        return a / b
    if k == "^":
        return a ** int(b)
    raise Unparsable(k)


# ======================================================================================
# Gallina
# ======================================================================================
def gvar(vid):
    if vid[0] == "a":
        return f"(VA {gstr(vid[1])} {int(vid[2])})"
    if vid[0] in "xyd":
        return f"(V{vid[0].upper()} {gstr(vid[1])})"
    k = int(vid[1])
    return f"(VEX {k // 2})" if k % 2 == 0 else f"(VEY {k // 2})"


def gexpr(e):
    k = e[0]
    if k == "c":
        return f"(EC {gq(e[1])})"
    if k == "v":
        return f"(EV {gvar(e[1])})"
    if k == "neg":
        return f"(ESub (EC 0) {gexpr(e[1])})"
    if k == "^":
        n = e[2]
        if n[0] != "c" or n[1] != 2:
            raise Unparsable(f"power {n}")
        return f"(ESqr {gexpr(e[1])})"
    if k == "/":
        d = poly(e[2])
        if list(d) != [()] or d[()] == 0:
            raise Unparsable("division by a non-constant")
        return f"(EMul {gexpr(e[1])} (EC {gq(1 / d[()])}))"
    op = {"+": "EAdd", "-": "ESub", "*": "EMul"}[k]
    return f"({op} {gexpr(e[1])} {gexpr(e[2])})"


def simplify(e):
    """Exact constant folding (x + 0, 0 * x, c1 * c2, c1 / c2 ...): keeps the Gallina text of the captured system small."""
    k = e[0]
    if k in ("c", "v"):
        return e
    if k == "neg":
        a = simplify(e[1])
        return ("c", -a[1]) if a[0] == "c" else ("neg", a)
    a, b = simplify(e[1]), simplify(e[2])
    if k == "^":
        if a[0] == "c" and b[0] == "c" and b[1].denominator == 1 and 0 <= b[1] <= 4:
            return ("c", a[1] ** int(b[1]))
        return (k, a, b)
    if a[0] == "c" and b[0] == "c" and not (k == "/" and b[1] == 0):
        return ("c", {"+": a[1] + b[1], "-": a[1] - b[1], "*": a[1] * b[1], "/": a[1] / b[1] if b[1] else 0}[k])
    if k == "+":
        if a == ("c", 0):
            return b
        if b == ("c", 0):
            return a
    elif k == "-":
        if b == ("c", 0):
            return a
    elif k == "*":
        if a == ("c", 0) or b == ("c", 0):
            return ("c", F(0))
        if a == ("c", 1):
            return b
        if b == ("c", 1):
            return a
    return (k, a, b)


def gsystem(can):
    if can["problems"]:
        raise Unparsable("; ".join(can["problems"][:3]))
    V = glist([f"(mkV {gvar(v)} {gopt(None if lb is None else gq(lb))} {gopt(None if ub is None else gq(ub))})"
               for v, lb, ub in can["vars"]])
    C = glist([f"(mkCon {gexpr(simplify(l))} {rel} {gexpr(simplify(r))})" for rel, l, r in can["cons"]])
    return V, C


# ======================================================================================
# kind "system": optimize_allocation is run up to the solver call; the captured system must equal gen_system
# ======================================================================================
SYS_HEADER_IMPORTS = "Glb.System Cases.CmpC10Sys"
CLOSE_K = 256            # roundings (2^-53 each) allowed on a coefficient, relative to the magnitude of the equation

NAME_SCHEMES = [
    # (movable hard, soft, fixed) name pools; every name is a valid identifier
    (["H0", "H1", "H2"], ["S0", "S1", "S2", "S3"], ["F0", "F1", "F2"]),
    (["H1", "H10", "H1_"], ["H1_io", "H1_x", "H10_", "H1__0"], ["H1_f", "F", "_"]),
    (["H1", "M", "a_b"], ["H1_7", "H1_00", "M_", "a_b_c"], ["M_fixed", "a", "a_"]),
    (["x", "a", "d"], ["x_a", "a_x_0_", "y", "v1"], ["sum_1", "d_x", "a_a_0"]),
    (["A", "B", "C"], ["A0", "A_b", "Ab", "A_"], ["B_", "B__", "C_x"]),
    (["on", "e", "H_10"], ["null", "yes", "inf", "H_1"], ["no", "nan", "H_100"]),
]


def rename_case(case, ren):
    for m in case["mods"]:
        m["name"] = ren[m["name"]]
    for c in case["cells"]:
        c["alloc"] = [[ren[k], q] for k, q in c["alloc"]]
    return case


def has_clash(case):
    """A netlist module bears the internal name f'{m}_{r}' of a rectangle of a movable hard module."""
    if case.get("kind") == "run":
        mods = case["netlist"]["Modules"]
        if not isinstance(mods, dict):
            return False
        names = set(mods)
        for n, d in mods.items():
            if isinstance(d, dict) and d.get("hard") and not d.get("fixed"):
                if any(f"{n}_{r}" in names for r in range(len(d.get("rectangles", [])))):
                    return True
        return False
    if case.get("kind") != "system":
        return False
    names = {m["name"] for m in case["mods"]}
    return any(f"{m['name']}_{r}" in names for m in case["mods"] if m["hard"] and not m["fixed"]
               for r in range(len(m["rects"])))


def gen_system_case(rng):
    from harness.props import c10
    style = rng.choice(["fix", "fix", "fix", "ties", "ties", "crowd", "big"])
    if style == "fix":
        case = c10.gen_fixrule(rng)
    elif style == "ties":
        case = gen_ties(rng)
    elif style == "big":
        case = gen_big(rng)
    else:
        case = gen_crowd(rng)
    case["kind"] = "system"
    case["sub"] = style + "/" + str(case.get("style", ""))
    mods = case["mods"]
    # ---- names (prefix relations, names equal to generated variable / internal names)
    scheme = rng.choice([0, 0, 1, 1, 2, 3, 4, 5])
    pools = [list(p) for p in NAME_SCHEMES[scheme]]
    for p in pools:
        rng.shuffle(p)
    ren = {}
    for m in mods:
        pool = pools[2] if m["fixed"] else (pools[0] if m["hard"] else pools[1])
        ren[m["name"]] = pool.pop() if pool else f"Z{len(ren)}"
    hard_movable = [m for m in mods if m["hard"] and not m["fixed"]]
    if hard_movable and rng.random() < 0.12:
        # the internal name of a rectangle of a movable hard module, given to another module of the netlist
        h = rng.choice(hard_movable)
        others = [m for m in mods if m is not h]
        if others:
            o = rng.choice(others)
            ren[o["name"]] = f"{ren[h['name']]}_{rng.randrange(0, len(h['rects']) + 1)}"
    if len(set(ren.values())) == len(ren):
        rename_case(case, ren)
    names = [m["name"] for m in mods]
    # ---- areas of the soft modules (Module.area() need not be the area of the rectangle)
    for m in mods:
        if not m["hard"]:
            a = sum(c10.rarea(r) for r in m["rects"])
            m["area"] = a if rng.random() < 0.7 else rng.choice([F(1), F(3, 2), F(3), F(5, 4), F(2), F(1, 2)])
    # ---- nets
    edges = []
    for _ in range(rng.choice([0, 1, 2, 3])):
        k = rng.choice([2, 2, 3, 3, 4, 1])
        if len(names) >= k:
            edges.append(rng.sample(names, k))
    case["edges"] = edges
    case["alpha"] = rng.choice([F(1), F(1), F(1, 2), F(0), F(3, 4)])
    # ---- object history: the same die / netlist / allocation objects go through another optimize_allocation
    # first (other threshold), module centres are re-assigned through the public setter, then the observed call
    r = rng.random()
    if r < 0.25:
        case["pre"] = {"t": rng.choice([F(1, 2), F(3, 4), F(1), F(1, 4)]), "recenter": rng.random() < 0.5}
    return case


def _mod(name, kind, rects, center=None, flip=False):
    from harness.props import c10
    ta = sum(c10.rarea(r) for r in rects)
    if center is None:
        center = [sum(core.frac(r["cx"]) * c10.rarea(r) for r in rects) / ta,
                  sum(core.frac(r["cy"]) * c10.rarea(r) for r in rects) / ta]
    return {"name": name, "hard": kind != "soft", "fixed": kind == "fixed", "flip": flip, "center": list(center),
            "rects": rects}


def gen_ties(rng):
    """Ratios exactly at the threshold or at 1 - threshold: k x 1 strip of 2x2 (or 2x1) ground cells, optionally a
    fixed strip at one end, soft squares / hard rectangles placed so that their share of a cell is exactly
    1/4, 1/2, 3/4, 1 or 0, thresholds 1/2, 3/4, 1 (and 7/8, 1/4 as controls)."""
    from harness.props import c10
    ncell = rng.choice([1, 2, 2, 3])
    ch = F(rng.choice([2, 2, 1]))
    fixed_side = rng.choice([None, "E", "E", "W"])
    x = F(0)
    boxes, owner = [], {}
    if fixed_side == "W":
        boxes.append((x, F(0), x + 1, ch))
        owner[0] = "F0"
        x += 1
    for _ in range(ncell):
        boxes.append((x, F(0), x + 2, ch))
        x += 2
    if fixed_side == "E":
        boxes.append((x, F(0), x + 1, ch))
        owner[len(boxes) - 1] = "F0"
        x += 1
    W, H = x, ch
    mods = []
    if fixed_side:
        i = next(iter(owner))
        mods.append(_mod("F0", "fixed", [c10.box_rect(boxes[i], fixed=True, hard=True)]))
    ground = [b for i, b in enumerate(boxes) if i not in owner]
    for s in range(rng.choice([1, 2, 2, 3])):
        b = rng.choice(ground)
        side = rng.choice([F(1), F(1), F(1), F(2), F(1, 2)])
        pos = rng.choice(["centre", "centre", "corner", "edge"])
        cxm, cym = (b[0] + b[2]) / 2, (b[1] + b[3]) / 2
        if pos == "corner":
            cxm, cym = b[0] + side / 2, b[1] + min(side, ch) / 2
        elif pos == "edge":
            cxm = b[2]                                   # straddles the border with the next cell / the fixed strip
        hh = min(side, ch)
        mods.append(_mod(f"S{s}", "soft", [c10.rect_d(cxm, cym, side, hh)], center=[cxm, cym]))
    if rng.random() < 0.4:
        b = rng.choice(ground)
        w, h = rng.choice([(F(1), F(1)), (F(2), F(1)), (F(1), ch)])
        r0 = c10.rect_d(b[0] + w / 2, b[1] + h / 2, w, h, hard=True, loc="TRUNK")
        rs = [r0]
        if rng.random() < 0.5 and b[0] + w + F(1, 2) <= W:
            rs.append(c10.rect_d(b[0] + w + F(1, 4), b[1] + h / 2, F(1, 2), h / 2, hard=True, loc="EAST"))
        mods.append(_mod("H0", "hard", rs, flip=rng.random() < 0.5))
    rng.shuffle(mods)
    t = rng.choice([F(3, 4), F(3, 4), F(1, 2), F(1, 2), F(1), F(1), F(7, 8), F(1, 4)])
    stored = rng.random() < 0.4
    cells = []
    for i, b in enumerate(boxes):
        rect = c10.box_rect(b, fixed=(i in owner), hard=(i in owner))
        al = []
        if i in owner:
            al = [[owner[i], F(1)]]
        else:
            for m in mods:
                if m["fixed"]:
                    continue
                if stored:
                    if rng.random() < 0.6:
                        al.append([m["name"], rng.choice([1 - t, 1 - t, t, F(0), F(1), F(1, 4), F(1, 2)])])
                else:
                    from harness.props import alloc_common as ac
                    ov = sum(ac.ovl(c10.rbox(rect), c10.rbox(r)) for r in m["rects"]) / c10.rarea(rect)
                    if ov > 0:
                        al.append([m["name"], ov])
        cells.append({"rect": rect, "alloc": al, "depth": 0})
    if rng.random() < 0.5:
        rng.shuffle(cells)
    return {"kind": "system", "style": "stored" if stored else "initial", "die": [W, H], "cells": cells, "mods": mods,
            "t": t, "eps": F(1, 2 ** 20), "aeps": F(1, 2 ** 20)}


def gen_big(rng):
    """Sizes: 10-14 cells (two-digit cell indices) and / or a movable hard module with 11-12 rectangles
    (two-digit internal names m_10, m_11), next to a module called m_1."""
    from harness.props import c10
    from harness.props import alloc_common as ac
    ncol = rng.choice([5, 6, 7])
    W, H = F(ncol), F(2)
    boxes = [(F(i), F(j), F(i + 1), F(j + 1)) for j in range(2) for i in range(ncol)]
    mods = []
    many = rng.random() < 0.6
    if many:
        k = rng.choice([11, 12])
        rs = [c10.rect_d(F(i, 2) + F(1, 4), F(1, 4), F(1, 2), F(1, 2), hard=True, loc=("TRUNK" if i == 0 else "EAST"))
              for i in range(k)]
        mods.append(_mod("H0", "hard", rs, flip=False))
    else:
        mods.append(_mod("H0", "hard", [c10.rect_d(F(1), F(1, 2), F(2), F(1), hard=True, loc="TRUNK")]))
    mods.append(_mod("S0", "soft", [c10.rect_d(F(ncol) - 1, F(3, 2), F(1), F(1))], center=[F(ncol) - 1, F(3, 2)]))
    if rng.random() < 0.5:
        mods.append(_mod("S1", "soft", [c10.rect_d(F(1, 2), F(3, 2), F(1), F(1))], center=[F(1, 2), F(3, 2)]))
    fixed_box = None
    if rng.random() < 0.5:
        fixed_box = len(boxes) - 1
        mods.append(_mod("F0", "fixed", [c10.box_rect(boxes[fixed_box], fixed=True, hard=True)]))
        mods[1] = _mod("S0", "soft", [c10.rect_d(F(ncol) - 2, F(3, 2), F(1), F(1))], center=[F(ncol) - 2, F(3, 2)])
    rng.shuffle(mods)
    cells = []
    for i, b in enumerate(boxes):
        rect = c10.box_rect(b, fixed=(i == fixed_box), hard=(i == fixed_box))
        al = []
        if i == fixed_box:
            al = [["F0", F(1)]]
        else:
            for m in mods:
                if m["fixed"]:
                    continue
                ov = sum(ac.ovl(c10.rbox(rect), c10.rbox(r)) for r in m["rects"]) / c10.rarea(rect)
                if ov > 0:
                    al.append([m["name"], ov])
        cells.append({"rect": rect, "alloc": al, "depth": 0})
    if rng.random() < 0.5:
        cells.reverse()
    return {"kind": "system", "style": "many-rects" if many else "cells", "die": [W, H], "cells": cells, "mods": mods,
            "t": rng.choice([F(3, 4), F(1, 2), F(15, 16), F(1)]), "eps": F(1, 2 ** 20), "aeps": F(1, 2 ** 20)}


def gen_crowd(rng):
    """Soft modules next to a fixed module's cell, everything attracted to the fixed module (alpha = 1)."""
    case = gen_ties(rng)
    case["style"] = "crowd-" + case["style"]
    return case


def run_system(case, solve_hook=None):
    """optimize_allocation on the case; the solver call is replaced by the capture (or by `solve_hook`)."""
    from harness.props import c10
    from harness.props import alloc_common as ac
    from frame.geometry.geometry import Rectangle
    from tools.glbfloor import optimization as opt
    Rectangle.undefine_epsilon()
    Rectangle.set_epsilon(float(case["eps"]), float(case["aeps"]))
    rec = {}
    orig = opt.solve_and_extract_solution

    def recorder(model, die, cells, threshold, *a, **kw):
        rec["called"] = True
        if solve_hook is not None:
            rec["hook"] = solve_hook(model, die, cells, threshold, orig)
        else:
            rec["cap"] = capture(model, len(cells))
        try:
            model.gekko.cleanup()
        except Exception:
            pass
        return die, None, {}, ([], [])

    opt.solve_and_extract_solution = recorder
    try:
        mods = [c10.mk_module(d) for d in case["mods"]]
        for m, d in zip(mods, case["mods"]):
            if not d["hard"] and d.get("area") is not None:
                m._area_regions = {"_": float(d["area"])}
                m._total_area = float(d["area"])
        die = c10.stub_die(mods, *case["die"])
        by = {m.name: m for m in mods}
        die.netlist.edges = [_Edge([by[n] for n in e]) for e in case.get("edges", [])]
        try:
            alloc = ac.build_alloc(case["cells"])
        except (AssertionError, ZeroDivisionError):
            return {"status": "bad-allocation"}
        areas = {m.name: m.area() for m in mods}
        pow32 = {}
        for m in mods:
            if not m.is_hard and m.area() > 0:
                pow32[repr(m.area())] = [m.area(), m.area() ** (3 / 2)]
        mods0 = [c10.module_obs(m) for m in mods]
        disp = {m.name: 0.0 for m in mods}
        pre = case.get("pre")
        if pre:
            # the same objects are used by an earlier optimize_allocation (its system is discarded) ...
            keep_hook, solve_hook = solve_hook, None
            rec_prev = dict(rec)
            try:
                opt.optimize_allocation(die, alloc, disp, float(pre["t"]), 0.5, lambda x, y: x ** 2 + y ** 2)
            except (AssertionError, ZeroDivisionError, KeyError):
                pass
            rec.clear()
            rec.update(rec_prev)
            solve_hook = keep_hook
            if pre.get("recenter"):
                from frame.geometry.geometry import Point
                for m in mods:                           # ... and the centres are re-assigned in place
                    if m.center is not None:
                        m.center = Point(m.center.x, m.center.y)
        try:
            opt.optimize_allocation(die, alloc, disp, float(case["t"]), float(case.get("alpha", 0.5)),
                                    lambda x, y: x ** 2 + y ** 2)
        except (AssertionError, ZeroDivisionError, KeyError) as e:
            if rec.get("called"):
                raise
            return {"status": "raised", "err": type(e).__name__, "cells": ac.alloc_obs(alloc)["cells"], "areas": areas,
                    "pow32": list(pow32.values()), "mods0": mods0}
        out = {"status": "built", "cells": ac.alloc_obs(alloc)["cells"], "areas": areas, "pow32": list(pow32.values()),
               "mods0": mods0}
        if solve_hook is not None:
            out["hook"] = rec.get("hook")
        else:
            out["cap"] = rec["cap"]
        return out
    finally:
        opt.solve_and_extract_solution = orig
        Rectangle.undefine_epsilon()


class _Edge:
    def __init__(self, modules, weight=1.0):
        self.modules, self.weight = modules, weight


def gdie(die):
    W, H = core.frac(die[0]), core.frac(die[1])
    return f'(mkRect {gq(W / 2)} {gq(H / 2)} {gq(W)} {gq(H)} false false "_"%string NOPOLY)'


def gen_call(eps, t, die, mods, areas, pow32, cells, edges, gdie_text=None):
    from harness.props import c10
    from harness.props import alloc_common as ac
    D = gdie_text if gdie_text is not None else gdie(die)
    P = glist([f"({gq(a)}, {gq(p)})" for a, p in pow32])
    A = glist([f"({gstr(m['name'])}, {gq(areas[m['name']])})" for m in mods if not m["hard"] and m["name"] in areas])
    E = glist([glist([gstr(n) for n in e]) for e in edges])
    return (f"(gen_system_fast (pow32_of {P}) {gq(eps)} {gq(t)} {D} {c10.gmodules(mods)} {A} "
            f"{ac.gcells(cells)} {E})")


def scale_of_system(can):
    """Magnitude of the largest equation: sum of the absolute coefficients of both sides, expanded."""
    s = F(1)
    for rel, l, r in can["cons"]:
        try:
            v = sum(abs(q) for q in poly(l).values()) + sum(abs(q) for q in poly(r).values())
        except Unparsable:
            continue
        s = max(s, v)
    return s


def system_expr(call, can):
    V, C = gsystem(can)
    return f"system_cmp {CLOSE_K} {gq(scale_of_system(can))} {call} {V} {C}"


def to_coq_system(case, obs):
    from harness.props import alloc_common as ac
    if obs["status"] == "bad-allocation":
        return f"match mk_allocation {gq(case['aeps'])} {ac.gcells(case['cells'])} with None => true | Some _ => false end"
    call = gen_call(case["eps"], case["t"], case["die"], case["mods"], obs["areas"], obs["pow32"], obs["cells"],
                    case.get("edges", []))
    bump("systems_" + obs["status"])
    if obs["status"] == "raised":
        return f"raises_cmp {call}"
    can = canonical(obs["cap"])
    if can["problems"] and all(p.startswith("duplicate-name:") or p.startswith("variable-denotes-twice:")
                               for p in can["problems"]):
        # two variables with one GEKKO name: the solver refuses the model ("Duplicate Names"), nothing is returned
        return f"raises_cmp {call}" if has_clash(case) else "true"
    return system_expr(call, can)


# ======================================================================================
# direct oracle on the system: does it force what the property needs?  If not: probe with the real solver
# ======================================================================================
PROBE_TOL = F(1, 10 ** 6)


def linear_forms(can):
    """[(is_eq, {vid: coef}, const)] of the (in)equations that are linear, as  sum coef*v + const (<=|==) 0."""
    out = []
    for rel, l, r in can["cons"]:
        try:
            p = p_add(poly(l), poly(r), -1)
        except Unparsable:
            continue
        if any(len(m) > 1 for m in p):
            continue
        if rel == "GE":
            p = {m: -q for m, q in p.items()}
        elif rel not in ("LE", "EQ"):
            continue
        out.append((rel == "EQ", {m[0]: q for m, q in p.items() if m}, p.get((), F(0))))
    return out


def occupancy_gaps(case, obs, can):
    return occupancy_gaps_of([m["name"] for m in case["mods"]], len(obs["cells"]), obs["cap"], can)


def occupancy_gaps_of(names, ncells, cap, can):
    """Cells whose occupancy (what extract_solution will read: sum over the netlist modules of model.a[name][c]) is
    NOT forced to be <= 1 by a captured inequality (directly, or after replacing a variable by the captured
    equality that defines it as a sum of other ratios), and ratio variables without the bounds [0, 1].
    Sound as a filter: an empty answer means every feasible point has all occupancies <= 1 + (1 + #links) * tol."""
    consts = cap["consts"]["a"]
    bounds = {v: (lb, ub) for v, lb, ub in can["vars"]}
    lin = linear_forms(can)
    les = [(co, k) for eq, co, k in lin if not eq]
    eqs = [(co, k) for eq, co, k in lin if eq]
    gaps, loose = [], []
    for c in range(ncells):
        gv, gk = {}, F(0)
        ok = True
        for n in names:
            if n not in consts and ("a", n, c) not in bounds:
                ok = False                      # KeyError in extract_solution: nothing is returned
                break
            if str(c) in consts.get(n, {}) and ("a", n, c) not in bounds:
                gk += consts[n][str(c)]
            else:
                v = ("a", n, c)
                gv[v] = gv.get(v, 0) + 1
                lb, ub = bounds.get(v, (None, None))
                if lb is None or lb < 0 or ub is None or ub > 1:
                    loose.append(v)
        if not ok:
            continue

        def dominated(gv, gk):
            for co, k in les:
                if all(q >= 0 for q in co.values()) and all(co.get(v, 0) >= q for v, q in gv.items()) and \
                        all(bounds.get(v, (None, None))[0] is not None and bounds[v][0] >= 0 for v in co) and \
                        -k <= 1 - gk + F(1, 10 ** 9):
                    return True
            return False

        if dominated(gv, gk):
            continue
        # replace v by its definition  v == sum w_i u_i + k  (w_i >= 0)
        gv2, gk2 = dict(gv), gk
        for v in list(gv):
            if any(co.get(v, 0) > 0 and all(q >= 0 for q in co.values()) for co, k in les):
                continue                        # bounded through an inequality of its own
            for co, k in eqs:
                q = co.get(v)
                if q is None or q == 0:
                    continue
                rest = {u: -w / q for u, w in co.items() if u != v}
                if all(w >= 0 for w in rest.values()) and all(u[0] == "a" and u[2] == c for u in rest):
                    mult = gv2.pop(v)
                    for u, w in rest.items():
                        gv2[u] = gv2.get(u, 0) + mult * w
                    gk2 += mult * (-k / q)
                    break
        if dominated(gv2, gk2):
            continue
        gaps.append(c)
    return gaps, loose


def oracle_system(case, obs):
    from harness.props import c10
    if obs["status"] != "built":
        return None
    cap = obs["cap"]
    can = canonical(cap)
    if can["problems"]:
        return None
    # fixed modules: every ratio is a constant, 1 in their own cells
    for m in case["mods"]:
        if m["fixed"]:
            row = cap["consts"]["a"].get(m["name"], {})
            if any(("a", m["name"], c) in {v for v, _, _ in can["vars"]} or str(c) not in row
                   for c in range(len(obs["cells"]))):
                return f"fixed/not-constant: allocation of fixed module {m['name']} is an optimisation variable"
    if has_clash(case):
        return None          # the open finding C10/fake-name-clash (concrete failing input: corpus/C10/fake-name-clash-fixed)
    gaps, loose = occupancy_gaps(case, obs, can)
    bump("systems_checked_for_unbounded_cells")
    if not gaps and not loose:
        return None
    bump("systems_probed_with_the_solver")
    res = probe_system(case, gaps, loose)
    return res


def probe_system(case, gaps, loose, max_cells=3):
    """The system does not force occupancy <= 1 in the cells `gaps` (or leaves the ratio variables `loose` without
    the bounds [0,1]): ask the real solver.  First the real problem (the objective of the code); then, per gap, the
    same GEKKO model - the variables, bounds and equations the real code created, untouched - with the objective
    replaced by 'maximise the occupancy of that cell'.  What the solver returns goes through the real
    extract_solution and the property is checked on the result."""
    from harness.props import c10
    from gekko.gk_variable import GKVariable

    def hook(model, die, cells, threshold, orig_solve):
        g = model.gekko
        mods0 = hook.mods0
        W, H = case["die"]

        def attempt(label):
            try:
                d2, alloc, _, _ = orig_solve(model, die, cells, threshold)
            except Exception as e:
                return None, f"{type(e).__name__}"
            from harness.props import alloc_common as ac
            out_cells = ac.alloc_obs(alloc)["cells"]
            out_mods = [c10.module_obs(m) for m in d2.netlist.modules]
            r = c10.check_result([W, H], mods0, out_mods, out_cells, c10.TOL)
            if r:
                return {"stage": label, "key": r[0], "why": r[1], "cells": out_cells}, None
            return None, None

        found, err = attempt("the optimisation problem as built by the code")
        if found:
            return found
        tried = []
        targets = [("cell", c) for c in gaps[:max_cells]] + [("var", v) for v in loose[:1]]
        for kind, tg in targets:
            if kind == "cell":
                terms = [model.a[m.name][tg] for m in die.netlist.modules
                         if m.name in model.a and isinstance(model.a[m.name].get(tg), GKVariable)]
            else:
                terms = [model.a[tg[1]][tg[2]]]
            if not terms:
                continue
            obj = terms[0]
            for tm in terms[1:]:
                obj = obj + tm
            g._objectives = []
            g.Maximize(obj)
            found, err = attempt(f"the same variables, bounds and equations with the objective replaced by "
                                 f"'maximise the occupancy of cell {tg}'" if kind == "cell" else
                                 f"the same system with the objective 'maximise {tg}'")
            tried.append(err)
            if found:
                return found
        return {"stage": None, "tried": tried}

    obs0 = run_system(dict(case, _probe=True), solve_hook=None)
    hook.mods0 = obs0.get("mods0", [])
    obs = run_system(case, solve_hook=hook)
    h = obs.get("hook") or {}
    if h.get("stage"):
        pre = "" if h["stage"].startswith("the optimisation problem") else "probe/"
        return (f"{pre}{h['key']}: {h['why']} - returned by the real solver and extract_solution for {h['stage']} "
                f"(the captured system does not bound the occupancy of cells {gaps})")
    return None


# ======================================================================================
# kind "run": the system of every optimisation inside a real glbfloor run
# ======================================================================================
RUN_SYSTEM_LIMIT = 400          # (entries of `modules`) x (cells) up to which the recorded system is compared in Coq
STATS = {}


def bump(key, n=1):
    STATS[key] = STATS.get(key, 0) + n


def float_tie(it):
    """Inside a run the rectangles of a movable hard module sit, from the second optimisation on, at the solver's
    coordinates: get_a = area_overlap / area is then computed with roundings.  If such a ratio is within 2^-40 of the
    threshold or of 1 - threshold the strict comparisons of the freezing rule depend on those roundings, which the
    exact model cannot follow: the structural comparisons of that optimisation are skipped (exact-stream rule;
    counted in the evidence).  Ratios computed from small dyadic coordinates, and stored ratios, are exact: ties
    among them ARE compared."""
    from harness.props import c10
    from harness.props import alloc_common as ac
    t = core.frac(float(it["t"]))
    lim = F(1, 2 ** 40)

    def small(q):
        q = core.frac(q)
        return q.denominator <= 2 ** 12

    for m in it["mods_before"]:
        rects = m["rects"] if (m["hard"] and not m["fixed"]) else (m["rects"] if len(m["rects"]) == 1 else [])
        for r in rects:
            r_small = all(small(r[k]) for k in ("cx", "cy", "w", "h"))
            for c in it["in_cells"]:
                cr = c["rect"]
                if r_small and all(small(cr[k]) for k in ("cx", "cy", "w", "h")):
                    continue
                q = ac.ovl(c10.rbox(cr), c10.rbox(r)) / c10.rarea(cr)
                if abs(q - t) < lim or abs(q - (1 - t)) < lim:
                    return True
    return False


def run_system_expr(it, clash=False):
    mods = it["mods_before"]
    ncells = len(it["in_cells"])
    nprob = sum(len(m["rects"]) if (m["hard"] and not m["fixed"]) else 1 for m in mods)
    if nprob * ncells > RUN_SYSTEM_LIMIT:
        bump("run_systems_skipped_for_size")
        return None
    bump("run_systems_compared")
    can = canonical(it["cap"])
    call = gen_call(it["eps"], it["t"], None, mods, it["areas"], it["pow32"], it["in_cells"], it["edges"],
                    gdie_text=fr.grect(it["die_rect"]))
    if can["problems"] and all(p.startswith("duplicate-name:") or p.startswith("variable-denotes-twice:")
                               for p in can["problems"]):
        return f"raises_cmp {call}" if clash else "true"
    return system_expr(call, can)


def run_raises_expr(it):
    call = gen_call(it["eps"], it["t"], None, it["mods_before"], it["areas"], it["pow32"], it["in_cells"], it["edges"],
                    gdie_text=fr.grect(it["die_rect"]))
    return f"raises_cmp {call}"


def oracle_run_systems(case, obs):
    """Every optimisation of the run: does the system it built force occupancy <= 1?  If not, probe it."""
    if has_clash(case):
        return None          # the open finding C10/fake-name-clash: the returned allocation itself is checked
    for k, it in enumerate(obs.get("iters", [])):
        if "cap" not in it or "mods_before" not in it:
            continue
        can = canonical(it["cap"])
        if can["problems"]:
            continue
        names = [m["name"] for m in it["mods_before"]]
        gaps, loose = occupancy_gaps_of(names, len(it["in_cells"]), it["cap"], can)
        bump("run_systems_checked_for_unbounded_cells")
        if gaps or loose:
            bump("run_systems_probed_with_the_solver")
            return probe_run(case, k, gaps, loose)
    return None


def probe_run(case, k, gaps, loose, max_cells=3):
    from harness.props import c10
    from harness.props import alloc_common as ac
    from gekko.gk_variable import GKVariable

    def hook(model, die, cells, threshold, orig_solve):
        g = model.gekko
        targets = [("cell", c) for c in gaps[:max_cells]] + [("var", v) for v in loose[:1]]
        for kind, tg in targets:
            if kind == "cell":
                terms = [model.a[m.name][tg] for m in die.netlist.modules
                         if m.name in model.a and isinstance(model.a[m.name].get(tg), GKVariable)]
            else:
                terms = [model.a[tg[1]][tg[2]]]
            if not terms:
                continue
            obj = terms[0]
            for tm in terms[1:]:
                obj = obj + tm
            g._objectives = []
            g.Maximize(obj)
            try:
                d2, alloc, _, _ = orig_solve(model, die, cells, threshold)
            except Exception:
                continue
            out_cells = ac.alloc_obs(alloc)["cells"]
            out_mods = [c10.module_obs(m) for m in d2.netlist.modules]
            return {"target": [kind, tg], "cells": out_cells, "mods": out_mods}
        return None

    obs = c10.run_run(case, probe=(k, hook))
    res = obs.get("probe")
    if obs.get("status") != "probed" or not res:
        return None
    r = c10.check_result(obs["die"], obs["mods0"], res["mods"], res["cells"], c10.TOL)
    if not r:
        return None
    return (f"probe/{r[0]}: {r[1]} - returned by the real solver and extract_solution at optimisation {k + 1} of the run for "
            f"the variables, bounds and equations the code built, with the objective replaced by 'maximise the "
            f"occupancy of {res['target'][0]} {res['target'][1]}' (the captured system does not bound the occupancy of "
            f"cells {gaps})")


# ======================================================================================
# generators for real runs: names with prefix relations, ties
# ======================================================================================
RUN_NAME_SCHEMES = [
    None,                                                                     # keep H<k> / S<k> / F<k>
    (["H1", "H10", "H1_", "H2"], ["H1_io", "H1_x", "H10_", "H1__0", "H1_7"], ["H1_f", "F", "H1_fixed"]),
    (["M", "a_b", "x"], ["M_", "a_b_c", "x_a", "v1", "d_x"], ["M_fixed", "a", "sum_1"]),
    (["A", "B", "C"], ["A0", "A_b", "Ab", "A_", "B_1x"], ["B_", "B__", "C_x"]),
]


def decorate_run(rng, case):
    """Rename the modules of a generated run (names that are prefixes of each other / of internal names / equal to
    names of GEKKO variables); rarely: the internal name of a rectangle of a movable hard module."""
    scheme = rng.choice([0, 0, 1, 1, 2, 3])
    clash = rng.random() < 0.06
    if scheme == 0 and not clash:
        return case
    mods = case["netlist"]["Modules"]
    pools = [list(p) for p in (RUN_NAME_SCHEMES[scheme] or (["H0", "H1", "H2", "H3", "H4", "H5"],
                                                             ["S0", "S1", "S2", "S3", "S4", "S5"], ["F0", "F1", "F2"]))]
    for p in pools:
        rng.shuffle(p)
    ren = {}
    for n, d in mods.items():
        pool = pools[2] if d.get("fixed") else (pools[0] if d.get("hard") else pools[1])
        ren[n] = pool.pop() if pool else f"Z{len(ren)}"
    if clash:
        hard = [n for n, d in mods.items() if d.get("hard") and not d.get("fixed")]
        others = [n for n, d in mods.items() if d.get("fixed")] or [n for n in mods if n not in hard]
        if hard and others:
            h = rng.choice(hard)
            ren[rng.choice(others)] = f"{ren[h]}_{rng.randrange(0, len(mods[h]['rectangles']))}"
    if len(set(ren.values())) != len(ren):
        return case
    out = dict(case)
    out["netlist"] = {"Modules": {ren[n]: d for n, d in mods.items()},
                      "Nets": [[ren.get(x, x) if isinstance(x, str) else x for x in e] for e in case["netlist"]["Nets"]]}
    return out


def gen_run_tie(rng):
    """Soft modules of area 1 centred in 2x2 (ratio 1/4) or 2x1 (ratio 1/2) ground cells next to a fixed strip,
    threshold 3/4, 1/2 or 1 (ratio == 1 - threshold exactly / ratio 0 == 1 - 1), everything attracted to the fixed
    module with alpha near 1."""
    H = rng.choice([2, 2, 1])
    nblocks = rng.choice([1, 1, 2])
    W = 2 * nblocks + 1
    t = rng.choice([0.75, 0.75, 1.0, 0.5]) if H == 2 else rng.choice([0.5, 0.5, 1.0, 0.75])
    fname = rng.choice(["F1", "F1", "H1_f", "S1_0"])
    modules = {fname: {"fixed": True, "rectangles": [[W - 0.5, H / 2, 1.0, float(H)]]}}
    names = []
    k = rng.choice([1, 2, 2, 3])
    soft_names = rng.choice([["S1", "S2", "S3"], ["H1_io", "H1_x", "S1"], ["a", "a_b", "a_b_0"]])
    for i in range(k):
        bx = rng.randrange(nblocks)
        # areas with a dyadic square root (the netlist turns a soft module into a square of side sqrt(area); an
        # irrational side would put the ratio one rounding away from the tie, which exact arithmetic cannot follow)
        modules[soft_names[i]] = {"area": 1.0 if H == 2 else rng.choice([1.0, 0.25]), "center": [2.0 * bx + 1.0, H / 2]}
        names.append(soft_names[i])
    if rng.random() < 0.3 and H == 2:
        modules["H1"] = {"hard": True, "rectangles": [[0.5, 0.5, 1.0, 1.0]]}
        names.append("H1")
    nets = [[n, fname, float(rng.choice([1, 2, 5]))] for n in names]
    if len(names) >= 2:
        nets.append(names[:2])
    if len(names) >= 3 and rng.random() < 0.5:
        nets.append(names[:3] + [fname])
    order = list(modules)
    rng.shuffle(order)
    init = ["none", 1, 1] if nblocks == 1 else ["split", 2, nblocks]
    alpha = rng.choice([1.0, 1.0, 0.9, 0.5])
    case = {"kind": "run", "die": {"width": float(W), "height": float(H), "regions": []},
            "netlist": {"Modules": {n: modules[n] for n in order}, "Nets": nets},
            "init": init, "t": t, "alpha": alpha, "max_iter": rng.choice([1, 1, 2]), "style": "tie"}
    if "H1" in modules:
        case["max_iter"] = 1      # after the first optimisation H1 sits at the solver's coordinates (see float_tie)
    if t == 1.0 and alpha == 1.0 and rng.random() < 0.5:
        case.update(t=1, alpha=1, raw=True)          # the parameters as Python ints
    return case


def shrink_system(case):
    if case.get("pre"):
        yield {k: v for k, v in case.items() if k != "pre"}
    if case.get("edges"):
        yield dict(case, edges=case["edges"][:-1])
    for i, m in enumerate(case["mods"]):
        if len(case["mods"]) > 1 and not m["fixed"]:
            n = m["name"]
            yield dict(case, mods=case["mods"][:i] + case["mods"][i + 1:],
                       cells=[dict(c, alloc=[[k, q] for k, q in c["alloc"] if k != n]) for c in case["cells"]],
                       edges=[[x for x in e if x != n] for e in case.get("edges", [])])
