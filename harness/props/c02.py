"""C02 - refining an allocation conserves tiling, module area and centroid."""
from fractions import Fraction as F

from harness import core, fr
from harness.props import alloc_common as ac
from harness.props.alloc_common import HEADER, run_impl, to_coq, shrink

ASSUMPTIONS = [
    "tolerances set explicitly (Rectangle.set_epsilon) and passed to the model as parameters; the sliver ratio is the exact value of the float 0.01",
    "cells are generated from guillotine partitions with dyadic coordinates and ratios, so binary64 arithmetic is exact; centres (one division) are compared within 8 roundings",
    "refine(levels=0) raises by design (assert levels > 0) and is outside 'all level counts'",
]


def oracle_decimal(case, obs):
    """Decimal coordinates: the same clauses within 1e-9 of the layout size (binary64 rounding)."""
    if obs["init"] is None:
        return None
    size = max(max(abs(core.frac(c["rect"]["cx"])) + core.frac(c["rect"]["w"]),
                   abs(core.frac(c["rect"]["cy"])) + core.frac(c["rect"]["h"])) for c in obs["init"]["cells"])
    tol = size * F(1, 10 ** 9)
    for o, st in zip(case["ops"], obs["steps"]):
        before, after = st["before"]["cells"], st["after"]
        if after is None:
            return f"{o[0]} failed ({st.get('err')}) on a valid allocation with decimal coordinates"
        after = after["cells"]
        for p in before:
            pb = ac.cbox(p)
            kids = [c for c in after if ac.ovl(pb, ac.cbox(c)) > tol * size]
            for c in kids:
                b = ac.cbox(c)
                if not (b[0] >= pb[0] - tol and b[1] >= pb[1] - tol and b[2] <= pb[2] + tol and b[3] <= pb[3] + tol):
                    return f"{o[0]}: a new cell is not inside the cell it was cut from (decimal)"
                if dict(map(tuple, c["alloc"])) != dict(map(tuple, p["alloc"])):
                    return f"{o[0]}: a new cell does not inherit the occupancy ratios of its parent (decimal)"
            if abs(sum(ac.carea(c) for c in kids) - ac.carea(p)) > 4 * tol * size:
                return f"{o[0]}: the new cells do not cover the cell they were cut from (decimal)"
            if p["rect"]["fixed"] and (len(kids) != 1 or ac.cbox(kids[0]) != pb):
                return f"{o[0]}: a cell of a fixed module was cut"
        mods = {m for c in before for m, _ in c["alloc"]}
        for m in mods:
            a0, a1 = ac.mod_area(before, m), ac.mod_area(after, m)
            if abs(a0 - a1) > 4 * tol * size:
                return f"{o[0]}: allocated area of module {m} changed (decimal)"
            c0, c1 = ac.mod_center(before, m), ac.mod_center(after, m)
            if (c0 is None) != (c1 is None) or (c0 and (abs(c0[0] - c1[0]) > 1000 * tol or abs(c0[1] - c1[1]) > 1000 * tol) and a0 > F(1, 10 ** 6) * size * size):
                return f"{o[0]}: centre of mass of module {m} changed (decimal)"
    return None


def oracle(case, obs):
    if case.get("stream") == "decimal":
        return oracle_decimal(case, obs)
    if obs["init"] is None:
        return None       # not a valid allocation: nothing is claimed
    for o, st in zip(case["ops"], obs["steps"]):
        before, after = st["before"]["cells"], st["after"]
        if after is None:
            if o[0] == "refine" and o[2] == 0:
                return None
            return f"{o[0]} failed ({st.get('err')}) on a valid allocation"
        if not st.get("src_unchanged", True):
            return f"{o[0]} modified the allocation it was applied to"
        after = after["cells"]
        # tiling per original cell
        used = [0] * len(after)
        for p in before:
            pb = ac.cbox(p)
            kids = [(i, c) for i, c in enumerate(after) if ac.ovl(pb, ac.cbox(c)) > 0]
            for i, c in kids:
                used[i] += 1
                b = ac.cbox(c)
                if not (b[0] >= pb[0] and b[1] >= pb[1] and b[2] <= pb[2] and b[3] <= pb[3]):
                    return f"{o[0]}: a new cell is not inside the cell it was cut from"
                if dict(map(tuple, c["alloc"])) != dict(map(tuple, p["alloc"])):
                    return f"{o[0]}: a new cell does not inherit the occupancy ratios of its parent"
                if c["rect"]["fixed"] != p["rect"]["fixed"] or c["rect"]["region"] != p["rect"]["region"]:
                    return f"{o[0]}: a new cell lost the attributes of its parent"
            if sum(ac.carea(c) for _, c in kids) != ac.carea(p):
                return f"{o[0]}: the new cells do not cover the cell they were cut from"
            for x in range(len(kids)):
                for y in range(x + 1, len(kids)):
                    if ac.ovl(ac.cbox(kids[x][1]), ac.cbox(kids[y][1])) > 0:
                        return f"{o[0]}: new cells overlap"
            if p["rect"]["fixed"] and (len(kids) != 1 or ac.cbox(kids[0][1]) != pb):
                return f"{o[0]}: a cell of a fixed module was cut"
        if any(u != 1 for u in used):
            return f"{o[0]}: a new cell does not belong to exactly one original cell"
        mods = {m for c in before for m, _ in c["alloc"]}
        for m in mods:
            if ac.mod_area(before, m) != ac.mod_area(after, m):
                return f"{o[0]}: allocated area of module {m} changed"
            if ac.mod_center(before, m) != ac.mod_center(after, m):
                return f"{o[0]}: centre of mass of module {m} changed"
            a_impl = st["after"]["areas"].get(m)
            if a_impl is None or core.frac(a_impl) != ac.mod_area(after, m):
                return f"{o[0]}: Allocation.area({m}) disagrees with the cells"
    return None


def failure_key(case, why):
    w = why or ""
    if "griddify failed" in w:
        return "C02/griddify-fails"
    if "fixed module was cut" in w:
        return "C02/fixed-cell-cut"
    return "C02/refine"


def run(ctx, out, replay=None):
    n = 700 if ctx.quick() else 7000
    out.rule = ("allocations from random dyadic guillotine partitions (also sparse, grid, sliver layouts), occupancy maps "
                "empty/single/multi/full/fixed, depths 0-3, then 1-4 random refinement operations (refine with thresholds "
                "equal to occurring ratios, uniform depth, griddify); non-trivial = at least two cells; distinct by hash")
    cases = []
    if replay and "case" in replay:
        cases.append(fr.unjson(replay["case"]))
    cases += fr.load_corpus("C02")
    while len(cases) < n:
        cases.append(ac.gen_case(ctx.rng))
    fr.run_cases(ctx, out, cases, run_impl, to_coq, oracle, failure_key, HEADER,
                 dist_key=ac.dist_key, nontrivial=ac.nontrivial, shard=150, shrink=shrink)
