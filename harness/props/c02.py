"""C02 - refining an allocation conserves tiling, module area and centroid."""
from fractions import Fraction as F

from harness import core, fr
from harness.props import alloc_common as ac
from harness.props.alloc_common import HEADER, HEADER_H, run_impl, to_coq, shrink

ASSUMPTIONS = [
    "tolerances set explicitly (Rectangle.set_epsilon) and passed to the model as parameters; the sliver ratio is the exact value of the float 0.01",
    "cells are generated from guillotine partitions with dyadic coordinates and ratios, so binary64 arithmetic is exact; centres (one division) are compared within 8 roundings",
    "refine(levels=0) raises by design (assert levels > 0) and is outside 'all level counts'",
    "decimal coordinates (cell sides 0.1, 0.3, 0.7, 1.1 ..., not representable in binary64) go to the direct oracle only, with a tolerance of "
    "1e-9 of the layout size; this includes the LARGE results (1000-1100, 2048, 4100 cells from refine / uniform / griddify of a "
    "decimal layout; quick tier: two of about 1025 cells, one of them by refine), where the constructor's all-pairs overlap check costs "
    "3 s (1026 cells) to 60 s (4100 cells) per call",
]


def oracle_decimal(case, obs):
    """Decimal coordinates: the same clauses within 1e-9 of the layout size (binary64 rounding)."""
    if obs["init"] is None:
        return None
    size = max(max(abs(core.frac(c["rect"]["cx"])) + core.frac(c["rect"]["w"]),
                   abs(core.frac(c["rect"]["cy"])) + core.frac(c["rect"]["h"])) for c in obs["init"]["cells"])
    tol = size * F(1, 10 ** 9)
    for o, st in zip(case["ops"], obs["steps"]):
        before, after = st["before"]["cells"], st["after"]
        if after is None:
            return f"{o[0]} failed ({st.get('err')}) on a valid allocation with decimal coordinates"
        after = after["cells"]
        ab = [ac.cbox(c) for c in after]
        fb = [tuple(map(float, b)) for b in ab]      # float pre-filter (results of 1000+ cells): cannot miss an overlap > tol * size
        for p in before:
            pb = ac.cbox(p)
            pf = tuple(map(float, pb))
            kids = [c for c, b, f in zip(after, ab, fb) if f[0] < pf[2] and pf[0] < f[2] and f[1] < pf[3] and pf[1] < f[3]
                    and ac.ovl(pb, b) > tol * size]
            for c in kids:
                b = ac.cbox(c)
                if not (b[0] >= pb[0] - tol and b[1] >= pb[1] - tol and b[2] <= pb[2] + tol and b[3] <= pb[3] + tol):
                    return f"{o[0]}: a new cell is not inside the cell it was cut from (decimal)"
                if dict(map(tuple, c["alloc"])) != dict(map(tuple, p["alloc"])):
                    return f"{o[0]}: a new cell does not inherit the occupancy ratios of its parent (decimal)"
            if abs(sum(ac.carea(c) for c in kids) - ac.carea(p)) > 4 * tol * size:
                return f"{o[0]}: the new cells do not cover the cell they were cut from (decimal)"
            if p["rect"]["fixed"] and (len(kids) != 1 or ac.cbox(kids[0]) != pb):
                return f"{o[0]}: a cell of a fixed module was cut"
        mods = {m for c in before for m, _ in c["alloc"]}
        for m in mods:
            a0, a1 = ac.mod_area(before, m), ac.mod_area(after, m)
            if abs(a0 - a1) > 4 * tol * size:
                return f"{o[0]}: allocated area of module {m} changed (decimal)"
            c0, c1 = ac.mod_center(before, m), ac.mod_center(after, m)
            if (c0 is None) != (c1 is None) or (c0 and (abs(c0[0] - c1[0]) > 1000 * tol or abs(c0[1] - c1[1]) > 1000 * tol) and a0 > F(1, 10 ** 6) * size * size):
                return f"{o[0]}: centre of mass of module {m} changed (decimal)"
    return None


def step_clauses(name, before, after, areas_impl):
    """The clauses of C02 for ONE refinement call: `before` = the cells (with the flags they had when the call was
    made), `after` = the cells of the allocation it returned, `areas_impl` = {module: area()} of the returned object."""
    used = [0] * len(after)
    ab = [ac.cbox(c) for c in after]
    for p in before:
        pb = ac.cbox(p)
        kids = [(i, c) for i, c in enumerate(after)
                if ab[i][0] < pb[2] and pb[0] < ab[i][2] and ab[i][1] < pb[3] and pb[1] < ab[i][3]]     # overlap > 0
        for i, c in kids:
            used[i] += 1
            b = ab[i]
            if not (b[0] >= pb[0] and b[1] >= pb[1] and b[2] <= pb[2] and b[3] <= pb[3]):
                return f"{name}: a new cell is not inside the cell it was cut from"
            if dict(map(tuple, c["alloc"])) != dict(map(tuple, p["alloc"])):
                return f"{name}: a new cell does not inherit the occupancy ratios of its parent"
            if c["rect"]["fixed"] != p["rect"]["fixed"] or c["rect"]["region"] != p["rect"]["region"]:
                return f"{name}: a new cell lost the attributes of its parent"
        if sum(ac.carea(c) for _, c in kids) != ac.carea(p):
            return f"{name}: the new cells do not cover the cell they were cut from"
        for x in range(len(kids)):
            for y in range(x + 1, len(kids)):
                if ac.ovl(ab[kids[x][0]], ab[kids[y][0]]) > 0:
                    return f"{name}: new cells overlap"
        if p["rect"]["fixed"] and (len(kids) != 1 or ab[kids[0][0]] != pb):
            return f"{name}: a cell of a fixed module was cut"
    if any(u != 1 for u in used):
        return f"{name}: a new cell does not belong to exactly one original cell"
    mods = {m for c in before for m, _ in c["alloc"]}
    for m in mods:
        if ac.mod_area(before, m) != ac.mod_area(after, m):
            return f"{name}: allocated area of module {m} changed"
        if ac.mod_center(before, m) != ac.mod_center(after, m):
            return f"{name}: centre of mass of module {m} changed"
        a_impl = areas_impl.get(m)
        if a_impl is None or core.frac(a_impl) != ac.mod_area(after, m):
            return f"{name}: Allocation.area({m}) disagrees with the cells"
    return None


def oracle_hist(case, obs):
    """History cases: the same clauses after every refinement call, judged on the cells and the fixed flags the
    allocation had WHEN the call was made (whatever was asked of the object, or flagged in place, before)."""
    if obs["init"] is None:
        return None
    for n, (h, st) in enumerate(zip(case["hops"], obs["steps"])):
        where = f"step {n}"
        if h[0] == "apply":
            o = h[2]
            if st["new"] is None:
                if o[0] == "refine" and o[2] == 0:
                    continue
                return f"{o[0]} failed ({st.get('err')}) on a valid allocation ({where} of a history)"
            if not st["others_unchanged"]:
                return f"{o[0]} modified an allocation it was applied to or an earlier one ({where})"
            why = step_clauses(o[0], st["src"], st["new"], {m: a for m, a, _ in st["new_areas"]})
            if why:
                return f"{why} ({where} of a history on shared objects)"
        elif h[0] == "areas":
            # area()/center() of an allocation stay those of its cells, whatever happened to the object since
            cells = st["src"]
            size = max([abs(core.frac(c["rect"]["cx"])) + abs(core.frac(c["rect"]["cy"])) + core.frac(c["rect"]["w"]) +
                        core.frac(c["rect"]["h"]) for c in cells] + [1])
            for m, a, c in st["val"]:
                if core.frac(a) != ac.mod_area(cells, m):
                    return f"areas: Allocation.area({m}) disagrees with the cells ({where})"
                ce = ac.mod_center(cells, m)
                if ce is None or abs(core.frac(c[0]) - ce[0]) > size * F(1, 10 ** 9) or \
                        abs(core.frac(c[1]) - ce[1]) > size * F(1, 10 ** 9):
                    return f"areas: Allocation.center({m}) disagrees with the cells ({where})"
    return None


def oracle(case, obs):
    if ac.is_hist(case):
        return oracle_hist(case, obs)
    if case.get("stream") == "decimal":
        return oracle_decimal(case, obs)
    if obs["init"] is None:
        return None       # not a valid allocation: nothing is claimed
    for o, st in zip(case["ops"], obs["steps"]):
        before, after = st["before"]["cells"], st["after"]
        if after is None:
            if o[0] == "refine" and o[2] == 0:
                return None
            return f"{o[0]} failed ({st.get('err')}) on a valid allocation"
        if not st.get("src_unchanged", True):
            return f"{o[0]} modified the allocation it was applied to"
        why = step_clauses(o[0], before, after["cells"], st["after"]["areas"])
        if why:
            return why
    return None


def failure_key(case, why):
    w = why or ""
    h = "history-" if ac.is_hist(case) else ""
    if "griddify failed" in w:
        return f"C02/{h}griddify-fails"
    if "fixed module was cut" in w:
        return f"C02/{h}fixed-cell-cut"
    return f"C02/{h}refine"


def gen_cases(rng, n, quick, extreme=False):
    """n cases: chains of operations on fresh objects (the original stream) and histories on shared objects.
    extreme (C12, whose quantifier is 'all thresholds and level counts'; C02 quantifies over thresholds in [0,1]):
    a systematic block of extreme thresholds (+inf, -inf, +-1e308, -1, 0, 1, 2, 1 +- ulp, +-5e-324) x level counts
    1, 2, 8, 16 x degenerate layouts, on fresh objects (with the callers' refine-while-needed loop) and on shared
    objects flagged in place, and 30% of the other cases with some thresholds / level counts replaced by such values."""
    from harness.props import alloc_variants as av
    ext = []
    if extreme:
        n_ext, n_exth = (len(ac.EXTREME) * 2, len(ac.EXTREME)) if quick else (len(ac.EXTREME) * 28, len(ac.EXTREME) * 8)
        ext = [ac.gen_extreme_case(rng, i) for i in range(n_ext)] + [ac.gen_extreme_hist(rng, i) for i in range(n_exth)]
        n = max(n - len(ext), 0)
    # large decimal results (size threshold x coordinates that are not representable): oracle only, each costs the
    # constructor's quadratic overlap check (~7 s at 1026 cells, ~30 s at 2048, ~2 min at 4100)
    if quick:
        k = rng.randrange(3)
        picks = [av.BIGDEC_QUICK[k]] + ([] if extreme else [av.BIGDEC_QUICK[(k + 1 + rng.randrange(2)) % 3]])
        if not any(op == "refine" for _, op in picks):
            picks[-1] = av.BIGDEC_QUICK[0]
        bigdec = [av.gen_big_decimal(rng, t, op, follow=False) for t, op in picks]
    else:
        opsq = ["refine", "uniform", "griddify"]
        tg = [1001, 1026, 1100, 2048] if extreme else av.BIGDEC_TARGETS      # C12 shares the stream, C02 carries the class
        bigdec = [av.gen_big_decimal(rng, t, opsq[(i + rng.randrange(3)) % 3] if t < 4000 else "refine",
                                     exact=t < 2000 and i % 5 == 4) for i, t in enumerate(tg)]
    n = max(n - len(bigdec) * (1 if quick else 40), 0)      # thorough: a large case costs about as much as 40 ordinary ones
    n_hist = (n * 9) // 20
    n_tmpl = min(n_hist // 3, 3 * len(ac.QKINDS) * len(ac.TKINDS))
    n_big = 8 if quick else 60
    n_sliver = 16 if quick else 160
    n_sliver3 = 32 if quick else 320
    n_nontile = 28 if quick else 420
    cases = [av.vary(rng, ac.gen_hist_template(rng, i)) for i in range(n_tmpl)]
    cases += [av.vary(rng, av.gen_big(rng, quick)) for _ in range(n_big)]
    cases += [av.vary(rng, av.gen_sliver2(rng)) for _ in range(n_sliver)]
    s3 = rng.randrange(10 ** 4)
    cases += [av.vary(rng, av.gen_sliver3(rng, s3 + i)) for i in range(n_sliver3)]
    # layouts that do not tile their bounding box (shifted rows of equal bricks, gaps, L shapes): chains and histories
    nt = rng.randrange(10 ** 4)
    nontile = [av.gen_nontiling(rng, nt + i) for i in range(n_nontile)]
    cases += [av.vary(rng, c) for c in nontile if ac.is_hist(c)]
    cases += [av.vary(rng, ac.gen_hist_case(rng)) for _ in range(n_hist - n_tmpl - n_big - n_sliver - n_sliver3 - n_nontile // 2)]
    chains = [c for c in nontile if not ac.is_hist(c)]
    chains += [ac.gen_case(rng) for _ in range(n - n_hist - len(chains))]
    rng.shuffle(chains)
    if extreme:
        cases = [ac.extremize(rng, c) if rng.random() < 0.3 else c for c in cases]
        chains = [ac.extremize(rng, c) if rng.random() < 0.3 else c for c in chains]
        chains = ext + chains
    # interleave (chain cases print larger terms): the shards evaluated in parallel get similar loads
    out = []
    step = max(len(chains) / max(len(cases), 1), 0.0)
    taken = 0
    for i, c in enumerate(cases):
        out.append(c)
        upto = int(round((i + 1) * step))
        out += chains[taken:upto]
        taken = upto
    return bigdec + out + chains[taken:]


def run(ctx, out, replay=None):
    n = 520 if ctx.quick() else 5000
    out.rule = ("allocations from random dyadic guillotine partitions (also sparse, grid, sliver layouts), occupancy maps "
                "empty/single/multi/full/fixed, depths 0-3. (a) chains: 1-4 random refinement operations, each applied to the "
                "result of the previous one (refine with thresholds equal to occurring ratios, uniform depth, griddify); "
                "(b) histories on shared objects: up to 12 calls (refine / uniform / griddify / copy / must_be_refined / "
                "max_refinement_depth / num_rectangles / area+center) on ANY allocation built so far, interleaved with "
                "rect.fixed = b set in place on a cell (also through a derived allocation sharing the Rectangle object), the "
                "same object called again with other arguments; a systematic block enumerates first-call x later-call "
                "kinds with the flag set in between on a cell the later call would cut; (c) size x decimal coordinates (oracle "
                "only): grids of cells of side 0.1 / 0.3 / 0.7 / 1.1 / 0.07 ... on which ONE refine(t, 1..10 levels) / "
                "uniform_refinement_depth / griddify returns 1000, 1001, 1002 ... 1100, 2048, 4100 cells (thorough; some "
                "followed by a second operation on the large result, some from exactly representable sides; quick: two results "
                "of 1024-1026 cells); (d) layouts where the 1% rule of griddify answers differently for a cell and for the pieces "
                "the perpendicular cuts leave (see C12); (e) layouts that do not tile their bounding box (rows / columns of equal "
                "bricks shifted against each other, gaps, rows of different brick sizes, L-shaped unions, pinwheels, grids with "
                "holes; chains and histories, see C12); non-trivial = at least two cells; distinct by hash")
    cases = []
    if replay and "case" in replay:
        cases.append(fr.unjson(replay["case"]))
    cases += fr.load_corpus("C02")
    cases += gen_cases(ctx.rng, max(n - len(cases), 0), ctx.quick())
    fr.run_cases(ctx, out, cases, ac.run_any, ac.any_to_coq, oracle, failure_key, HEADER_H,
                 dist_key=ac.any_dist_key, nontrivial=ac.nontrivial, shard=75, shrink=ac.any_shrink)
    out.extra["history_cases"] = sum(1 for c in cases if ac.is_hist(c))
    out.extra["variants"] = ac.variant_counts(cases)
