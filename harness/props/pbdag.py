"""Histories over SHARED pseudo-Boolean objects (model: coq/PB/Dag.v, DagPost.v) - used by C16 and C07.

A history is a list of bindings; binding n is created from EARLIER bindings (by index) with the real overloaded
operators of tools/rect/pseudobool.py.  All objects stay alive (bound to names) until the end of the history and are
observed only then - after everything that was derived from them has been built.

bindings (JSON lists)                        model constructor (PB/Dag.v)
  ["int", k]  ["str", v]  ["lit", v, s]        BInt BStr BLit
  ["exprc", c]                                 BExprC        Expr() / Expr(c)
  ["not", i]  ["neg", i]                       BNot BNeg     -literal / -term
  ["times", i, k]                              BTimes        Term(l, k), l * k, k * l, t * k, e * k ...
  ["copy", i]                                  BCopy         Literal(l.v, l.s) / Term(t.L, t.c) / Expr(e.c, e.t)
  ["add", i, j] (+ "aug": x_i += x_j)          BAdd          (int / str on the left: __radd__)
  ["sub", i, j] (+ "aug")                      BSub
  ["cmp", i, OP, j]                            BCmp          x_i OP x_j   (reflected spelling when x_j is int / str)
  ["ineq", i, OP, j]                           BIneq         Ineq(x_i, x_j, "op")
  ["sum", [i, ...]]                            BSum          sum([...], Expr()) / a loop with + or +=
  ["obs", i]                                   BObs          tostr / isclause / getrobdd / a post to a throw-away manager
"""
import itertools
import random

from harness.core import gz, gbool, glist, gnat
from harness import core


def gstr(s):
    """Gallina string literal; non-ASCII names as their UTF-8 bytes (Coq strings are byte strings: injective)."""
    if all(32 <= ord(c) < 127 for c in s):
        return core.gstr(s)
    assert '"' not in s and all(ord(c) >= 32 for c in s), s
    return '"' + s + '"%string'

OPSTR = {"GE": ">=", "LE": "<=", "GT": ">", "LT": "<", "EQ": "=", "EQ2": "=="}
OPBACK = {">=": "GE", "<=": "LE", ">": "GT", "<": "LT", "=": "EQ", "==": "EQ2"}
ARITH = ("int", "str", "lit", "term", "expr")


# --------------------------------------------------------------------------
# structure: references, kinds
# --------------------------------------------------------------------------
def refs(b):
    k = b[0]
    if k in ("not", "neg", "times", "copy", "obs"):
        return [b[1]]
    if k in ("add", "sub"):
        return [b[1], b[2]]
    if k in ("cmp", "ineq"):
        return [b[1], b[3]]
    if k == "sum":
        return list(b[1])
    # C07 steps (PB/DagPost.v): literals are ["new", v, s] or ["ref", i]
    if k in ("clause", "amoq"):
        return [l[1] for l in b[1] if l[0] == "ref"]
    if k == "amoh":
        return [l[1] for l in b[2] if l[0] == "ref"]
    if k == "imply":
        return [l[1] for l in b[1] + [b[2]] if l[0] == "ref"]
    if k == "post":
        return [b[1]]
    return []


def remap(b, f):
    k = b[0]
    b = list(b)
    if k in ("not", "neg", "times", "copy", "obs"):
        b[1] = f(b[1])
    elif k in ("add", "sub"):
        b[1], b[2] = f(b[1]), f(b[2])
    elif k in ("cmp", "ineq"):
        b[1], b[3] = f(b[1]), f(b[3])
    elif k == "sum":
        b[1] = [f(i) for i in b[1]]
    elif k in ("clause", "amoq", "amoh", "imply", "post"):
        def fl(l):
            return ["ref", f(l[1])] if l[0] == "ref" else list(l)
        if k in ("clause", "amoq"):
            b[1] = [fl(l) for l in b[1]]
        elif k == "amoh":
            b[2] = [fl(l) for l in b[2]]
        elif k == "imply":
            b[1], b[2] = [fl(l) for l in b[1]], fl(b[2])
        else:
            b[1] = f(b[1])
    return b


def kind_of(b, kinds):
    """Kind of the object a binding creates, None if the history is ill-typed there (never generated)."""
    k = b[0]
    if k in ("int", "str", "lit"):
        return k
    if k == "exprc":
        return "expr"
    if k == "newvar":
        return "lit"
    if any(i >= len(kinds) or i < 0 for i in refs(b)):
        return None
    if k in ("clause", "amoq", "amoh", "imply"):
        return "none" if all(kinds[i] == "lit" for i in refs(b)) else None
    if k == "post":
        return "none" if kinds[b[1]] == "ineq" else None
    if k == "not":
        return "lit" if kinds[b[1]] == "lit" else None
    if k == "neg":
        return "term" if kinds[b[1]] == "term" else None
    if k == "times":
        return {"lit": "term", "term": "term", "expr": "expr"}.get(kinds[b[1]])
    if k == "copy":
        return kinds[b[1]] if kinds[b[1]] in ("lit", "term", "expr") else None
    if k == "add":
        x, y = kinds[b[1]], kinds[b[2]]
        if x in ("lit", "term", "expr") and y in ARITH:
            return "expr"
        if x in ("int", "str") and y in ("lit", "term"):
            return "expr"
        return None
    if k == "sub":
        return "expr" if kinds[b[1]] == "expr" and kinds[b[2]] in ARITH else None
    if k == "cmp":
        ok = kinds[b[1]] in ("lit", "term", "expr") and kinds[b[3]] in ARITH and b[2] in ("GE", "LE", "GT", "LT", "EQ")
        return "ineq" if ok else None
    if k == "ineq":
        l, r = (b[3], b[1]) if b[2] in ("LE", "LT") else (b[1], b[3])
        return "ineq" if kinds[l] == "expr" and kinds[r] in ARITH else None
    if k == "sum":
        return "expr" if all(kinds[i] in ARITH for i in b[1]) else None
    if k == "obs":
        return "none" if kinds[b[1]] in ARITH + ("ineq",) else None
    return None


def kinds_of(binds):
    kinds = []
    for b in binds:
        kinds.append(kind_of(b, kinds))
    return kinds


def consumed(binds):
    """Objects whose name was rebound by an augmented assignment: the history gave them up."""
    return {b[1] for b in binds if b[0] in ("add", "sub") and len(b) > 3 and b[3] == "aug"}


# --------------------------------------------------------------------------
# generation
# --------------------------------------------------------------------------
class Builder:
    def __init__(self, rng, names):
        self.rng, self.names = rng, names
        self.binds = []
        self.kinds = []
        self.dead = set()
        self.hot = []

    def push(self, b):
        k = kind_of(b, self.kinds)
        assert k is not None, (b, self.kinds)
        self.binds.append(b)
        self.kinds.append(k)
        if len(b) > 3 and b[0] in ("add", "sub") and b[3] == "aug":
            self.dead.add(b[1])
        return len(self.kinds) - 1

    def pool(self, *ks):
        return [i for i, k in enumerate(self.kinds) if k in ks and i not in self.dead]

    def pick(self, *ks):
        p = self.pool(*ks)
        if not p:
            return None
        hot = [i for i in self.hot if self.kinds[i] in ks and i not in self.dead]
        r = self.rng.random()
        if hot and r < 0.45:
            return self.rng.choice(hot)
        if r < 0.65:
            return self.rng.choice(p[-6:])
        return self.rng.choice(p)

    def coef(self):
        return self.rng.choice([0, 1, 1, -1, 2, 2, -2, 3, -3, 5, self.rng.randrange(-9, 10)])

    def leaf(self):
        r = self.rng.random()
        v = self.rng.choice(self.names)
        if r < 0.55:
            return self.push(["lit", v, self.rng.random() < 0.6])
        if r < 0.7:
            return self.push(["str", v])
        if r < 0.85:
            return self.push(["int", self.rng.choice([0, 1, -1, 2, 3, -3, self.rng.randrange(-12, 13)])])
        return self.push(["exprc", self.rng.choice([0, 0, 0, 1, -2, 5])])

    def step(self):
        rng = self.rng
        op = rng.choice(["leaf", "not", "neg", "times", "times", "times", "copy", "add", "add", "add", "add", "add",
                         "radd", "sub", "sub", "sub", "cmp", "cmp", "ineq", "sum", "obs", "obs"])
        if op == "leaf":
            return self.leaf()
        if op == "not":
            i = self.pick("lit")
            return None if i is None else self.push(["not", i])
        if op == "neg":
            i = self.pick("term")
            return None if i is None else self.push(["neg", i])
        if op == "times":
            i = self.pick(*rng.choice([("lit",), ("lit", "term"), ("expr",), ("lit", "term", "expr")]))
            return None if i is None else self.push(["times", i, self.coef()])
        if op == "copy":
            i = self.pick("lit", "term", "expr")
            return None if i is None else self.push(["copy", i])
        if op in ("add", "sub"):
            i = self.pick("expr") if (op == "sub" or rng.random() < 0.75) else self.pick("lit", "term")
            j = self.pick(*rng.choice([("expr",), ("term",), ("term", "lit"), ARITH]))
            if i is None or j is None:
                return None
            b = [op, i, j]
            if rng.random() < 0.12 and i not in self.hot and j != i:
                b.append("aug")
            return self.push(b)
        if op == "radd":
            i, j = self.pick("int", "str"), self.pick("lit", "term")
            return None if i is None or j is None else self.push(["add", i, j])
        if op == "cmp":
            i = self.pick(*rng.choice([("expr",), ("expr",), ("lit", "term")]))
            j = self.pick(*rng.choice([("expr",), ("int",), ARITH]))
            if i is None or j is None:
                return None
            return self.push(["cmp", i, rng.choice(["GE", "LE", "GT", "LT", "EQ"]), j])
        if op == "ineq":
            o = rng.choice(["GE", "LE", "GT", "LT", "EQ", "EQ2"])
            e = self.pick("expr")
            x = self.pick(*rng.choice([("expr",), ("expr",), ARITH]))
            if e is None or x is None:
                return None
            return self.push(["ineq", x, o, e] if o in ("LE", "LT") else ["ineq", e, o, x])
        if op == "sum":
            p = self.pool(*rng.choice([("term",), ("term", "lit"), ARITH]))
            if not p:
                return None
            return self.push(["sum", [rng.choice(p) for _ in range(rng.choice([0, 1, 2, 3, 4, 6]))]])
        if op == "obs":
            i = self.pick(*rng.choice([("ineq",), ("ineq",), ("expr",), ARITH + ("ineq",)]))
            return None if i is None else self.push(["obs", i])
        return None

    def grow(self, n):
        rng = self.rng
        for _ in range(rng.choice([2, 3, 4])):
            self.leaf()
        tries = 0
        while len(self.binds) < n and tries < 20 * n:
            tries += 1
            i = self.step()
            if i is not None and self.kinds[i] == "expr" and len(self.hot) < 4 and rng.random() < 0.5:
                self.hot.append(i)        # a few expressions everything else keeps coming back to
            if i is not None and self.kinds[i] in ("lit", "term") and len(self.hot) < 6 and rng.random() < 0.2:
                self.hot.append(i)
        return self.binds


# names that are prefixes / suffixes of each other, that look like the internal ones, non-ASCII letters and digits
NAME_POOLS = [["a", "b", "c", "d", "e", "f"], ["a", "b", "c", "d", "e", "f"], ["a", "b", "c", "d", "e", "f"],
              ["x", "x1", "x10", "x_1", "x1_0", "X"], ["aux", "aux_", "robdd", "robdd_x", "def_", "0"],
              ["\u00e9", "\u00e91", "\u03b1\u03b2", "\u0661", "z", "\u00e9_\u00e9"]]


def gen_small(rng, names=None, n=None):
    names = names or rng.choice(NAME_POOLS)[:rng.choice([2, 3, 3, 4, 6])]
    n = n or rng.choice([6, 10, 14, 18, 24, 30, 40])
    b = Builder(rng, names)
    return b.grow(n)


def gen_big(rng, nv=None, prefix="v", unit=False):
    """Two long sums over 31..80 variables that share most variables, a good part of them with opposite polarities,
    then every binary operation between them (both orders), the five comparison operators, the constructor spellings,
    and operations on the results - the operands are used again after each of them."""
    nv = nv or rng.choice([31, 32, 33, 33, 34, 36, 40, 40, 48, 64, 80])
    names = [f"{prefix}{i}" for i in range(nv)]
    b = Builder(rng, names)

    def side(frac):
        terms = []
        for v in names:
            if rng.random() < frac:
                li = b.push(["lit", v, rng.random() < 0.5])
                k = rng.choice([1, 1, 2]) if unit else rng.choice([1, 1, 2, 3, 5, -1, -2, rng.randrange(1, 10)])
                terms.append(b.push(["times", li, k]))
        rng.shuffle(terms)
        return terms
    ta, tb = side(rng.choice([1.0, 1.0, 1.0, 0.9])), side(rng.choice([1.0, 1.0, 1.0, 0.9]))
    L = b.push(["sum", ta])
    R = b.push(["sum", tb])
    S = b.push(["sum", [rng.choice(ta + tb) for _ in range(5)]])
    ops = [["add", L, R], ["sub", L, R], ["sub", R, L], ["add", R, L], ["sub", L, L]]
    ops += [["cmp", x, o, y] for o in ("GE", "LE", "GT", "LT", "EQ") for x, y in ((L, R),)]
    ops += [["ineq", L, o, R] for o in rng.sample(["GE", "LE", "GT", "LT", "EQ", "EQ2"], 3)]
    ops += [["cmp", R, rng.choice(["GE", "LE", "GT", "LT", "EQ"]), L], ["sub", S, R], ["sub", R, S], ["cmp", S, "LE", R]]
    rng.shuffle(ops)
    made = [b.push(o) for o in ops[:rng.choice([6, 9, len(ops)])]]
    for _ in range(rng.choice([0, 2, 4])):
        e = rng.choice([i for i in made if b.kinds[i] == "expr"] + [L, R])
        f = rng.choice([L, R, S])
        made.append(b.push(rng.choice([["sub", e, f], ["add", e, f], ["times", e, rng.choice([-1, 2, 0, -3])],
                                       ["cmp", e, rng.choice(["GE", "LT", "EQ"]), f]])))
    return b.binds


# --------------------------------------------------------------------------
# execution with the real objects
# --------------------------------------------------------------------------
def observe(x, kind, rng, store=True):
    """Read-only uses of an object in the middle of a history.  store=False: only those that leave the process-wide
    diagram store alone (C07 models the store; a diagram built on the side would be a step of its own)."""
    if kind in ("int", "str"):
        return
    x.tostr()
    if kind == "ineq":
        uses = ["isclause", "tostr", "robdd", "robdd-dec", "post", "post-dec"] if store else ["isclause", "tostr", "isclause"]
        for what in rng.sample(uses, rng.choice([1, 2, 3])):
            try:
                if what == "isclause":
                    x.isclause()
                elif what == "tostr":
                    x.tostr()
                elif what.startswith("robdd"):
                    if len(x.lhs.t) <= 14:
                        x.getrobdd(what.endswith("dec"))
                elif len(x.lhs.t) <= 14:
                    from tools.rect.satmanager import SATManager
                    SATManager().pseudoboolencoding(x, what.endswith("dec"))
            except Exception as e:            # the refusal of = and > non-clauses (any class / wording)
                if isinstance(e, (TypeError, LookupError, AttributeError, NameError, RecursionError, ArithmeticError)):
                    raise


def exec_bind(env, kinds, b, rng, store=True):
    """Create the object of binding b from the objects in env (real operators, one of the equivalent spellings)."""
    from tools.rect.pseudobool import Literal, Term, Expr, Ineq
    k = b[0]
    if k == "int":
        return int(b[1])
    if k == "str":
        return str(b[1])
    if k == "lit":
        sp = [lambda: Literal(b[1], b[2]), lambda: -Literal(b[1], not b[2])]
        if b[2]:
            sp.append(lambda: Literal(b[1]))
        return rng.choice(sp)()
    if k == "exprc":
        return Expr() if b[1] == 0 and rng.random() < 0.7 else Expr(b[1])
    if k == "not" or k == "neg":
        return -env[b[1]]
    if k == "times":
        x, c = env[b[1]], b[2]
        if kinds[b[1]] == "lit":
            sp = [lambda: Term(x, c), lambda: x * c, lambda: c * x]
            if c == 1:
                sp.append(lambda: Term(x))
            return rng.choice(sp)()
        return rng.choice([lambda: x * c, lambda: c * x])()
    if k == "copy":
        x = env[b[1]]
        return {"lit": lambda: Literal(x.v, x.s), "term": lambda: Term(x.L, x.c), "expr": lambda: Expr(x.c, x.t)}[kinds[b[1]]]()
    if k in ("add", "sub"):
        x, y = env[b[1]], env[b[2]]
        if len(b) > 3 and b[3] == "aug":
            if k == "add":
                x += y
            else:
                x -= y
            return x
        return x + y if k == "add" else x - y
    if k == "cmp":
        x, y, op = env[b[1]], env[b[3]], b[2]
        if kinds[b[3]] in ("int", "str") and rng.random() < 0.4:       # reflected: 3 <= x  is  x >= 3
            return {"GE": lambda: y <= x, "LE": lambda: y >= x, "GT": lambda: y < x, "LT": lambda: y > x,
                    "EQ": lambda: y == x}[op]()
        return {"GE": lambda: x >= y, "LE": lambda: x <= y, "GT": lambda: x > y, "LT": lambda: x < y,
                "EQ": lambda: x == y}[op]()
    if k == "ineq":
        return Ineq(env[b[1]], env[b[3]], OPSTR[b[2]])
    if k == "sum":
        objs = [env[i] for i in b[1]]
        how = rng.choice(["sum", "loop", "aug"])
        if how == "sum":
            return sum(objs, Expr())
        e = Expr()
        for o in objs:
            if how == "loop":
                e = e + o
            else:
                e += o
        return e
    if k == "obs":
        observe(env[b[1]], kinds[b[1]], rng, store)
        return None
    raise ValueError(k)


def expr_snap(e):
    return {"c": e.c, "t": [[v, e.t[v].L.v, e.t[v].L.s, e.t[v].c] for v in e.t]}


def snapshot(x, kind):
    if kind in ("int", "str"):
        return x
    if kind == "lit":
        return [x.v, x.s]
    if kind == "term":
        return [x.L.v, x.L.s, x.c]
    if kind == "expr":
        return expr_snap(x)
    if kind == "ineq":
        return {"lhs": expr_snap(x.lhs), "rhs": x.rhs, "op": x.op}
    return None


def run_binds(binds, pyseed, env=None, kinds=None):
    """Executes the bindings; returns (env, kinds).  env / kinds may hold objects that exist already."""
    rng = random.Random(pyseed)
    env = list(env or [])
    kinds = list(kinds or [])
    for b in binds:
        kd = kind_of(b, kinds)
        if kd is None:
            raise ValueError(f"ill-typed binding {b} at {len(kinds)}")
        env.append(exec_bind(env, kinds, b, rng))
        kinds.append(kd)
    return env, kinds


# --------------------------------------------------------------------------
# Gallina
# --------------------------------------------------------------------------
def _b(x):
    if not isinstance(x, bool):
        raise TypeError(f"sign {x!r} is not a bool")
    return gbool(x)


def gterms(ts):
    return glist([f"(mkT {gstr(x[1])} {_b(x[2])} {gz(x[3])})" for x in ts])


def gvalue(s, kind):
    if kind == "int":
        return f"(VInt {gz(s)})"
    if kind == "str":
        return f"(VStr {gstr(s)})"
    if kind == "lit":
        return f"(VLit {gstr(s[0])} {_b(s[1])})"
    if kind == "term":
        return f"(VTerm {gstr(s[0])} {_b(s[1])} {gz(s[2])})"
    if kind == "expr":
        return f"(VExpr (mkE {gz(s['c'])} {gterms(s['t'])}))"
    if kind == "ineq":
        return f"(VIneq (mkI {gterms(s['lhs']['t'])} {gz(s['rhs'])} {OPBACK[s['op']]}))"
    return "VNone"


def gobs(snaps, kinds, skip=()):
    return glist(["None" if i in skip else f"(Some {gvalue(s, k)})" for i, (s, k) in enumerate(zip(snaps, kinds))])


def gbind(b):
    k = b[0]
    if k == "int":
        return f"(BInt {gz(b[1])})"
    if k == "str":
        return f"(BStr {gstr(b[1])})"
    if k == "lit":
        return f"(BLit {gstr(b[1])} {gbool(b[2])})"
    if k == "exprc":
        return f"(BExprC {gz(b[1])})"
    if k in ("not", "neg", "copy", "obs"):
        return f"(B{k.capitalize()} {gnat(b[1])})"
    if k == "times":
        return f"(BTimes {gnat(b[1])} {gz(b[2])})"
    if k in ("add", "sub"):
        return f"(B{k.capitalize()} {gnat(b[1])} {gnat(b[2])})"
    if k == "cmp":
        return f"(BCmp {gnat(b[1])} {b[2]} {gnat(b[3])})"
    if k == "ineq":
        return f"(BIneq {gnat(b[1])} {b[2]} {gnat(b[3])})"
    if k == "sum":
        return f"(BSum {glist([gnat(i) for i in b[1]])})"
    raise ValueError(k)


def zero_consts(snaps, kinds):
    """Ineq.lhs.c is reset to 0 by the constructor (part of the compared state)."""
    return [s["lhs"]["c"] for s, k in zip(snaps, kinds) if k == "ineq"]


# --------------------------------------------------------------------------
# direct meaning (plain integer arithmetic on how each object was built)
# --------------------------------------------------------------------------
CMPF = {"GE": lambda l, r: l >= r, "LE": lambda l, r: l <= r, "GT": lambda l, r: l > r, "LT": lambda l, r: l < r,
        "EQ": lambda l, r: l == r, "EQ2": lambda l, r: l == r}


def direct(binds, a):
    """Meaning of every binding under assignment a: an int (arithmetic objects), a bool (inequalities) or None."""
    m = []
    for b in binds:
        k = b[0]
        if k == "int":
            m.append(b[1])
        elif k == "str":
            m.append(1 if a[b[1]] else 0)
        elif k == "lit":
            m.append(1 if a[b[1]] == b[2] else 0)
        elif k == "newvar":
            m.append(1 if a[b[1]] else 0)
        elif k == "exprc":
            m.append(b[1])
        elif k == "not":
            m.append(1 - m[b[1]])
        elif k == "neg":
            m.append(-m[b[1]])
        elif k == "times":
            m.append(m[b[1]] * b[2])
        elif k == "copy":
            m.append(m[b[1]])
        elif k == "add":
            m.append(m[b[1]] + m[b[2]])
        elif k == "sub":
            m.append(m[b[1]] - m[b[2]])
        elif k in ("cmp", "ineq"):
            m.append(bool(CMPF[b[2]](m[b[1]], m[b[3]])))
        elif k == "sum":
            m.append(sum(m[i] for i in b[1]))
        else:
            m.append(None)
    return m


def names_of(binds):
    return sorted({b[1] for b in binds if b[0] in ("str", "lit", "newvar")})


def assignments(names, seed, limit=6, samples=40):
    if len(names) <= limit:
        return [dict(zip(names, bits)) for bits in itertools.product([False, True], repeat=len(names))]
    r = random.Random(seed)
    out = [dict.fromkeys(names, False), dict.fromkeys(names, True)]
    for _ in range(samples):
        p = r.choice([0.1, 0.3, 0.5, 0.5, 0.7, 0.9])
        out.append({v: r.random() < p for v in names})
    return out


def ev_snap(s, a):
    return s["c"] + sum(x[3] * (1 if a[x[1]] == x[2] else 0) for x in s["t"])


def nf_problem(s):
    names = [x[1] for x in s["t"]]
    if len(set(names)) != len(names):
        return "the same variable occurs twice in the normal form"
    if any(not isinstance(x[3], int) or isinstance(x[3], bool) or x[3] <= 0 for x in s["t"]):
        return "zero or negative coefficient in the normal form"
    if any(x[0] != x[1] for x in s["t"]):
        return "term stored under another variable's key"
    return None


def describe(binds, i):
    b = binds[i]
    return f"x{i} = {b[0]}({', '.join(('x' + str(v)) if n in _REFPOS.get(b[0], ()) else str(v) for n, v in enumerate(b[1:]))})"


_REFPOS = {"not": (0,), "neg": (0,), "times": (0,), "copy": (0,), "obs": (0,), "add": (0, 1), "sub": (0, 1),
           "cmp": (0, 2), "ineq": (0, 2)}


def end_oracle(binds, snaps, kinds, assigns, skip=()):
    """The C16 property on the objects as they are at the END of the history: every Literal / Term / Expr evaluates
    to the direct integer value of how it was built, normal forms are normal, every Ineq holds iff the direct
    comparison holds."""
    offset = 0
    for i, (s, k) in enumerate(zip(snaps, kinds)):
        if i < offset or i in skip:
            continue
        if k == "expr":
            p = nf_problem(s)
            if p:
                return f"{describe(binds, i - offset)}: {p}"
        if k == "ineq":
            p = nf_problem(s["lhs"])
            if p:
                return f"{describe(binds, i - offset)}: inequality: {p}"
            if s["op"] not in (">=", ">", "="):
                return f"{describe(binds, i - offset)}: inequality operator {s['op']} not normalised"
    for a in assigns:
        m = direct(binds, a)
        for i, (s, k) in enumerate(zip(snaps, kinds)):
            if i < offset or i in skip:
                continue
            want = m[i]
            if k == "lit":
                got = 1 if a[s[0]] == s[1] else 0
            elif k == "term":
                got = s[2] * (1 if a[s[0]] == s[1] else 0)
            elif k == "expr":
                got = ev_snap(s, a)
            elif k == "ineq":
                v = ev_snap(s["lhs"], a)
                got = {">=": v >= s["rhs"], ">": v > s["rhs"], "=": v == s["rhs"]}[s["op"]]
            else:
                continue
            if got != want:
                on = {v: x for v, x in a.items()} if len(a) <= 8 else "{" + ", ".join(v for v, x in a.items() if x) + " true, rest false}"
                if k == "ineq":
                    return (f"{describe(binds, i - offset)}: at the end of the history the inequality holds={got} but the "
                            f"direct comparison gives {want} under {on}")
                return (f"{describe(binds, i - offset)}: at the end of the history the object evaluates to {got} but its "
                        f"construction means {want} under {on}")
    return None


# --------------------------------------------------------------------------
# shrinking of a list of steps with references (bindings, and C07's posts)
# --------------------------------------------------------------------------
def shrink_steps(steps, refs_of, remap_of, base=0, simpler=None):
    """Candidates: drop an unreferenced step (renumbering the later references), simplify one step."""
    n = len(steps)
    used = set()
    for s in steps:
        used.update(refs_of(s))
    for k in reversed(range(n)):
        if base + k in used:
            continue
        rest = steps[:k] + steps[k + 1:]
        yield [remap_of(s, lambda i: i - 1 if i > base + k else i) for s in rest]
    if simpler:
        for k in range(n):
            for s in simpler(steps[k]):
                yield steps[:k] + [s] + steps[k + 1:]


def simpler_bind(b):
    k = b[0]
    if k == "int" and b[1] not in (0, 1):
        yield ["int", 1]
        yield ["int", 0]
    if k == "exprc" and b[1] != 0:
        yield ["exprc", 0]
    if k == "times" and b[2] not in (1, 2, -1):
        yield ["times", b[1], 2 if b[2] > 0 else -1]
    if k in ("add", "sub") and len(b) > 3:
        yield b[:3]
    if k == "sum" and b[1]:
        for i in range(len(b[1])):
            yield ["sum", b[1][:i] + b[1][i + 1:]]
    if k == "copy":
        pass
