"""C14 - spectral placement (tools/spectral/spectral_algorithm.py: normalize, orthogonalize,
calculate_centroids, abs_norm_dot_product, wirelength, spectral_layout_die; tools/spectral/spectral.py:
Spectral.spectral_layout; frame/netlist/module.py: Module.recenter_rectangles)."""
import math
import os
import random
from fractions import Fraction as F

from harness import core, fr
from harness.core import gq, gbool, glist, gopt, gnat, gstr

HEADER = """From FrameModel Require Import Num.QcTac Geometry.Rect Cases.Cmp Spectral.Normalize Spectral.Iterate Cases.CmpC14
  Cases.CmpC14Iter.
Open Scope Qc_scope."""

ASSUMPTIONS = [
    "the theorems are about the logical shell for ARBITRARY iteration vectors: the random start, orthogonalize + "
    "calculate_centroids (+ the averaging move), the number of iterations and sqrt(area/pi) are Section variables; "
    "convergence of the eigen-iteration is not claimed",
    "the model's normalize is the function as repaired by fixes/C14-normalize-small.diff (scale, then keep every movable "
    "coordinate within its span); on a tree without the repair the kernel cases with entries <= 10e-10 and the corpus "
    "netlist C14/f16-init-symmetric fail (finding F16: theorem C14_normalize_orig_refuted)",
    "driver correspondence: normalize is wrapped from outside; the model's driver is replayed with the recorded inputs of "
    "the first normalize call, the first two iterations and the LAST iteration of every dimension (one dimension "
    "regularly runs the full 10000 iterations; the iterations in between are checked call by call against the model's "
    "normalize on a sample, and all of them by the Python-side monitor of the span bound)",
    "exact rationals in the model; kernels compared within a few roundings (dyadic inputs), the driver and the layouts "
    "within 1e-9 * max(W, H)",
    "oracle tolerances: disc containment within 4 ulp * max(W, H) for modules with a centre and 16 ulp * max(W, H) for "
    "hard modules (position = area-weighted centre of the returned rectangles, recomputed exactly); fixed terminals "
    "keep their centre within 4 ulp (the (c - size/2) + size/2 round trip)",
    "runs in which the implementation raises (assert dotprod < 10e-12 inside orthogonalize, empty minimum, division by "
    "zero) do not return a layout and are outside the property; they are counted in the evidence",
    "movable terminals are not generated: recenter_rectangles divides by the (zero) rectangle area of a terminal",
    "several calls on one Spectral object: the model's object state is what __init__ stores once (graph, radii, fixed flags, "
    "the centre matrix) plus the modules; the model's object is built by the model's constructor (spectral_new) from the INPUT "
    "of the real constructor - the modules as the plain Netlist class reads the same text before any Spectral object exists, "
    "the nets as the harness wrote them (names in the order listed, repeated names kept, weight) - its graph is the model's "
    "clique graph of those nets (compared with the observed adjacency lists as a weighted graph: total weight between every "
    "two nodes within 16 roundings; the order inside an adjacency list is not compared), and it then runs on "
    "ITS OWN state from call to call (only the iteration vectors of each call are taken from the record). The centre matrix "
    "is faithful to the code: a call with trials > 0 wipes the movable entries for good, init mode reads the matrix as "
    "stored at construction (not the modules' present centres) - neither touches the property",
    "a history ends at the first call that raises; a call that raised inside the abstracted eigen-iteration is not replayed",
    "recenter kernel (kind rc): a distance epsilon is always defined when recenter_rectangles runs (given, or the one a "
    "Netlist holding the module derives) because the method never runs outside a netlist in FRAME; an axis is compared "
    "exactly when every operation of the reference computation (w*h, sums left to right, one division, centre - quotient, "
    "coordinate + increment) is exact in binary64 on that history (decided on the inputs alone), else within 16 roundings "
    "at magnitude 64; the kernel oracle accepts a position within max(64e-9, 2 * distance epsilon) of the centre",
    "shared Point objects (a centre shared by a module and its square) are not generated: create_square never runs for a "
    "movable hard module with rectangles, and the netlist reader gives every module its own centre Point",
    "the oracle judges the first call on an object against the input of its constructor BY VALUE (nets = what the caller "
    "wrote; areas, flags, rectangles = the plain Netlist reading of the same text), never against a snapshot of the object; "
    "the argument itself (file, open handle, YAML tree) and the die Shape must still mean the same netlist / die afterwards "
    "(a tree is compared by re-reading it with the plain Netlist class, not by representation)",
    "inside the loop of spectral_layout_die: for the iterations looked into (case field look = first / last iterations, "
    "largest graph, trials; all structured cases and every 8th (thorough: 3rd) random one) the row handed to normalize must "
    "be the model's iter_vec of the previous normalize output within 1e-9 * max(1, |row|), either path being accepted when "
    "the spread of the new row is within a factor 2 of epsilon; the convergence test must agree with the model's except "
    "within epsilon/1000 of a bound or under 30-fold cancellation; a row that vanishes exactly under orthogonalisation is "
    "not compared; the number of iterations a trial reports must be the number of normalize calls minus one",
    "nets that list a module twice are inside the quantifier (the reader accepts them; 'every module is on some net' holds)",
    "fixed modules and fixed terminals are generated on the four edges of the die, at its corners and beyond the right / top "
    "edge (by one binary64 step up to 1000 dies): 'discs fit in the die' is read as a condition on the MOVABLE modules (a "
    "fixed module is not placed), 'leaves fixed modules where they were' has no condition on where they are; the oracle "
    "still skips a netlist in which the disc of a fixed module's area is larger than the die. A fixed centre with a negative "
    "coordinate is rejected by the code (`coord < 0` means unknown: assert not fixed): such a run raises and is outside the "
    "property, the model must reject it as well",
    "kind cli (tools.spectral.spectral.main) is observed through the files it reads and writes and checked by the direct "
    "oracle only; module and net order of the output file are not compared",
]

THR = 10e-10
SAMPLE_ALL = True        # how many of the recorded normalize calls are checked one by one (set per tier in run)
ATOL = 10e-12
# case["look"] = (head, tail, nmax, ntr): the first `head` and the last `tail` iterations of every dimension are compared
# step by step with the model, in graphs of at most `nmax` nodes, in the first `ntr` trials of a call (exact rationals
# of 500 bits are slow under vm_compute); set per case in run, (1, 1, 8, 1) for corpus and replayed cases
ITER_LIMIT = 10000       # "num_iter < 10000"
TINY = [1e-9, 2e-9, 5e-10, 1.5e-9, 1e-12, 3e-9, 1e-10, 9.999e-10, math.nextafter(1e-9, 0.0), math.nextafter(1e-9, 1.0), 1e-9]


# ================================================================ generators
def dy(rng, lo, hi, den):
    return F(rng.randrange(int(lo * den), int(hi * den) + 1), den)


def gen_normalize(rng):
    n = rng.randrange(1, 7)
    style = rng.choice(["mixed", "mixed", "mixed", "tiny", "f16", "allsmall"])
    xs, spans, fx = [], [], []
    for i in range(n):
        r = rng.random()
        if style == "tiny" or (style == "mixed" and r < 0.2):
            x = rng.choice(TINY) * rng.choice([1, -1])
        elif style == "f16":
            x = rng.choice(TINY) * rng.choice([1, -1]) if r < 0.8 else 0.0
        elif style == "allsmall":
            x = rng.choice([1e-9, 5e-10, 0.0, 1e-12]) * rng.choice([1, -1])
        elif r < 0.3:
            x = F(0)
        else:
            x = dy(rng, -8, 8, 8)
        xs.append(x)
        spans.append(rng.choice([dy(rng, 0, 16, 4), dy(rng, 0, 2, 16), F(0), F(1, 10), F(5), F(10)]))
        fx.append(rng.random() < 0.25)
    return {"kind": "normalize", "xs": xs, "spans": spans, "fx": fx}


def gen_ortho_bound(rng):
    """the normalised dot product after the step is exactly the assertion bound 10e-12 (the assertion is `<`), one
    unit below it, one unit above it: a movable node is orthogonalised to 0, a fixed node with a mass keeps
    cd = 2^q against ck = p + d, where 10e-12 = p / 2^q as a binary64 number; every operation is exact"""
    atol = core.frac(ATOL)
    p, b = atol.numerator, atol.denominator
    a, m0 = dy(rng, -8, 8, 4), dy(rng, 1, 8, 4)
    d = rng.choice([-1, 0, 0, 1])
    ck, cd, mass, fx = [F(1), F(p + d)], [a, F(b)], [m0, F(1)], [False, True]
    if rng.random() < 0.5:                       # a second movable node at the origin (it adds nothing to either sum)
        ck, cd, mass, fx = [F(1), F(0), F(p + d)], [a, F(0), F(b)], [m0, dy(rng, 1, 8, 4), F(1)], [False, False, True]
    return {"kind": "ortho", "coord": [ck, cd], "mass": mass, "dim": 1, "fx": fx, "style": "bound"}


def gen_ortho(rng):
    if rng.random() < 0.06:
        return gen_ortho_bound(rng)
    n = rng.randrange(2, 7)
    dim = rng.choice([1, 1, 2])
    rows = []
    for d in range(dim + 1 + rng.choice([0, 0, 1])):
        if d == 0 and rng.random() < 0.7:
            rows.append([F(1)] * n)
        else:
            rows.append([dy(rng, -8, 8, 4) for _ in range(n)])
    fx = [rng.random() < 0.25 for _ in range(n)]
    if rng.random() < 0.03:
        fx = [True] * n                    # nothing to orthogonalise: 0.0 / 0.0
    zero_fixed = rng.random() < 0.8
    mass = [F(0) if (f and zero_fixed) else dy(rng, 0, 8, 4) if rng.random() < 0.9 else F(0) for f in fx]
    if rng.random() < 0.05:
        rows[dim] = list(rows[0])          # parallel rows: the result is the zero vector
    return {"kind": "ortho", "coord": rows, "mass": mass, "dim": dim, "fx": fx}


def gen_graph(rng, n, den=4):
    """symmetric adjacency lists with dyadic weights, connected through a random spanning tree"""
    adj = [[] for _ in range(n)]
    order = list(range(n))
    rng.shuffle(order)
    edges = [(order[i], order[rng.randrange(0, i)]) for i in range(1, n)]
    for _ in range(rng.randrange(0, n + 1)):
        a, b = rng.sample(range(n), 2) if n >= 2 else (0, 0)
        if a != b:
            edges.append((a, b))
    for a, b in edges:
        w = dy(rng, 1, 16, den)
        adj[a].append([b, w])
        adj[b].append([a, w])
    return adj


def gen_centroids(rng):
    n = rng.randrange(2, 7)
    adj = gen_graph(rng, n)
    if rng.random() < 0.15:
        adj[rng.randrange(n)] = []
    deg = [sum((w for _, w in es), F(0)) for es in adj]
    if rng.random() < 0.15:
        deg[rng.randrange(n)] = dy(rng, 1, 8, 4)
    return {"kind": "centroids", "adj": adj, "coord": [dy(rng, -8, 8, 8) for _ in range(n)], "deg": deg}


def gen_dot(rng):
    n = rng.randrange(1, 7)
    w = [dy(rng, 0, 8, 4) for _ in range(n)]
    if rng.random() < 0.1:
        w = [F(0)] * n
    return {"kind": "dot", "v1": [dy(rng, -8, 8, 8) for _ in range(n)], "v2": [dy(rng, -8, 8, 8) for _ in range(n)], "w": w}


def gen_wl(rng):
    n = rng.randrange(2, 7)
    return {"kind": "wl", "adj": gen_graph(rng, n), "coord": [[dy(rng, -8, 8, 8) for _ in range(n)] for _ in range(2)]}


def gen_die(rng):
    n = rng.randrange(4, 8)
    W, H = dy(rng, 2, 24, 4), dy(rng, 2, 24, 4)
    rmax = float(min(W, H)) / 2
    mass = [math.pi * (rng.uniform(0.05, 0.85) * rmax) ** 2 for _ in range(n)]
    fx = [rng.random() < 0.2 for _ in range(n)]
    if sum(1 for f in fx if not f) < 3:
        fx = [False] * n
    mode = rng.choice(["random", "init", "mixed"])
    ini = [[], []]
    for i in range(n):
        known = fx[i] or mode == "init" or (mode == "mixed" and rng.random() < 0.5)
        ini[0].append(dy(rng, 0, W, 8) if known else F(-1))
        ini[1].append(dy(rng, 0, H, 8) if known else F(-1))
        if known and rng.random() < 0.12:
            # `coord < 0` decides "unknown" (a fixed node must be known); size/2 becomes the coordinate 0, which is
            # below the 10e-10 threshold of normalize
            d = rng.randrange(2)
            ini[d][-1] = rng.choice([F(0), F(0), (W, H)[d] / 2, (W, H)[d], F(-1, 8), F(-1, 2 ** 30)])
    return {"kind": "die", "adj": gen_graph(rng, n), "mass": mass, "W": W, "H": H, "ini": ini, "fx": fx,
            "seed": rng.randrange(0, 1000)}


def gen_layout(rng, nmov=None):
    decimal = rng.random() < 0.25
    if decimal:
        W, H = F(rng.randrange(20, 200), 10), F(rng.randrange(20, 200), 10)
    else:
        W, H = dy(rng, 2, 32, 4), dy(rng, 2, 32, 4)
    if rng.random() < 0.15:
        H = W
    fw, fh = float(W), float(H)
    rmax = min(fw, fh) / 2
    nf = rng.choice([0, 0, 1, 1, 2, 3, 5])
    nmov = nmov or rng.choice([4, 4, 5, 6, 7])
    mods = []
    big = rng.random() < 0.06

    def hard_rects():
        # a trunk and up to two branches, dyadic, total area well below the largest disc
        side = max(F(1, 4), F(int(rmax * rng.uniform(0.2, 0.9) * 4), 4))
        w, h = side, max(F(1, 4), side / rng.choice([1, 2, 4]))
        cx, cy = dy(rng, 0, W, 8), dy(rng, 0, H, 8)
        rs = [[cx, cy, w, h]]
        k = rng.choice([0, 0, 1, 2])
        if k >= 1:
            rs.append([cx + w / 2 + w / 8, cy, w / 4, h / 2])            # east branch
        if k >= 2:
            rs.append([cx, cy + h / 2 + h / 8, w / 2, h / 4])            # north branch
        return rs

    same_frac = rng.uniform(0.1, 0.6) if rng.random() < 0.1 else None     # equal areas: equal spans, ties in min()
    for i in range(nmov):
        if rng.random() < 0.3:
            rs = hard_rects()
            while sum(float(r[2] * r[3]) for r in rs) > math.pi * rmax * rmax * 0.95:
                rs = [[r[0], r[1], r[2] / 2, r[3] / 2] for r in rs[:1]]
            mods.append({"name": f"M{i}", "kind": "hard", "rects": rs})
        else:
            frac = rng.uniform(0.03, 0.9)
            if same_frac:
                frac = same_frac
            if big and i == 0:
                frac = 1 - rng.choice([1e-10, 3e-10, 1e-12, 1e-8, 0.0])
            a = math.pi * (frac * rmax) ** 2
            if decimal and rng.random() < 0.5:
                a = max(0.1, round(a, 1))
                if math.sqrt(a / math.pi) > rmax:
                    a = 0.1
            m = {"name": f"M{i}", "kind": "soft", "area": a}
            if rng.random() < 0.3:
                # a soft module that already carries a (stale, smaller) rectangle: its disc is still that of its area
                sd = math.sqrt(a) / rng.choice([2, 3, 4])
                m["rects"] = [[float(W) / 2, float(H) / 2, sd, sd]]
            if nf == 0 or rng.random() < 0.5:
                m["center"] = [rng.uniform(0, fw), rng.uniform(0, fh)] if decimal or rng.random() < 0.3 else \
                    [dy(rng, 0, W, 8), dy(rng, 0, H, 8)]
                if rng.random() < 0.08:
                    # `coord < 0` decides "unknown": exactly 0 (on the die's edge, known), just below 0, -1
                    m["center"][rng.randrange(2)] = rng.choice([F(0), F(0), F(-1, 8), -1e-9, F(-1)])
            mods.append(m)
    for i in range(rng.choice([0, 0, 1, 2])):
        cw, ch = W / 4, H / 4
        cx, cy = cw * rng.randrange(4) + cw / 2, ch * rng.randrange(4) + ch / 2
        mods.append({"name": f"F{i}", "kind": "fixed", "rects": [[cx, cy, cw / 2, ch / 2]] +
                     ([[cx + cw / 4 + cw / 16, cy, cw / 8, ch / 4]] if rng.random() < 0.4 else [])})
    for i in range(rng.choice([0, 0, 1, 2])):
        c = [rng.choice([F(0), W, dy(rng, 0, W, 8)]), rng.choice([F(0), H, dy(rng, 0, H, 8)])]
        mods.append({"name": f"T{i}", "kind": "termfixed", "center": c})
    rng.shuffle(mods)
    n = len(mods)
    order = list(range(n))
    rng.shuffle(order)
    nets = []
    for i in range(1, n):
        nets.append({"mods": [mods[order[i]]["name"], mods[order[rng.randrange(0, i)]]["name"]],
                     "w": float(rng.choice([1, 1, 2, 0.5, 3]))})
    for _ in range(rng.randrange(0, 4)):
        ar = min(n, rng.choice([2, 3, 3, 4, 5]))
        nets.append({"mods": [mods[i]["name"] for i in rng.sample(range(n), ar)], "w": float(rng.choice([1, 2, 0.5, 2.5]))})
    if 8 <= n <= 20 and rng.random() < 0.5:
        nets.append({"mods": [m["name"] for m in mods], "w": 1.0})          # one net through every module
    rng.shuffle(nets)
    return {"kind": "layout", "W": W, "H": H, "mods": mods, "nets": nets, "nf": nf, "seed": rng.randrange(0, 10000)}


# ---------------------------------------------------------------- structured graphs, starts and masses
# The deterministic init mode (0 trials) starts from the centres it is given: on a bipartite graph a start that takes
# one value per side is sent to a single point by the centroid step ("all nodes ended in the same place"), all-equal
# or centred starts vanish under orthogonalisation, a start that already is an eigenvector converges at once.
STRUCT_KINDS = ["ring_even", "ring_even", "ring_even", "kbip", "kbip", "star", "star", "grid", "grid", "path", "tree",
                "cube", "ring_odd", "complete", "wheel"]


def two_colouring(n, edges):
    col, adjl = [None] * n, [[] for _ in range(n)]
    for a, b in edges:
        adjl[a].append(b)
        adjl[b].append(a)
    for r in range(n):
        if col[r] is None:
            col[r], todo = 0, [r]
            while todo:
                a = todo.pop()
                for b in adjl[a]:
                    if col[b] is None:
                        col[b] = 1 - col[a]
                        todo.append(b)
                    elif col[b] == col[a]:
                        return None
    return col


def struct_graph(rng, kind=None, big=False):
    """(kind, number of nodes, edges, side of every node when the graph is bipartite)"""
    kind = kind or rng.choice(STRUCT_KINDS)
    if kind == "ring_even":
        n = rng.choice([4, 4, 4, 6, 8] + ([10, 16] if big else []))
        edges = [(i, (i + 1) % n) for i in range(n)]
    elif kind == "ring_odd":
        n = rng.choice([5, 7])
        edges = [(i, (i + 1) % n) for i in range(n)]
    elif kind == "path":
        n = rng.choice([4, 5, 6])
        edges = [(i, i + 1) for i in range(n - 1)]
    elif kind == "star":
        n = rng.choice([4, 5, 6, 7] + ([9, 17] if big else []))
        edges = [(0, i) for i in range(1, n)]
    elif kind == "kbip":
        a = rng.choice([1, 2, 2, 3])
        b = rng.choice([x for x in (2, 3, 4, 5) if 4 <= a + x <= 7])
        n = a + b
        edges = [(i, a + j) for i in range(a) for j in range(b)]
    elif kind == "grid":
        r, c = rng.choice([(2, 2), (2, 3), (2, 4), (3, 3)] + ([(4, 4)] if big else []))
        n = r * c
        edges = [(i * c + j, i * c + j + 1) for i in range(r) for j in range(c - 1)] + \
                [(i * c + j, (i + 1) * c + j) for i in range(r - 1) for j in range(c)]
    elif kind == "cube":
        n = 8
        edges = [(i, i ^ b) for i in range(8) for b in (1, 2, 4) if i < i ^ b]
    elif kind == "complete":
        n = rng.choice([4, 5])
        edges = [(i, j) for i in range(n) for j in range(i + 1, n)]
    elif kind == "wheel":
        n = rng.choice([5, 6, 7])
        edges = [(0, i) for i in range(1, n)] + [(i, i % (n - 1) + 1) for i in range(1, n)]
    else:       # a random tree (always bipartite)
        n = rng.choice([4, 5, 6, 7])
        edges = [(i, rng.randrange(0, i)) for i in range(1, n)]
    if rng.random() < 0.3:          # the same graph with its nodes numbered in another order
        perm = list(range(n))
        rng.shuffle(perm)
        edges = [(perm[a], perm[b]) for a, b in edges]
    return kind, n, edges, two_colouring(n, edges)


def struct_masses(rng, n, sides, top):
    """dyadic masses in (0, top]: equal, the two sides of the graph in balance (same total), one big, random"""
    top = max(F(1, 4), F(int(top * 4), 4))
    style = rng.choice(["equal", "balanced", "balanced", "onebig", "random"])
    col = sides if sides is not None else [i % 2 for i in range(n)]
    if style == "equal":
        return style, [dy(rng, F(1, 4), top, 4)] * n
    if style == "balanced":
        # both sides sum to `tot`: every node of a side gets a share k/64 of it (the demo: 20 + 20 = 39.9 + 0.1)
        ms = [None] * n
        tot = dy(rng, F(1, 2), top, 4)
        for side in (0, 1):
            idx = [i for i in range(n) if col[i] == side]
            if not idx:
                continue
            cuts = sorted(rng.randrange(1, 64) for _ in range(len(idx) - 1))
            if rng.random() < 0.3 and len(idx) >= 2:
                cuts = [1] + cuts[1:]                  # a very small module beside a very large one
            bounds = [0] + cuts + [64]
            for i, lo, hi in zip(idx, bounds, bounds[1:]):
                ms[i] = tot * F(max(hi - lo, 0), 64)
        ms = [m if m and m > 0 else tot * F(1, 64) for m in ms]
        return style, ms
    if style == "onebig":
        ms = [dy(rng, F(1, 4), max(F(1, 4), top / 16), 8) for _ in range(n)]
        ms[rng.randrange(n)] = top
        return style, ms
    return style, [dy(rng, F(1, 4), top, 4) for _ in range(n)]


START_KINDS = ["mirror"] * 12 + ["eigen"] * 3 + ["symmetric", "symmetric", "collinear", "collinear", "three", "three", "random",
                                                 "random", "equal", "centre"]


def struct_start(rng, n, sides, S, kind=None):
    """given coordinates in [0, S] for every node: one value per side of the graph (a mirror placement), all equal, all
    at the centre of the die, symmetric about a point, equally spaced, three values, random"""
    kind = kind or rng.choice(START_KINDS)
    col = sides if sides is not None else [i % 2 for i in range(n)]
    if kind == "mirror":
        p, q = dy(rng, 0, S, 8), dy(rng, 0, S, 8)
        if rng.random() < 0.25:
            q = S - p                                # mirrored about the centre of the die
        return kind, [p if col[i] == 0 else q for i in range(n)]
    if kind == "equal":
        return kind, [dy(rng, 0, S, 8)] * n
    if kind == "centre":
        return kind, [S / 2] * n
    if kind == "symmetric":
        m = dy(rng, S / 4, 3 * S / 4, 8)
        ds = [dy(rng, 0, min(m, S - m), 8) for _ in range((n + 1) // 2)]
        xs = [m + ds[i // 2] * (1 if i % 2 == 0 else -1) for i in range(n)]
        return kind, xs
    if kind == "collinear":
        step = S / (4 * n)
        a = dy(rng, 0, S / 2, 8)
        return kind, [a + i * step for i in range(n)]
    if kind == "three":
        vals = [dy(rng, 0, S, 8) for _ in range(3)]
        return kind, [vals[(col[i] + (i % 3 == 0)) % 3] for i in range(n)]
    if kind == "eigen":
        # +1 / -1 by parity of the node number about an off-centre point: an eigenvector of even rings and hypercubes
        m, d = dy(rng, S / 4, 3 * S / 4, 8), dy(rng, 0, S / 4, 8)
        return kind, [m + d * (1 if i % 2 == 0 else -1) for i in range(n)]
    return kind, [dy(rng, 0, S, 8) for _ in range(n)]


def gen_die_struct(rng):
    """spectral_layout_die on a structured graph from a structured, fully given start"""
    gk, n, edges, sides = struct_graph(rng)
    W, H = dy(rng, 2, 24, 4), dy(rng, 2, 24, 4)
    if rng.random() < 0.3:
        H = W
    rmax = min(W, H) / 2
    mstyle, mass = struct_masses(rng, n, sides, F(314, 100) * rmax * rmax * F(8, 10))
    w = rng.choice([F(1), F(1), F(2), F(1, 2)])
    adj = [[] for _ in range(n)]
    for a, b in edges:
        we = w if rng.random() < 0.85 else dy(rng, 1, 8, 4)
        adj[a].append([b, we])
        adj[b].append([a, we])
    sx, ix = struct_start(rng, n, sides, W)
    sy, iy = struct_start(rng, n, sides, H, None if rng.random() < 0.35 else "random")
    fx = [False] * n
    if rng.random() < 0.15:
        fx[rng.randrange(n)] = True
    return {"kind": "die", "struct": f"{gk}/{sx}/{sy}/{mstyle}", "adj": adj, "mass": [float(m) for m in mass], "W": W, "H": H,
            "ini": [ix, iy], "fx": fx, "seed": rng.randrange(0, 1000)}


def gen_layout_struct(rng, big=False):
    """a netlist whose nets are the edges of a structured graph, soft (some hard) modules with given centres, placed
    in init mode (0 trials) most of the time"""
    gk, n, edges, sides = struct_graph(rng, big=big)
    W, H = dy(rng, 2, 32, 4), dy(rng, 2, 32, 4)
    if rng.random() < 0.4:
        H = W
    rmax = min(W, H) / 2
    mstyle, mass = struct_masses(rng, n, sides, F(314, 100) * rmax * rmax * F(85, 100))
    sx, ix = struct_start(rng, n, sides, W)
    sy, iy = struct_start(rng, n, sides, H, None if rng.random() < 0.35 else "random")
    if rng.random() < 0.3:
        (sx, ix), (sy, iy) = (sy, iy), (sx, ix)          # the structured start in y: orthogonalised against two rows
        ix, iy = [x * W / H for x in ix], [y * H / W for y in iy]
    mods = []
    for i in range(n):
        if rng.random() < 0.2:
            h = rng.choice([F(1), F(2), F(1, 2)])
            w = mass[i] / h
            if ix[i] - w / 2 >= 0 and iy[i] - h / 2 >= 0:
                mods.append({"name": f"M{i}", "kind": "hard", "rects": [[ix[i], iy[i], w, h]]})
                continue
        mods.append({"name": f"M{i}", "kind": "soft", "area": float(mass[i]), "center": [ix[i], iy[i]]})
    w = rng.choice([1.0, 1.0, 2.0, 0.5])
    nets = [{"mods": [f"M{a}", f"M{b}"], "w": w if rng.random() < 0.85 else float(rng.choice([1, 2, 3, 0.5]))} for a, b in edges]
    if rng.random() < 0.12:
        # a fixed terminal hanging on one node
        mods.append({"name": "T0", "kind": "termfixed", "center": [rng.choice([F(0), W, dy(rng, 0, W, 8)]), dy(rng, 0, H, 8)]})
        nets.append({"mods": ["T0", f"M{rng.randrange(n)}"], "w": 1.0})
    nf = rng.choice([0, 0, 0, 0, 1, 2])
    return {"kind": "layout", "struct": f"{gk}/{sx}/{sy}/{mstyle}", "W": W, "H": H, "mods": mods, "nets": nets, "nf": nf,
            "seed": rng.randrange(0, 10000)}


# ---------------------------------------------------------------- fixed modules / terminals on the edges and outside
# "leaves fixed modules where they were" has no condition on WHERE they are: pins are drawn on the boundary of the core or
# outside it.  "discs fit in the die" is about the movable modules (a fixed module is not placed), so a fixed module or
# fixed terminal on an edge, at a corner or beyond the right / top edge is inside the quantifier.  A fixed centre with a
# NEGATIVE coordinate is rejected by the unchanged code (`coord < 0` means "unknown": assert not fixed) - a run that raises
# is outside the property; a few are generated so that the model has to reject them as well.
FAR_CLASSES = ["in", "edge0", "edge1", "just", "little", "lot"]
FAR_PATTERNS = ["edges", "corners", "beyond", "beyond", "beyond", "diag", "mixed", "mixed", "seed"]
FAR_ORDER = ["seed", "edges", "beyond", "corners", "diag", "mixed", "beyond", "mixed", "beyond"]      # the layout stream


def far_coord(rng, S, cls):
    """one coordinate of a fixed centre in a die of size S in that axis"""
    S = F(S)
    if cls == "edge0":
        return F(0)
    if cls == "edge1":
        return S
    if cls == "just":        # beyond the edge by very little: one binary64 step, 2^-20, 1/8
        return rng.choice([core.frac(math.nextafter(float(S), math.inf)), core.frac(float(S)) + F(1, 2 ** 20), S + F(1, 8)])
    if cls == "little":      # the seed: 11.5 on a die of width 10
        return S + rng.choice([F(3, 2), F(1, 2), S / 8, S * F(15, 100), S / 2, F(2)])
    if cls == "lot":
        return rng.choice([S * 2, S * 5, S * 10, S * 100, S * 1000, S + 1000])
    if cls == "neg":         # rejected (AssertionError) by the unchanged code
        return rng.choice([F(-1, 8), F(-1), -S])
    return dy(rng, 0, S, 8)


def far_points(rng, W, H, pattern):
    """centres for the fixed modules of one netlist, as pairs of classes"""
    out = ["edge0", "edge1", "just", "little", "lot"]
    if pattern == "edges":       # one on each of the four edges
        pts = [("edge0", "in"), ("edge1", "in"), ("in", "edge0"), ("in", "edge1")]
    elif pattern == "corners":
        pts = [("edge0", "edge0"), ("edge1", "edge0"), ("edge0", "edge1"), ("edge1", "edge1")]
    elif pattern == "beyond":    # beyond ONE edge (right or top), by a little and by a lot
        pts = [(rng.choice(out[2:]), "in"), ("in", rng.choice(out[2:])), (rng.choice(out[2:]), rng.choice(["edge0", "edge1"])),
               (rng.choice(["edge0", "edge1"]), rng.choice(out[2:]))]
    elif pattern == "diag":      # beyond the top right corner / beyond one edge and on the other axis' far edge
        pts = [(rng.choice(out[2:]), rng.choice(out[2:])), ("lot", "just"), ("just", "lot"), ("little", "little")]
    elif pattern == "seed":      # PAD_E (11.5, 3) / PAD_N (4, 8) / PAD_W (0, 2) on 10 x 6
        pts = [("little", "in"), ("in", "little"), ("edge0", "in")]
    else:
        pts = [(rng.choice(FAR_CLASSES), rng.choice(FAR_CLASSES)) for _ in range(4)]
    if pattern != "seed":
        rng.shuffle(pts)
    return [(cx, cy, [far_coord(rng, W, cx), far_coord(rng, H, cy)]) for cx, cy in pts]


def far_fixed(rng, case, pattern=None, neg=False):
    """the same netlist with its fixed modules and fixed terminals put on the edges, at the corners and outside the die,
    and one to four more of them, each on a net of its own with a movable module"""
    pattern = pattern or rng.choice(FAR_PATTERNS)
    W, H = case["W"], case["H"]
    pts = far_points(rng, W, H, pattern)
    mods, nets = [dict(m) for m in case["mods"]], [dict(e, mods=list(e["mods"])) for e in case["nets"]]
    movable = [m["name"] for m in mods if m["kind"] in ("soft", "hard")]
    rmax = float(min(W, H)) / 2
    k = 0

    def rect_at(c):
        # a small rectangle CENTRED at the point (it straddles the edge it lies on; its lower left corner may be outside)
        w, h = max(F(1, 8), F(int(rmax * 4), 32)), max(F(1, 8), F(int(rmax * 4), 64))
        return [[c[0], c[1], w, h]] + ([[c[0] + w / 2 + w / 8, c[1], w / 4, h / 2]] if rng.random() < 0.3 else [])

    for m in mods:                       # the ones it already has
        if m["kind"] == "termfixed" and k < len(pts):
            m["center"] = list(pts[k][2])
            k += 1
        elif m["kind"] == "fixed" and k < len(pts) and rng.random() < 0.7:
            m["rects"] = rect_at(pts[k][2])
            k += 1
    want = rng.choice([1, 2, 2, 3, 4]) if pattern != "seed" else 3
    j = 0
    while k < len(pts) and j < want:
        if pattern != "seed" and rng.random() < 0.25:
            mods.append({"name": f"Q{j}", "kind": "fixed", "rects": rect_at(pts[k][2])})
        else:
            mods.append({"name": f"P{j}", "kind": "termfixed", "center": list(pts[k][2])})
        pins = [mods[-1]["name"], rng.choice(movable)]
        if rng.random() < 0.3:
            pins.append(rng.choice(movable))
        if rng.random() < 0.5:
            pins.reverse()
        nets.insert(rng.randrange(len(nets) + 1), {"mods": pins, "w": float(rng.choice([1, 1, 2, 0.5]))})
        k, j = k + 1, j + 1
    if neg:
        if not any(m["kind"] == "termfixed" for m in mods):       # only fixed modules were added: the last one becomes a pad
            q = mods[-1]
            mods[-1] = {"name": q["name"], "kind": "termfixed", "center": list(q["rects"][0][:2])}
        t = rng.choice([m for m in mods if m["kind"] == "termfixed"])
        t["center"][rng.randrange(2)] = far_coord(rng, W, "neg")
    return dict(case, mods=mods, nets=nets, far=pattern + ("/neg" if neg else ""))


def gen_die_far(rng, pattern=None):
    """spectral_layout_die with one to three fixed nodes on the edges, at the corners and beyond the right / top edge"""
    case = gen_die(rng)
    n = len(case["fx"])
    fx = [False] * n
    for i in rng.sample(range(n), rng.choice([1, 1, 2, 3]) if n >= 6 else 1):
        fx[i] = True
    pattern = pattern or rng.choice([p for p in FAR_PATTERNS if p != "seed"])
    pts = far_points(rng, case["W"], case["H"], pattern)
    ini = [list(case["ini"][0]), list(case["ini"][1])]
    k = 0
    for i in range(n):
        if fx[i]:
            ini[0][i], ini[1][i] = pts[k][2]
            k += 1
        elif case["fx"][i]:
            ini[0][i], ini[1][i] = F(-1), F(-1)
    return dict(case, fx=fx, ini=ini, far=pattern)


def repeat_pins(rng, case):
    """nets that list a module more than once (the reader accepts them; every listed pin is a pin), the same net twice"""
    nets = [dict(e, mods=list(e["mods"])) for e in case["nets"]]
    names = [m["name"] for m in case["mods"]]
    for _ in range(rng.choice([1, 1, 2])):
        how = rng.choice(["insert", "insert", "insert", "pair", "aba", "twice", "triple"])
        if how == "insert":                      # [a, d, e] -> [a, d, a, e]
            e = rng.choice(nets)
            e["mods"].insert(rng.randrange(1, len(e["mods"]) + 1), rng.choice(e["mods"]))
        elif how == "pair":                      # [a, a]
            a = rng.choice(names)
            nets.append({"mods": [a, a], "w": float(rng.choice([1, 2, 0.5]))})
        elif how == "aba":                       # [a, b, a]
            a, b = rng.sample(names, 2)
            nets.append({"mods": [a, b, a], "w": float(rng.choice([1, 3, 0.5]))})
        elif how == "triple":                    # [a, a, a, b]
            a, b = rng.sample(names, 2)
            nets.append({"mods": [a, a, a, b], "w": 1.0})
        else:                                    # the same net listed twice
            e = rng.choice(nets)
            nets.insert(rng.randrange(len(nets) + 1), dict(e, mods=list(e["mods"])))
    case["nets"] = nets
    case["pins"] = "repeated"
    return case


NAME_SETS = {
    "prefix": ["A", "A_0", "A_1", "A1", "A10", "A_io", "AA", "A_", "_A", "A0", "A_0_0", "A11", "a", "A_1_0", "A2", "Aa"],
    "words": ["no", "on", "null", "Y", "N", "yes", "True", "off", "n", "y", "NO", "Null", "false", "nan", "inf", "On"],
}


def decorate(rng, case):
    """the same netlist in another dress: names that are prefixes of each other / YAML words, the netlist handed over
    as a file, integral numbers written without a decimal point, rectangles listed with the trunk last"""
    style = rng.choice(["plain", "plain", "plain", "prefix", "words"])
    if style != "plain" and len(case["mods"]) <= len(NAME_SETS[style]):
        names = list(NAME_SETS[style])
        rng.shuffle(names)
        ren = {m["name"]: names[i] for i, m in enumerate(case["mods"])}
        case["mods"] = [dict(m, name=ren[m["name"]]) for m in case["mods"]]
        case["nets"] = [dict(e, mods=[ren[n] for n in e["mods"]]) for e in case["nets"]]
    case["names"] = style
    case["form"] = rng.choice(["text", "text", "file", "tree", "tree", "stream", "handle"])
    case["ints"] = rng.random() < 0.3
    for m in case["mods"]:
        if m["kind"] == "hard" and len(m["rects"]) > 1 and rng.random() < 0.3:
            m["rects"] = m["rects"][1:] + m["rects"][:1]
    return case


def radius_needed(case):
    rs = []
    for m in case["mods"]:
        a = float(m["area"]) if m["kind"] == "soft" else sum(float(r[2]) * float(r[3]) for r in m.get("rects", []))
        rs.append(math.sqrt(a / math.pi))
    return max(rs)


def fixed_extent(case):
    ex, ey = 0.0, 0.0
    for m in case["mods"]:
        if m["kind"] == "fixed":
            for r in m["rects"]:
                ex, ey = max(ex, float(r[0] + r[2] / 2)), max(ey, float(r[1] + r[3] / 2))
        elif m["kind"] == "termfixed":
            ex, ey = max(ex, float(m["center"][0])), max(ey, float(m["center"][1]))
    return ex, ey


def other_call(rng, case, init_ok=True):
    """another call on the same object: another die (every disc still fits, the fixed modules still inside),
    another trial count, another seed"""
    need = 2 * radius_needed(case) * (1 + 1e-9)
    ex, ey = fixed_extent(case)
    if case.get("far"):
        ex, ey = 0.0, 0.0                  # fixed modules may lie on the edges of the other die or outside it as well
    W, H = case["W"], case["H"]
    fs = [F(1), F(5, 4), F(3, 2), F(2), F(3, 4), F(1, 2), F(7, 8)]
    cw = [W * f for f in fs] + [H]
    ch = [H * f for f in fs] + [W]
    cw = [w for w in cw if float(w) >= max(need, ex)] or [W]
    ch = [h for h in ch if float(h) >= max(need, ey)] or [H]
    nf = rng.choice([1, 1, 2, 3, 0] if init_ok else [1, 1, 2, 3])
    return {"W": rng.choice(cw), "H": rng.choice(ch), "nf": nf, "seed": rng.randrange(0, 10000)}


COINCIDE = [("same", "edge0"), ("edge1", "same"), ("same", "edge1"), ("edge0", "same"), ("same", "same"),
            ("below+", "edge0"), ("edge1", "below-"), ("same", "orig"), ("orig", "same"), ("above+", "orig"),
            ("orig", "above-"), ("below-", "below+"), ("above+", "edge1")]


def gen_chain(rng, nmov=None, base=None):
    given = base is not None
    for _ in range(40):
        if given:
            break
        base = gen_layout(rng, nmov)
        if any(m["kind"] == "hard" for m in base["mods"]):
            break
    if not given and rng.random() < 0.25:
        repeat_pins(rng, base)
    decorate(rng, base)
    style = rng.choice(["coincide", "coincide", "coincide", "session", "session", "rebuild"])
    if given:
        style = rng.choice(["session", "session", "rebuild"])
    call0 = {"W": base["W"], "H": base["H"], "nf": base["nf"], "seed": base["seed"]}
    all_centres = all(m["kind"] != "soft" or "center" in m or m.get("rects") for m in base["mods"])
    if call0["nf"] == 0 and not all_centres:
        call0["nf"] = 1
    if style == "session":
        calls = [call0] + [other_call(rng, base, init_ok=rng.random() < 0.3) for _ in range(rng.choice([1, 2, 2, 3]))]
        if rng.random() < 0.3:
            calls[1] = dict(calls[0])              # the very same call again on the same object
        phases = [{"calls": calls}]
    else:
        if call0["nf"] == 0:
            call0["nf"] = rng.choice([1, 2, 3])    # the position does not depend on where the modules start
        hard = [m["name"] for m in base["mods"] if m["kind"] == "hard"]
        if style == "coincide":
            edit = {"hard": {n: list(rng.choice(COINCIDE)) for n in hard}}
            calls1 = [dict(call0)]
        else:
            edit = {"hard": {n: ["same", "same"] for n in hard}}
            calls1 = [rng.choice([dict(call0), dict(call0), dict(call0, nf=0), other_call(rng, base)])]
        if rng.random() < 0.25:
            calls1.append(other_call(rng, base, init_ok=False))
        phases = [{"calls": [call0]}, {"edit": edit, "calls": calls1}]
    out = {"kind": "chain", "style": style, "W": base["W"], "H": base["H"], "mods": base["mods"], "nets": base["nets"],
           "names": base["names"], "form": base["form"], "ints": base["ints"], "phases": phases}
    if base.get("struct"):
        out["struct"] = base["struct"]
    if base.get("far"):
        out["far"] = base["far"]
    return out


# ---------------------------------------------------------------- recenter_rectangles driven directly
def _rep(q):
    """is the rational q a binary64 number (normal range)?"""
    q = F(q)
    if q == 0:
        return True
    n, d = abs(q.numerator), q.denominator
    if d & (d - 1):
        return False
    n >>= (n & -n).bit_length() - 1
    return n.bit_length() <= 53 and d.bit_length() < 1000


def rc_shapes(rng, style):
    """rectangles [cx, cy, w, h] relative to (0, 0): a trunk and its branches, touching, not overlapping"""
    if style == "single":
        return [[F(0), F(0), dy(rng, F(1, 4), 6, 4), dy(rng, F(1, 4), 6, 4)]]
    if style == "pow2":          # total area a power of two: 4+1+3, 3+1, 2+2, 12+4
        return rng.choice([
            [[F(0), F(0), F(2), F(2)], [F(3, 2), F(1, 2), F(1), F(1)], [F(0), F(-7, 4), F(2), F(3, 2)]],
            [[F(0), F(0), F(3), F(1)], [F(2), F(0), F(1), F(1)]],
            [[F(0), F(0), F(2), F(1)], [F(0), F(3, 2), F(1), F(2)]],
            [[F(0), F(0), F(4), F(3)], [F(3), F(1, 2), F(2), F(2)]]])
    if style == "equal":         # 2 or 4 rectangles of the same area (the centre is the mean of the centres)
        w, h = dy(rng, F(1, 2), 3, 4), dy(rng, F(1, 2), 3, 4)
        rs = [[F(0), F(0), w, h], [w, F(0), w, h]]
        if rng.random() < 0.5:
            rs += [[F(0), h, w, h], [w, h, w, h]]
        return rs
    if style == "tshape":        # symmetric about the trunk's vertical axis, areas differ (x exact, y maybe not)
        w, h = dy(rng, 1, 4, 2), dy(rng, F(1, 2), 2, 4)
        bw, bh = w / rng.choice([2, 4]), dy(rng, F(1, 4), 2, 4)
        return [[F(0), F(0), w, h], [F(0), h / 2 + bh / 2, bw, bh]]
    if style == "lshape":        # different areas, total 5 or 9/2 or 13/4: the centre is not dyadic
        w = rng.choice([F(2), F(2), F(3, 2)])
        return [[F(0), F(0), w, w], [w / 2 + F(1, 2), F(0), F(1), rng.choice([F(1), F(1, 2)])]]
    if style == "many":          # a row of 9, 10, 11, 16, 17 or 33 equal rectangles on a wide trunk
        n = rng.choice([9, 10, 11, 16, 17, 33])
        return [[F(0), F(0), F(n), F(1)]] + [[F(i) - F(n - 1, 2), F(1), F(1, 2), F(1)] for i in range(n)]
    # "random": 1-4 arbitrary rectangles (may overlap: only used on a module built directly)
    return [[dy(rng, -4, 4, 8), dy(rng, -4, 4, 8), dy(rng, F(1, 4), 4, 4), dy(rng, F(1, 4), 4, 4)]
            for _ in range(rng.randrange(1, 5))]


def rc_centroid(rects):
    a = sum((r[2] * r[3] for r in rects), F(0))
    return (sum((r[0] * r[2] * r[3] for r in rects), F(0)) / a, sum((r[1] * r[2] * r[3] for r in rects), F(0)) / a)


def rc_eps_of(case_eps, rects):
    """the distance epsilon in force: given, or the one a Netlist derives (1e-12 * smallest dimension)"""
    if case_eps is not None:
        return F(case_eps)
    return core.frac(float(min(min(r[2], r[3]) for r in rects)) * 1e-12)


OFFS = ["zero", "zero", "below", "-below", "eps", "above", "-above", "grid", "far"]


def rc_offset(rng, cls, eps):
    k = 0
    while F(2) ** (k - 1) >= eps:       # 2^k: the largest power of two <= eps ... strictly below 2 eps
        k -= 1
    while F(2) ** (k + 1) <= eps:
        k += 1
    sgn = -1 if cls.startswith("-") else 1
    cls = cls.lstrip("-")
    if cls == "zero":
        return F(0)
    if cls == "below":
        return sgn * (F(2) ** (k - 2) if F(2) ** k == eps else F(2) ** (k - 1))
    if cls == "eps":                     # exactly the epsilon (ties of `abs(inc) < eps`)
        return sgn * F(eps) * rng.choice([1, -1])
    if cls == "above":
        return sgn * F(2) ** (k + 1 + rng.choice([0, 0, 3, 10]))
    if cls == "grid":
        return F(rng.choice([1, -1, 2, -3, 5, 8]), rng.choice([1, 2, 8, 64]))
    return dy(rng, -16, 16, 8)


def gen_rc(rng):
    route = rng.choice(["bare", "bare", "netlist"])
    style = rng.choice(["single", "pow2", "pow2", "equal", "equal", "tshape", "tshape", "lshape", "lshape", "many"] +
                       (["random", "random", "none"] if route == "bare" else []))
    ox, oy = dy(rng, 20, 40, 8), dy(rng, 20, 40, 8)
    rects = [] if style == "none" else [[r[0] + ox, r[1] + oy, r[2], r[3]] for r in rc_shapes(rng, style)]
    if style == "many" and rng.random() < 0.5:
        rects = rects[:1] + rects[:0:-1]          # branches listed right to left
    if route == "netlist" and len(rects) > 1 and rng.random() < 0.3:
        rects = rects[1:] + rects[:1]             # the trunk is not listed first
    eps = rng.choice([F(1, 2 ** 20), None, None]) if route == "bare" else rng.choice([None, None, F(1, 2 ** 20)])
    case = {"kind": "rc", "route": route, "style": style, "eps": eps, "rects": rects, "ops": []}
    if not rects:
        case["ops"] = [["set", dy(rng, 0, 16, 8), dy(rng, 0, 16, 8)], ["rec"]]
        return case
    e = rc_eps_of(eps, rects)
    gx, gy = rc_centroid(rects)
    if not (_rep(gx) and _rep(gy)):
        gx, gy = core.frac(float(gx)), core.frac(float(gy))

    def target(base, cx_cls, cy_cls):
        return [base[0] + rc_offset(rng, cx_cls, e), base[1] + rc_offset(rng, cy_cls, e)]
    cls = (rng.choice(OFFS), rng.choice(OFFS))
    if rng.random() < 0.5:                         # a coincidence in one axis only
        cls = rng.choice([("zero", "far"), ("far", "zero"), ("below", "far"), ("far", "-below"), ("zero", "above"),
                          ("above", "zero"), ("eps", "far"), ("far", "eps"), ("zero", "grid"), ("grid", "zero")])
    c1 = target((gx, gy), *cls)
    hist = rng.choice(["once", "once", "twice", "retarget", "mutate", "add", "put", "touch", "first"])
    ops = [["set", c1[0], c1[1]], ["rec"]]
    if hist == "twice":
        ops.append(["rec"])
    elif hist in ("retarget", "mutate"):
        cls2 = rng.choice([("zero", "far"), ("far", "zero"), ("zero", "zero"), ("below", "grid"), ("grid", "-below"), ("far", "far")])
        c2 = target(c1, *cls2)                     # relative to where the module now is
        ops += [["set" if hist == "retarget" else "mut", c2[0], c2[1]], ["rec"]]
    elif hist == "add":
        last = rects[-1]
        ops += [["touch"], ["add", [last[0] + rng.choice([F(8), F(-8)]), last[1] + F(8), dy(rng, F(1, 2), 2, 4), dy(rng, F(1, 2), 2, 4)]],
                ["rec"]]
    elif hist == "put":
        k = rng.randrange(len(rects))
        r = rects[k]
        ops += [["touch"], ["put", k, [r[0] + c1[0] - gx + dy(rng, -2, 2, 8), r[1] + c1[1] - gy, r[2] * rng.choice([1, 1, 2]), r[3]]],
                ["rec"]]
    elif hist == "touch":
        ops = [["touch"]] + ops + [["touch"], ["rec"]]
    elif hist == "first" and rng.random() < 0.5:
        ops = [["rec"]] + ops                      # before any centre was assigned
    case["ops"] = ops
    case["cls"] = list(cls)
    return case


# ================================================================ running the implementation
EXC = {"ValueError": "EmptyMin", "ZeroDivisionError": "ZeroDiv", "AssertionError": "AssertFail"}


def fl(v):
    return [float(x) for x in v]


def guarded(f):
    try:
        return {"ok": f()}
    except (ValueError, ZeroDivisionError, AssertionError) as e:
        return {"raised": EXC[type(e).__name__], "msg": str(e)[:200]}


def mk_adj(adj):
    from tools.spectral.spectral_types import AdjEdge
    return [[AdjEdge(int(n), float(w)) for n, w in es] for es in adj]


class Recorder:
    """wraps spectral_algorithm.normalize (and spectral_layout_die as seen by spectral.py) from outside"""

    def __init__(self):
        self.trials = []

    def __enter__(self):
        import tools.spectral.spectral_algorithm as SA
        import tools.spectral.spectral as SP
        self.SA, self.SP = SA, SP
        self.orig_norm, self.orig_die_sa, self.orig_die_sp = SA.normalize, SA.spectral_layout_die, SP.spectral_layout_die
        rec = self

        def norm(x, max_span, is_fixed, *more, **kw):
            before = list(x)
            t = rec.trials[-1]
            if not t["dims"] or t["dims"][-1]["id"] != id(max_span):
                t["dims"].append({"id": id(max_span), "spans": list(max_span), "fx": list(is_fixed), "calls": []})
            try:
                r = rec.orig_norm(x, max_span, is_fixed, *more, **kw)
            except (ValueError, ZeroDivisionError, AssertionError) as e:
                t["dims"][-1]["norm_raised"] = [before, EXC[type(e).__name__]]     # a call that did not return
                raise
            t["dims"][-1]["calls"].append((before, list(x)))
            return r

        def die(adj, mass, size, initial, fixed, *more, **kw):
            rec.trials.append({"dims": [], "ini": [list(r) for r in initial]})
            r = rec.orig_die_sa(adj, mass, size, initial, fixed, *more, **kw)
            rec.trials[-1]["ret"] = [list(r[0][0]), list(r[0][1])]
            rec.trials[-1]["wl"], rec.trials[-1]["iters"] = r[1], list(r[2])
            return r

        SA.normalize = norm
        SP.spectral_layout_die = die
        self.die = die
        return self

    def __exit__(self, *a):
        self.SA.normalize = self.orig_norm
        self.SP.spectral_layout_die = self.orig_die_sp
        return False


def summarise(trials, rng, look=None):
    """what is kept of the recorded calls: the replayed inputs, a sample for the kernel check, the monitor"""
    out, mon = [], {"calls": 0, "tiny_entries": 0, "bound_broken": 0, "worst_excess": 0.0}
    for t in trials:
        dims = []
        for d in t["dims"]:
            calls = d["calls"]
            for before, after in calls:
                mon["calls"] += 1
                for x, y, s, f in zip(before, after, d["spans"], d["fx"]):
                    if not f:
                        if x != 0 and abs(x) <= THR:
                            mon["tiny_entries"] += 1
                        if s >= 0 and abs(y) > s * (1 + 2 ** -50) + 5e-324:
                            mon["bound_broken"] += 1
                            mon["worst_excess"] = max(mon["worst_excess"], abs(y) - s)
            n = len(calls)
            idx = sorted(set(range(min(3, n))) | {n - 1}) if n else []
            if SAMPLE_ALL:
                sample = sorted(set(idx) | {rng.randrange(n) for _ in range(4)}) if n else []
            else:       # quick tier: the first, the last and two other calls
                sample = sorted({0, n - 1} | {rng.randrange(n) for _ in range(2)}) if n else []
            # iterations looked into: iteration k+1 turns the output of call k into the input / output of call k+1
            # (the first ITER_HEAD, the last two; all of a short run)
            m = n - 1
            head, tail, nmax, ntr = look or (1, 1, 8, 1)
            ks = list(range(m)) if m <= head + tail else sorted(set(range(head)) | set(range(m - tail, m)))
            if len(d["spans"]) > nmax or len(out) >= ntr:
                ks = []
            dims.append({"n": n, "spans": d["spans"], "fx": d["fx"], "replay": [calls[i][0] for i in idx],
                         "last_out": calls[-1][1] if n else None,
                         "sample": [[calls[i][0], calls[i][1]] for i in sample], "norm_raised": d.get("norm_raised"),
                         "steps": [{"k": k, "c": calls[k][1], "v": calls[k + 1][0], "c2": calls[k + 1][1],
                                    "last": k == m - 1} for k in ks]})
        out.append({"dims": dims, "ret": t.get("ret"), "wl": t.get("wl"), "iters": t.get("iters")})
    return out, mon


YAML_WORDS = {"no", "yes", "on", "off", "null", "true", "false", "y", "n", "nan", "inf"}


def layout_yaml(case):
    ints = bool(case.get("ints"))

    def num(x):
        x = float(x)
        return str(int(x)) if ints and x == int(x) and abs(x) < 2 ** 40 else repr(x)

    def q(name):
        return f'"{name}"' if name.lower() in YAML_WORDS else name
    case = dict(case, mods=[dict(m, name=q(m["name"])) for m in case["mods"]],
                nets=[dict(e, mods=[q(n) for n in e["mods"]]) for e in case["nets"]])
    lines = []
    for m in case["mods"]:
        k = m["kind"]
        if k == "soft":
            c = f", center: [{num(m['center'][0])}, {num(m['center'][1])}]" if "center" in m else ""
            rsoft = ""
            if m.get("rects"):
                rsoft = ", rectangles: [" + ", ".join("[" + ", ".join(num(v) for v in r) + "]" for r in m["rects"]) + "]"
            lines.append(f"  {m['name']}: {{area: {num(m['area'])}{c}{rsoft}}}")
        elif k in ("hard", "fixed"):
            rs = ", ".join("[" + ", ".join(num(v) for v in r) + "]" for r in m["rects"])
            lines.append(f"  {m['name']}: {{rectangles: [{rs}], {'fixed' if k == 'fixed' else 'hard'}: true}}")
        elif k == "termfixed":
            lines.append(f"  {m['name']}: {{terminal: true, fixed: true, center: [{num(m['center'][0])}, {num(m['center'][1])}]}}")
        elif k == "term":
            lines.append(f"  {m['name']}: {{terminal: true, center: [{num(m['center'][0])}, {num(m['center'][1])}]}}")
    nets = ", ".join("[" + ", ".join(e["mods"]) + (f", {num(e['w'])}" if e["w"] != 1 else "") + "]" for e in case["nets"])
    return "Modules: {\n" + ",\n".join(lines) + "\n}\nNets: [" + nets + "]\n"


def snap(nl):
    ms = []
    for m in nl.modules:
        ms.append({"name": m.name, "center": None if m.center is None else [m.center.x, m.center.y],
                   "area": m.area(), "regions": sorted(m.area_regions.items()),
                   "flags": [m.is_fixed, m.is_hard, m.is_terminal, m.flip],
                   "rects": [[r.center.x, r.center.y, r.shape.w, r.shape.h, r.fixed, r.hard, r.region, r.location.name]
                             for r in m.rectangles]})
    return {"mods": ms, "nets": [[[b.name for b in e.modules], e.weight] for e in nl.edges]}


def desc_nets(desc):
    """the nets as the caller wrote them: module names in the order listed (a module may be listed twice), weight"""
    return [[list(e["mods"]), float(e["w"])] for e in desc["nets"]]


NL_KEYS = ("name", "area", "regions", "flags", "rects")


def reference(desc):
    """the INPUT by value: the netlist text read by the plain Netlist class before any Spectral object exists; the
    nets are taken from the description itself (names as listed, weight)"""
    from frame.geometry.geometry import Rectangle
    from frame.netlist.netlist import Netlist
    Rectangle.undefine_epsilon()
    try:
        ref = snap(Netlist(layout_yaml(desc)))
    finally:
        Rectangle.undefine_epsilon()
    ref["nets_read"], ref["nets"] = ref["nets"], desc_nets(desc)
    return ref


class Input:
    """the argument handed to Spectral(...): YAML text, the name of a file holding it, an open stream, a YAML tree;
    and whether it is still what it was afterwards (the constructor must not alter its arguments)"""

    def __init__(self, desc):
        self.text, self.form = layout_yaml(desc), desc.get("form", "text")
        self.path = self.tree = self.tree0 = None

    def arg(self):
        import copy
        import io
        import os
        import tempfile
        from ruamel.yaml import YAML
        if self.form in ("file", "handle"):
            core.WORK_ROOT.mkdir(exist_ok=True)
            fd, self.path = tempfile.mkstemp(suffix=".yaml", dir=str(core.WORK_ROOT))
            with os.fdopen(fd, "w") as f:
                f.write(self.text)
            if self.form == "handle":
                self.handle = open(self.path)
                return self.handle
            return self.path
        if self.form == "tree":
            self.tree = YAML(typ="safe").load(self.text)
            self.tree0 = copy.deepcopy(self.tree)
            return self.tree
        if self.form == "stream":
            return io.StringIO(self.text)
        return self.text

    def damage(self):
        import copy
        from frame.geometry.geometry import Rectangle
        from frame.netlist.netlist import Netlist
        if self.path is not None:
            with open(self.path) as f:
                if f.read() != self.text:
                    return "the netlist file handed to the constructor was rewritten"
        if self.tree is not None and self.tree != self.tree0:
            # by meaning, not by representation: both trees read by the plain Netlist class
            eps_was = (Rectangle._distance_epsilon, Rectangle._area_epsilon)
            try:
                Rectangle.undefine_epsilon()
                a = snap(Netlist(copy.deepcopy(self.tree0)))
                Rectangle.undefine_epsilon()
                try:
                    b = snap(Netlist(copy.deepcopy(self.tree)))
                except Exception as e:
                    return f"the YAML tree handed to the constructor is no longer a netlist ({type(e).__name__})"
                if a["nets"] != b["nets"]:
                    return f"the nets of the YAML tree handed to the constructor changed: {a['nets']} -> {b['nets']}"
                if [[m[k] for k in NL_KEYS] for m in a["mods"]] != [[m[k] for k in NL_KEYS] for m in b["mods"]]:
                    return "the modules of the YAML tree handed to the constructor changed"
            finally:
                Rectangle._distance_epsilon, Rectangle._area_epsilon = eps_was
        return None

    def close(self):
        import os
        if getattr(self, "handle", None) is not None:
            self.handle.close()
        if self.path is not None:
            try:
                os.unlink(self.path)
            except OSError:
                pass


def build_spectral(desc):
    """(Spectral(...), the Input it was built from)"""
    from tools.spectral.spectral import Spectral
    inp = Input(desc)
    try:
        return Spectral(inp.arg()), inp
    except BaseException:
        inp.close()
        raise


def call_layout(s, desc, call):
    """one spectral_layout call; also: is the Shape handed over still the same afterwards?"""
    shape = die_shape(desc, call["W"], call["H"])
    w0, h0 = shape.w, shape.h
    st = guarded(lambda: s.spectral_layout(shape, int(call["nf"]), False))
    if (shape.w, shape.h) != (w0, h0):
        st["damage"] = f"the die Shape handed to spectral_layout changed from {(w0, h0)} to {(shape.w, shape.h)}"
    return st


def die_shape(desc, W, H):
    from frame.geometry.geometry import Shape
    w, h = float(W), float(H)
    if desc.get("ints") and w == int(w) and h == int(h):
        return Shape(int(w), int(h))
    return Shape(w, h)


def float_centroid(rects):
    a = sum(r[2] * r[3] for r in rects)
    return [sum(r[0] * r[2] * r[3] for r in rects) / a, sum(r[1] * r[2] * r[3] for r in rects) / a]


def edited(case, after, edit, call, eps):
    """the netlist description of the next phase: the modules as the previous phase left them, hard modules put back
    on chosen coordinates (per axis: as returned, off by less / more than the distance epsilon, where they started,
    or at the die's edge with the disc sticking out)"""
    kinds = {m["name"]: m for m in case["mods"]}
    size = [float(call["W"]), float(call["H"])]
    mods = []
    for ma in after["mods"]:
        m0 = kinds[ma["name"]]
        if m0["kind"] == "hard":
            rects = [[r[0], r[1], r[2], r[3]] for r in ma["rects"]]
            cen = float_centroid(rects)
            orig = float_centroid([[float(v) for v in r] for r in m0["rects"]])
            rad = math.sqrt(sum(r[2] * r[3] for r in rects) / math.pi)
            d = [0.0, 0.0]
            for ax, mode in enumerate(edit["hard"].get(ma["name"], ["same", "same"])):
                sg = -1.0 if mode.endswith("-") else 1.0
                if mode.startswith("below"):
                    d[ax] = sg * eps / 4
                elif mode.startswith("above"):
                    d[ax] = sg * (4 * eps if ax == 0 else 2.0 ** -20)
                elif mode == "orig":
                    d[ax] = orig[ax] - cen[ax]
                elif mode.startswith("edge"):
                    # a YAML rectangle must have non-negative centre coordinates
                    low = max([rad / 4] + [cen[ax] - r[ax] for r in rects])
                    d[ax] = (low if mode == "edge0" else size[ax] - rad / 4) - cen[ax]
            mods.append({"name": ma["name"], "kind": "hard", "rects": [[r[0] + d[0], r[1] + d[1], r[2], r[3]] for r in rects]})
        elif m0["kind"] == "soft":
            m = dict(m0)
            if ma["center"] is not None:
                m["center"] = list(ma["center"])
            mods.append(m)
        else:
            mods.append(m0)
    return dict(case, mods=mods)


def run_chain(case):
    from frame.geometry.geometry import Rectangle
    rng = random.Random("sample-chain")
    Rectangle.undefine_epsilon()
    obs = {"phases": []}
    try:
        desc, prev, eps, last = case, None, None, None
        for pi, ph in enumerate(case["phases"]):
            if pi > 0:
                if prev is None:
                    break
                desc = edited(case, prev, ph["edit"], last, eps)
            Rectangle.undefine_epsilon()
            try:
                ref = reference(desc)
                s, inp = build_spectral(desc)
            except AssertionError as e:
                if pi == 0:
                    raise
                # the follow-up netlist written by the harness is not a legal input (e.g. a rectangle centre with a
                # negative coordinate): the chain ends here
                obs["rebuild_rejected"] = str(e)[:200]
                break
            try:
                eps = Rectangle.distance_epsilon()
                pobs = {"input": ref, "before": snap(s), "adj": [[[e.node, e.weight] for e in es] for es in s._adj],
                        "eps": eps, "steps": [], "damage": inp.damage()}
                obs["phases"].append(pobs)
                prev, raised = None, False
                for call in ph["calls"]:
                    with Recorder() as rec:
                        random.seed(int(call["seed"]))
                        st = call_layout(s, desc, call)
                    st.update(W=call["W"], H=call["H"], nf=int(call["nf"]), seed=int(call["seed"]), after=snap(s))
                    st["trials"], st["monitor"] = summarise(rec.trials, rng, case.get("look"))
                    pobs["steps"].append(st)
                    pobs["damage"] = pobs["damage"] or st.get("damage") or inp.damage()
                    last = call
                    if "ok" not in st:
                        raised = True
                        break
                    prev = st["after"]
            finally:
                inp.close()
            if raised:
                break
    finally:
        Rectangle.undefine_epsilon()
    mon = {"calls": 0, "tiny_entries": 0, "bound_broken": 0, "worst_excess": 0.0}
    for ph in obs["phases"]:
        for st in ph["steps"]:
            for key in ("calls", "tiny_entries", "bound_broken"):
                mon[key] += st["monitor"][key]
            mon["worst_excess"] = max(mon["worst_excess"], st["monitor"]["worst_excess"])
    obs["monitor"] = mon
    if obs["phases"] and obs["phases"][-1]["steps"] and "ok" in obs["phases"][-1]["steps"][-1]:
        obs["ok"] = None
    else:
        last_st = obs["phases"][-1]["steps"][-1] if obs["phases"] and obs["phases"][-1]["steps"] else {}
        obs["raised"] = last_st.get("raised", "?")
    return obs


def gen_cli(rng, repeated=False, struct=False, far=False):
    """the command line tool: netlist file, die as '<W>x<H>' / die file / YAML text, --init or --bestof, output file"""
    case = gen_layout_struct(rng) if struct else gen_layout(rng)
    if far:
        case = far_fixed(rng, case)
    if repeated:
        repeat_pins(rng, case)
    case = decorate(rng, case)
    case["kind"] = "cli"
    case["die_form"] = rng.choice(["string", "string", "file", "text"])
    return case


def canon_snapshot(sn):
    """module and net order do not matter when the result is read back from a file"""
    return {"mods": sorted(sn["mods"], key=lambda m: m["name"]),
            "nets": sorted([[sorted(e[0]), e[1]] for e in sn["nets"]], key=repr)}


def run_cli(case):
    import shutil
    import tempfile
    from ruamel.yaml import YAML
    from frame.geometry.geometry import Rectangle
    from frame.netlist.netlist import Netlist
    import tools.spectral.spectral as SP
    core.WORK_ROOT.mkdir(exist_ok=True)
    d = tempfile.mkdtemp(prefix="c14cli", dir=str(core.WORK_ROOT))
    Rectangle.undefine_epsilon()
    try:
        text = layout_yaml(case)
        inp, out = f"{d}/in.yaml", f"{d}/out.yaml"
        with open(inp, "w") as f:
            f.write(text)
        before = snap(Netlist(text))
        before["nets"] = desc_nets(case)           # the nets as the caller wrote them
        Rectangle.undefine_epsilon()

        def num(x):
            x = float(x)
            return str(int(x)) if case.get("ints") and x == int(x) else repr(x)
        die = f"{num(case['W'])}x{num(case['H'])}"
        if case["die_form"] == "text":
            die = f"{{width: {num(case['W'])}, height: {num(case['H'])}}}"
        elif case["die_form"] == "file":
            die = f"{d}/die.yaml"
            with open(die, "w") as f:
                f.write(f"width: {num(case['W'])}\nheight: {num(case['H'])}\n")
        args = [inp, "--die", die, "-o", out] + (["--init"] if int(case["nf"]) == 0 else ["--bestof", str(int(case["nf"]))])
        random.seed(int(case["seed"]))
        obs = guarded(lambda: SP.main("spectral", args))
        obs["before"] = canon_snapshot(before)
        with open(inp) as f:
            if f.read() != text:
                obs["damage"] = "the input netlist file of the command line tool was rewritten"
        if "ok" in obs:
            Rectangle.undefine_epsilon()
            with open(out) as f:
                tree = YAML(typ="safe").load(f.read())
            after = snap(Netlist(out))
            b_by_name = {m["name"]: m for m in before["mods"]}
            for m in after["mods"]:
                c = tree["Modules"][m["name"]].get("center")
                m["center"] = None if c is None else [float(c[0]), float(c[1])]     # as written, not as re-derived
                mb = b_by_name.get(m["name"])
                if mb and len(mb["rects"]) == len(m["rects"]):
                    m["rects"] = [list(r[:4]) + list(rb[4:]) for r, rb in zip(m["rects"], mb["rects"])]
            obs["after"] = canon_snapshot(after)
        return obs
    finally:
        Rectangle.undefine_epsilon()
        shutil.rmtree(d, ignore_errors=True)


RC_YAML = """Modules: {{
  H: {{rectangles: [{rs}], hard: true}},
  Z: {{area: 400.0, center: [50.0, 50.0]}}
}}
Nets: [[H, Z]]
"""


def rc_snap(m):
    return {"center": None if m.center is None else [m.center.x, m.center.y],
            "rects": [[r.center.x, r.center.y, r.shape.w, r.shape.h, r.fixed, r.hard, r.region, r.location.name]
                      for r in m.rectangles]}


def run_rc(case):
    """a movable hard module, built directly or by a Netlist, then driven through its public interface"""
    from frame.geometry.geometry import Rectangle, Point, Shape
    from frame.netlist.module import Module
    from frame.netlist.netlist import Netlist
    Rectangle.undefine_epsilon()
    try:
        if case["eps"] is not None:
            Rectangle.set_epsilon(float(case["eps"]))
        if case["route"] == "netlist":
            rs = ", ".join("[" + ", ".join(repr(float(v)) for v in r) + "]" for r in case["rects"])
            nl = Netlist(RC_YAML.format(rs=rs))
            m = nl.get_module("H")
        else:
            m = Module("H", hard=True)
            for r in case["rects"]:
                m.add_rectangle(Rectangle(center=Point(float(r[0]), float(r[1])), shape=Shape(float(r[2]), float(r[3])),
                                          hard=True))
            if not Rectangle.epsilon_defined() and case["rects"]:
                # what a Netlist holding this module would have defined
                Rectangle.set_epsilon(min(min(float(r[2]), float(r[3])) for r in case["rects"]) * 1e-12)
        obs = {"init": rc_snap(m), "eps": Rectangle.distance_epsilon() if Rectangle.epsilon_defined() else None, "trace": []}
        for i, op in enumerate(case["ops"]):
            try:
                if op[0] == "set":
                    m.center = Point(float(op[1]), float(op[2]))
                elif op[0] == "mut":
                    if m.center is None:
                        m.center = Point(float(op[1]), float(op[2]))
                    else:
                        m.center.x, m.center.y = float(op[1]), float(op[2])
                elif op[0] == "add":
                    r = op[1]
                    m.add_rectangle(Rectangle(center=Point(float(r[0]), float(r[1])), shape=Shape(float(r[2]), float(r[3])),
                                              hard=True))
                elif op[0] == "put":
                    r, t = m.rectangles[int(op[1])], op[2]
                    r.center.x, r.center.y = float(t[0]), float(t[1])
                    r.shape = Shape(float(t[2]), float(t[3]))
                elif op[0] == "touch":
                    _ = m.area_rectangles, m.area(), m.num_rectangles
                elif op[0] == "rec":
                    before = rc_snap(m)
                    m.recenter_rectangles()
                    obs["trace"].append({"at": i, "before": before, "after": rc_snap(m)})
            except (ZeroDivisionError, AssertionError) as e:
                obs["raised"], obs["at"] = EXC[type(e).__name__], i
                return obs
        obs["ok"] = rc_snap(m)
        return obs
    finally:
        Rectangle.undefine_epsilon()


def rc_exact(init, ops):
    """(x exact?, y exact?): is every operation of the reference computation (areas w*h, sums left to right, one
    division, centre - quotient, coordinate + increment) exact in binary64 on this history?  Decided on the inputs alone."""
    rects = [[core.frac(v) for v in r[:4]] for r in init["rects"]]
    centre = None if init["center"] is None else [core.frac(v) for v in init["center"]]
    exact = [True, True]
    for op in ops:
        if op[0] in ("set", "mut"):
            centre = [core.frac(float(op[1])), core.frac(float(op[2]))]
        elif op[0] == "add":
            rects.append([core.frac(float(v)) for v in op[1]])
        elif op[0] == "put":
            rects[int(op[1])] = [core.frac(float(v)) for v in op[2]]
        elif op[0] == "rec":
            if centre is None or not rects:
                break
            areas = [r[2] * r[3] for r in rects]
            tot, ok_a = F(0), True
            for a in areas:
                tot += a
                ok_a = ok_a and _rep(a) and _rep(tot)
            if tot == 0:
                break
            for ax in (0, 1):
                acc, ok = F(0), ok_a
                for r, a in zip(rects, areas):
                    ok = ok and _rep(r[ax] * a)
                    acc += r[ax] * a
                    ok = ok and _rep(acc)
                g = acc / tot
                inc = centre[ax] - g
                ok = ok and _rep(g) and _rep(inc)
                for r in rects:
                    r[ax] += inc
                    ok = ok and _rep(r[ax])
                exact[ax] = exact[ax] and ok
    return exact


def run_impl(case):
    import tools.spectral.spectral_algorithm as SA
    k = case["kind"]
    if k == "rc":
        return run_rc(case)
    if k == "chain":
        return run_chain(case)
    if k == "cli":
        return run_cli(case)
    if k == "normalize":
        x = fl(case["xs"])

        def f():
            SA.normalize(x, fl(case["spans"]), list(case["fx"]))
            return x
        return guarded(f)
    if k == "ortho":
        coord = [fl(r) for r in case["coord"]]

        def f():
            SA.orthogonalize(coord, fl(case["mass"]), int(case["dim"]), list(case["fx"]))
            return coord[int(case["dim"])]
        obs = guarded(f)
        obs["others_unchanged"] = all(coord[d] == fl(case["coord"][d]) for d in range(len(coord)) if d != int(case["dim"]))
        return obs
    if k == "centroids":
        return guarded(lambda: SA.calculate_centroids(mk_adj(case["adj"]), fl(case["coord"]), fl(case["deg"])))
    if k == "dot":
        return guarded(lambda: SA.abs_norm_dot_product(fl(case["v1"]), fl(case["v2"]), fl(case["w"])))
    if k == "wl":
        return guarded(lambda: SA.wirelength(mk_adj(case["adj"]), [fl(r) for r in case["coord"]]))
    rng = random.Random(f"sample-{case.get('seed', 0)}")
    if k == "die":
        with Recorder() as rec:
            random.seed(int(case["seed"]))
            obs = guarded(lambda: rec.die(mk_adj(case["adj"]), fl(case["mass"]), [float(case["W"]), float(case["H"])],
                                          [fl(r) for r in case["ini"]], list(case["fx"])) and None)
        obs["trials"], obs["monitor"] = summarise(rec.trials, rng, case.get("look"))
        obs["radius"] = [math.sqrt(m / math.pi) for m in fl(case["mass"])]
        return obs
    if k == "layout":
        from frame.geometry.geometry import Rectangle, Shape
        from tools.spectral.spectral import Spectral
        Rectangle.undefine_epsilon()
        inp = None
        try:
            ref = reference(case)
            s, inp = build_spectral(case)
            before = snap(s)
            damage = inp.damage()
            adj = [[[e.node, e.weight] for e in es] for es in s._adj]
            with Recorder() as rec:
                random.seed(int(case["seed"]))
                obs = call_layout(s, case, case)
            obs["input"], obs["before"], obs["after"], obs["adj"] = ref, before, snap(s), adj
            obs["damage"] = damage or obs.get("damage") or inp.damage()
            obs["trials"], obs["monitor"] = summarise(rec.trials, rng, case.get("look"))
        finally:
            if inp is not None:
                inp.close()
            Rectangle.undefine_epsilon()
        return obs
    raise ValueError(k)


# ================================================================ the model side
def ortho_noise(case):
    """largest bound, over the steps k, on what rounding can add to |<cd', ck>_m / <cd', cd'>_m| (exact arithmetic)"""
    rows = [[core.frac(float(x)) for x in r] for r in case["coord"]]
    mass = [core.frac(float(x)) for x in case["mass"]]
    fx, dim = case["fx"], int(case["dim"])
    cd, worst = rows[dim], F(0)
    for k in range(dim):
        ck = rows[k]
        num = sum((cd[i] * ck[i] * mass[i] for i in range(len(mass)) if not fx[i]), F(0))
        den = sum((ck[i] * ck[i] * mass[i] for i in range(len(mass)) if not fx[i]), F(0))
        if den == 0:
            return worst
        factor = num / den
        mag = [abs(cd[i]) + abs(factor * ck[i]) for i in range(len(mass))]
        cd = [cd[i] if fx[i] else cd[i] - factor * ck[i] for i in range(len(mass))]
        norm = sum((mass[i] * cd[i] * cd[i] for i in range(len(mass))), F(0))
        if norm == 0:
            return None          # the orthogonalised row vanishes exactly: binary64 keeps an arbitrary residue
        worst = max(worst, sum((mass[i] * abs(ck[i]) * mag[i] for i in range(len(mass))), F(0)) * F(2) ** -50 / norm)
    return worst


def gl(v):
    return glist([gq(float(x)) for x in v])


def gres_list(obs):
    return f"(Ok {gl(obs['ok'])})" if "ok" in obs else f"(@{obs['raised']} (list Qc))"


def gadj(adj):
    return glist([glist([f"({gnat(int(n))}, {gq(float(w))})" for n, w in es]) for es in adj])


def gbools(v):
    return glist([gbool(b) for b in v])


def gtrial(t):
    d = t["dims"]
    rows = [glist([gl(v) for v in d[i]["replay"]]) if i < len(d) else "[]" for i in range(2)]
    return f"({rows[0]}, {rows[1]})"


def sample_checks(trials):
    parts = []
    for t in trials:
        for d in t["dims"]:
            for before, after in d["sample"]:
                parts.append(f"norm_ok {gq(THR)} 8 {gl(before)} {gl(d['spans'])} {gbools(d['fx'])} (Ok {gl(after)})")
            if d.get("norm_raised"):
                before, exc = d["norm_raised"]
                parts.append(f"norm_ok {gq(THR)} 8 {gl(before)} {gl(d['spans'])} {gbools(d['fx'])} (@{exc} (list Qc))")
    return parts


def gsmod(m, W, H):
    c = gopt(None if m["center"] is None else f"({gq(m['center'][0])}, {gq(m['center'][1])})")
    rs = glist([f"(mkRect {gq(r[0])} {gq(r[1])} {gq(r[2])} {gq(r[3])} {gbool(r[4])} {gbool(r[5])} {gstr(r[6])} "
                f"{fr.LOCS[r[7]]})" for r in m["rects"]])
    rad = math.sqrt(m["area"] / math.pi)
    return f"(mkSmod {c} {gbool(m['flags'][0])} {gbool(m['flags'][1])} {gbool(m['flags'][2])} {rs} {gq(rad)})"


def grc_rect(r, like=None):
    like = like or [None, None, None, None, False, True, "_", "NO_POLYGON"]
    return (f"(mkRect {gq(float(r[0]))} {gq(float(r[1]))} {gq(float(r[2]))} {gq(float(r[3]))} {gbool(like[4])} "
            f"{gbool(like[5])} {gstr(like[6])} {fr.LOCS[like[7]]})")


def grc_state(sn):
    c = gopt(None if sn["center"] is None else f"({gq(sn['center'][0])}, {gq(sn['center'][1])})")
    return c, glist([grc_rect(r, r) for r in sn["rects"]])


def rc_to_coq(case, obs):
    c0, rs0 = grc_state(obs["init"])
    ops = []
    for op in case["ops"]:
        if op[0] in ("set", "mut"):
            ops.append(f"RcSet ({gq(float(op[1]))}, {gq(float(op[2]))})")
        elif op[0] == "add":
            ops.append(f"RcAdd {grc_rect(op[1])}")
        elif op[0] == "put":
            ops.append(f"RcPut {gnat(int(op[1]))} {grc_rect(op[2], obs['init']['rects'][int(op[1])])}")
        elif op[0] == "rec":
            ops.append("RcRecenter")
    if "ok" in obs:
        c, rs = grc_state(obs["ok"])
        o = f"(Ok ({c}, {rs}))"
    else:
        o = f"(@{obs['raised']} (option vec * list Rect))"
    ex, ey = rc_exact(obs["init"], case["ops"])
    return f"rc_ok {gbool(ex)} {gbool(ey)} 16 (qc 64 1) {glist(ops)} (mkRc {c0} {rs0}) {o}"


def trial_checks(trials, adj):
    """the kernels inside a call: sampled normalize calls, the wire length the selection is based on"""
    parts = sample_checks(trials)
    for t in trials:
        if t["ret"] is not None:
            wtol = gq(F(1, 10 ** 9) * core.frac(max(1.0, abs(t["wl"]))))
            parts.append(f"aclose {wtol} (wirelength {adj} [{gl(t['ret'][0])}; {gl(t['ret'][1])}]) {gq(t['wl'])}")
    return parts


def gnets(inp):
    """the nets of the input for the model: module indices in the order listed, weight"""
    idx = {m["name"]: i for i, m in enumerate(inp["mods"])}
    return glist([f"({glist([gnat(idx[n]) for n in e[0]])}, {gq(float(e[1]))})" for e in inp["nets"]])


def iter_checks(trials, W, H, n):
    """inside the loop of spectral_layout_die; the caller binds G (graph), M (masses), FX (fixed flags) with `let`:
    every looked-into iteration against the model's step (the row handed to normalize), the convergence test after
    it, and the number of iterations the call reports"""
    eps = max(float(W), float(H)) * n * 1e-10            # as spectral_layout_die computes it
    parts = []
    for t in trials:
        done = []
        for di, d in enumerate(t["dims"]):
            completed = di + 1 < len(t["dims"]) or t["ret"] is not None
            prev = glist([gl([1.0] * n)] + [gl(r) for r in done])
            for st in d["steps"]:
                tol = gq(F(1, 10 ** 9) * core.frac(max([1.0] + [abs(x) for x in st["c"]])))
                last = bool(st["last"] and completed)
                parts.append(f"step_ok {gq(ATOL)} {gq(eps)} {tol} G M FX {prev} {gl(st['c'])} {gl(st['v'])} {gl(st['c2'])} "
                             f"{gbool(last)} {gbool(d['n'] - 1 >= ITER_LIMIT)}")
            if completed and t.get("iters") is not None and di < len(t["iters"]):
                # every iteration ends in one normalize call
                parts.append(gbool(t["iters"][di] == d["n"] - 1))
            if d["last_out"] is None:
                break
            done.append(d["last_out"])
    return parts


def with_graph(G, M, FX, parts):
    if not parts:
        return []
    return [f"let G := {G} in let M := {M} in let FX := {FX} in " + " && ".join(f"({p})" for p in parts)]


def selected_trials(trials, nf):
    """the recorded trials as the model replays them; two trials with the same wire length up to rounding (mirrored
    solutions): which one wins is decided by the last bit, so the selected trial is replayed alone"""
    wls = [t["wl"] for t in trials]
    srt = sorted(wls)
    if len(srt) >= 2 and srt[1] - srt[0] <= 1e-9 * max(1.0, srt[0]):
        return [trials[wls.index(srt[0])]], 1
    return trials, nf


def chain_to_coq(case, obs):
    parts = []
    for ph in obs["phases"]:
        adj = gadj(ph["adj"])
        size = max([1.0] + [max(float(st["W"]), float(st["H"])) for st in ph["steps"]])
        tol = gq(F(1, 10 ** 9) * core.frac(size))
        # the model's object is built from the INPUT of the constructor (modules and nets as handed over)
        inp = ph["input"]
        ms = glist([gsmod(m, None, None) for m in inp["mods"]])
        n = len(inp["mods"])
        steps, inner = [], []
        for st in ph["steps"]:
            W, H = gq(float(st["W"])), gq(float(st["H"]))
            parts += trial_checks(st["trials"], adj)
            inner += iter_checks(st["trials"], st["W"], st["H"], n)
            ntr = max(1, st["nf"])
            complete = len(st["trials"]) == ntr and all(t["ret"] is not None for t in st["trials"])
            if "ok" in st:
                trs, nf = selected_trials(st["trials"], st["nf"])
                out = glist([gsmod(m, None, None) for m in st["after"]["mods"]])
                steps.append(f"({W}, {H}, {gnat(nf)}, {glist([gtrial(t) for t in trs])}, Some {out})")
                parts.append(gbool(all(len(t["dims"]) == 2 and t["dims"][0]["last_out"] == t["ret"][0]
                                       and t["dims"][1]["last_out"] == t["ret"][1] for t in st["trials"])))
            elif complete or not st["trials"]:
                # raised outside the abstracted iteration: the model must fail as well
                steps.append(f"({W}, {H}, {gnat(st['nf'])}, {glist([gtrial(t) for t in st['trials']])}, @None (list (smod Qc)))")
        parts += with_graph(adj, gl([m["area"] for m in inp["mods"]]), gbools([m["flags"][0] for m in inp["mods"]]), inner)
        parts.append(f"session_input {gq(THR)} {tol} {ms} {gnets(inp)} {adj} {glist(steps)}")
    return " && ".join(f"({p})" for p in parts) if parts else "true"


def to_coq(case, obs):
    k = case["kind"]
    if k == "normalize":
        return f"norm_ok {gq(THR)} 8 {gl(case['xs'])} {gl(case['spans'])} {gbools(case['fx'])} {gres_list(obs)}"
    if k == "ortho" and ortho_noise(case) is None:
        # exact norm 0: the model raises ZeroDivisionError; what the implementation does is decided by the 1e-16
        # residue that survives in binary64 (division error, assertion, or a row of residues): not compared
        coord = glist([gl(r) for r in case["coord"]])
        return (f"match orthogonalize {gq(ATOL)} {coord} {gl(case['mass'])} {gnat(int(case['dim']))} "
                f"{gbools(case['fx'])} with ZeroDiv => true | _ => false end")
    if k == "ortho" and obs.get("raised") == "AssertFail" and ortho_noise(case) >= core.frac(ATOL) / 4:
        # ill-conditioned: the orthogonalised row is so small that binary64 rounding alone lifts the normalised
        # dot product (exactly 0 or tiny) above 10e-12; the exact model may pass the assertion
        coord = glist([gl(r) for r in case["coord"]])
        return (f"match orthogonalize {gq(ATOL)} {coord} {gl(case['mass'])} {gnat(int(case['dim']))} "
                f"{gbools(case['fx'])} with EmptyMin => false | _ => true end")
    if k == "ortho":
        scale = max([1.0] + [abs(float(x)) for r in case["coord"] for x in r]) ** 2
        tol = gq(F(1, 10 ** 11) * core.frac(scale))
        coord = glist([gl(r) for r in case["coord"]])
        return (f"ortho_cmp {tol} (orthogonalize {gq(ATOL)} {coord} {gl(case['mass'])} "
                f"{gnat(int(case['dim']))} {gbools(case['fx'])}) {gres_list(obs)} && {gbool(obs['others_unchanged'])}")
    if k == "centroids":
        # 0.5 * (coord[i] + centre) can cancel: absolute tolerance at the magnitude of the coordinates
        tol = gq(F(1, 10 ** 12) * core.frac(max([1.0] + [abs(float(x)) for x in case["coord"]])))
        return (f"res_cmp (list_eqb (aclose {tol})) (calculate_centroids {gadj(case['adj'])} {gl(case['coord'])} "
                f"{gl(case['deg'])}) {gres_list(obs)}")
    if k == "dot":
        o = f"(Ok {gq(obs['ok'])})" if "ok" in obs else f"(@{obs['raised']} Qc)"
        return f"res_cmp (rclose 16) (abs_norm_dot_product {gl(case['v1'])} {gl(case['v2'])} {gl(case['w'])}) {o}"
    if k == "wl":
        coord = glist([gl(r) for r in case["coord"]])
        return f"Qceqb (wirelength {gadj(case['adj'])} {coord}) {gq(obs['ok'])}"
    if k == "rc":
        return rc_to_coq(case, obs)
    if k == "cli":
        return "true"                      # observed through files: the direct oracle only
    if k == "chain":
        return chain_to_coq(case, obs)
    W, H = gq(float(case["W"])), gq(float(case["H"]))
    tol = gq(F(1, 10 ** 9) * core.frac(max(float(case["W"]), float(case["H"]))))
    if k == "die":
        parts = sample_checks(obs["trials"])
        parts += with_graph(gadj(case["adj"]), gl(case["mass"]), gbools(case["fx"]),
                            iter_checks(obs["trials"], case["W"], case["H"], len(case["mass"])))
        t = obs["trials"][0]
        if "ok" in obs or t["ret"] is not None:
            parts.append(f"die_ok {gq(THR)} {tol} {W} {H} {gl(obs['radius'])} {gbools(case['fx'])} {gl(case['ini'][0])} "
                         f"{gl(case['ini'][1])} {gtrial(t)} {gl(t['ret'][0])} {gl(t['ret'][1])}")
            # "the last call per dimension must produce the returned coordinates" - exactly
            parts.append(gbool(len(t["dims"]) == 2 and t["dims"][0]["last_out"] == t["ret"][0]
                               and t["dims"][1]["last_out"] == t["ret"][1]))
        elif "raised" in obs and not t["dims"]:
            # raised before the first normalize (the asserts on the start coordinates): the model must not return either
            parts.append(f"die_fails {gq(THR)} {W} {H} {gl(obs['radius'])} {gbools(case['fx'])} {gl(case['ini'][0])} "
                         f"{gl(case['ini'][1])} {gtrial(t)}")
        return " && ".join(f"({p})" for p in parts) if parts else "true"
    if k == "layout":
        parts = sample_checks(obs["trials"])
        # the model starts from the INPUT of the constructor: its modules, and the graph of its nets
        inp = obs["input"]
        ms = glist([gsmod(m, W, H) for m in inp["mods"]])
        adj = gadj(obs["adj"])
        parts.append(f"graph_ok {gnat(len(inp['mods']))} {gnets(inp)} {adj}")
        parts += with_graph(adj, gl([m["area"] for m in inp["mods"]]), gbools([m["flags"][0] for m in inp["mods"]]),
                            iter_checks(obs["trials"], case["W"], case["H"], len(inp["mods"])))
        trs = glist([gtrial(t) for t in obs["trials"]])
        nf = gnat(int(case["nf"]))
        ntr = max(1, int(case["nf"]))
        complete = len(obs["trials"]) == ntr and all(t["ret"] is not None for t in obs["trials"])
        for t in obs["trials"]:
            if t["ret"] is not None:        # the wire length the selection is based on
                wtol = gq(F(1, 10 ** 9) * core.frac(max(1.0, abs(t["wl"]))))
                parts.append(f"aclose {wtol} (wirelength {adj} [{gl(t['ret'][0])}; {gl(t['ret'][1])}]) {gq(t['wl'])}")
        if "ok" in obs:
            out = glist([gsmod(m, W, H) for m in obs["after"]["mods"]])
            wls = [t["wl"] for t in obs["trials"]]
            srt = sorted(wls)
            if len(srt) >= 2 and srt[1] - srt[0] <= 1e-9 * max(1.0, srt[0]):
                # two trials with the same wire length up to rounding (mirrored solutions): which one wins is decided
                # by the last bit; replay the selected trial alone
                j = wls.index(srt[0])
                trs, nf = glist([gtrial(obs["trials"][j])]), gnat(1)
            parts.append(f"layout_ok {gq(THR)} {tol} {W} {H} {nf} {ms} {adj} {trs} {out}")
            parts.append(gbool(all(len(t["dims"]) == 2 and t["dims"][0]["last_out"] == t["ret"][0]
                                   and t["dims"][1]["last_out"] == t["ret"][1] for t in obs["trials"])))
        elif complete or not obs["trials"]:
            # raised outside the abstracted iteration: the model must fail as well
            parts.append(f"layout_fails {gq(THR)} {W} {H} {nf} {ms} {adj} {trs}")
        return " && ".join(f"({p})" for p in parts) if parts else "true"
    raise ValueError(k)


# ================================================================ the direct oracle
ULP = F(2) ** -52


def admissible_nl(W, H, b):
    """the quantifier: >= 4 movable modules, every module on some net, every disc fits in the die"""
    ms = b["mods"]
    movable = [m for m in ms if not m["flags"][0]]
    if len(movable) < 4:
        return False
    on_net = {n for e, _ in b["nets"] for n in e}
    if any(m["name"] not in on_net for m in ms):
        return False
    rmax = min(float(W), float(H)) / 2
    return all(math.sqrt(m["area"] / math.pi) <= rmax for m in ms)


def centroid(rects):
    a = sum((core.frac(r[2]) * core.frac(r[3]) for r in rects), F(0))
    if a == 0:
        return None
    return (sum((core.frac(r[0]) * core.frac(r[2]) * core.frac(r[3]) for r in rects), F(0)) / a,
            sum((core.frac(r[1]) * core.frac(r[2]) * core.frac(r[3]) for r in rects), F(0)) / a)


def layout_oracle(Wc, Hc, b, a):
    """the property text on one call: b = the netlist before the call, a = after"""
    W, H = core.frac(float(Wc)), core.frac(float(Hc))
    size = max(W, H)
    if not admissible_nl(W, H, b):
        return None
    if [[list(e[0]), float(e[1])] for e in b["nets"]] != [[list(e[0]), float(e[1])] for e in a["nets"]]:
        return f"the nets changed: {b['nets']} -> {a['nets']}"
    if [m["name"] for m in b["mods"]] != [m["name"] for m in a["mods"]]:
        return "the modules changed"
    for mb, ma in zip(b["mods"], a["mods"]):
        nm = mb["name"]
        if (mb["area"], mb["regions"], mb["flags"]) != (ma["area"], ma["regions"], ma["flags"]):
            return f"module {nm}: area or flags changed"
        if [r[2:] for r in mb["rects"]] != [r[2:] for r in ma["rects"]]:
            return f"module {nm}: the shapes of its rectangles changed"
        fixed, hard, term = mb["flags"][0], mb["flags"][1], mb["flags"][2]
        if fixed:
            if mb["rects"] != ma["rects"]:
                return f"fixed module {nm}: rectangles moved"
            if ma["center"] is not None and mb["center"] is not None:
                if any(abs(core.frac(p) - core.frac(q)) > 4 * ULP * max(size, abs(core.frac(q)))
                       for p, q in zip(ma["center"], mb["center"])):
                    return f"fixed module {nm}: centre moved from {mb['center']} to {ma['center']}"
            continue
        tol = 4 * ULP * size
        if hard and mb["rects"]:
            dx = [core.frac(ra[0]) - core.frac(rb[0]) for ra, rb in zip(ma["rects"], mb["rects"])]
            dy_ = [core.frac(ra[1]) - core.frac(rb[1]) for ra, rb in zip(ma["rects"], mb["rects"])]
            mag = max([size] + [abs(core.frac(r[i])) for r in mb["rects"] for i in (0, 1)])
            if max(dx) - min(dx) > 4 * ULP * mag or max(dy_) - min(dy_) > 4 * ULP * mag:
                return f"hard module {nm} was not moved rigidly: rectangle displacements {[(float(p), float(q)) for p, q in zip(dx, dy_)]}"
        elif mb["rects"] != ma["rects"]:
            return f"module {nm}: rectangles of a soft module changed"
        if ma["center"] is not None:
            pos = (core.frac(ma["center"][0]), core.frac(ma["center"][1]))
        else:
            pos = centroid(ma["rects"])
            tol = 16 * ULP * size
            if pos is None:
                return f"module {nm} has neither a centre nor rectangles after placement"
        if not all(math.isfinite(float(p)) for p in pos):
            return f"module {nm}: position not finite"
        r = core.frac(math.sqrt(mb["area"] / math.pi))
        ex = max(abs(pos[0] - W / 2) + r - W / 2, abs(pos[1] - H / 2) + r - H / 2)
        if ex > tol:
            return (f"module {nm}: the disc of radius {float(r)!r} centred at ({float(pos[0])!r}, {float(pos[1])!r}) "
                    f"leaves the die {float(W)} x {float(H)} by {float(ex)!r}")
    return None


def constructed_oracle(inp, before):
    """Spectral(netlist) is that netlist: the object, before any call, shows the areas and nets of the input"""
    on_net = {n for e, _ in inp["nets"] for n in e}
    if sum(1 for m in inp["mods"] if not m["flags"][0]) < 4 or any(m["name"] not in on_net for m in inp["mods"]):
        return None                      # outside the quantifier
    if inp["nets"] != [[list(e[0]), float(e[1])] for e in before["nets"]]:
        return f"the constructor changed the nets of the input: {inp['nets']} -> {before['nets']}"
    if [m["name"] for m in inp["mods"]] != [m["name"] for m in before["mods"]]:
        return "the constructor changed the modules of the input"
    for mi, mb in zip(inp["mods"], before["mods"]):
        if (mi["area"], mi["regions"], mi["flags"]) != (mb["area"], mb["regions"], mb["flags"]):
            return f"the constructor changed the area or the flags of module {mi['name']}"
        if mi["rects"] != mb["rects"]:
            return f"the constructor moved or reshaped the rectangles of module {mi['name']}"
    return None


def oracle(case, obs):
    k = case["kind"]
    if k == "normalize":
        # the stated mechanism: fixed nodes skipped, every movable |x_i| <= its span
        if "ok" not in obs:
            return None
        for i, (x, y, s, f) in enumerate(zip(fl(case["xs"]), obs["ok"], fl(case["spans"]), case["fx"])):
            if f and x != y:
                return f"normalize changed the fixed entry {i}: {x} -> {y}"
            if not f and core.frac(abs(y)) > core.frac(s) * (1 + 4 * ULP):
                return f"normalize left the movable entry {i} at {y!r}, beyond its span {s!r} (input {x!r})"
        return None
    if k in ("ortho", "centroids", "dot", "wl"):
        return None                      # no property-level statement about these kernels on their own
    if k == "chain":
        # the property, call by call: the state of the object before the call is the "netlist" of that call
        for pi, ph in enumerate(obs["phases"]):
            # the first call of an object is judged against the INPUT of its constructor, by value
            cur = ph["input"]
            if ph.get("damage"):
                return f"phase {pi}: {ph['damage']}"
            why = constructed_oracle(ph["input"], ph["before"])
            if why:
                return f"phase {pi}: {why}"
            for si, st in enumerate(ph["steps"]):
                if "ok" not in st:
                    break
                why = layout_oracle(st["W"], st["H"], cur, st["after"])
                if why:
                    return f"phase {pi} call {si} (die {float(st['W'])} x {float(st['H'])}, {st['nf']} trials, seed {st['seed']}): {why}"
                cur = st["after"]
        return None
    if k == "rc":
        # "at its position" up to the library's own notion of equal distances (the distance epsilon in force)
        dt = max(F(1, 10 ** 9) * 64, 2 * core.frac(obs.get("eps") or 0.0))
        for t in obs["trace"]:
            b, a = t["before"], t["after"]
            if [r[2:] for r in b["rects"]] != [r[2:] for r in a["rects"]]:
                return "recenter_rectangles changed the shape, role or number of the rectangles"
            dx = [core.frac(ra[0]) - core.frac(rb[0]) for ra, rb in zip(a["rects"], b["rects"])]
            dy_ = [core.frac(ra[1]) - core.frac(rb[1]) for ra, rb in zip(a["rects"], b["rects"])]
            if max(dx) - min(dx) > dt or max(dy_) - min(dy_) > dt:
                return f"recenter_rectangles did not move the rectangles rigidly: displacements {[(float(p), float(q)) for p, q in zip(dx, dy_)]}"
            pos = centroid(a["rects"])
            want = b["center"]
            if any(abs(pos[i] - core.frac(want[i])) > dt for i in (0, 1)):
                return (f"after recenter_rectangles the module (area-weighted centre of its rectangles) is at "
                        f"({float(pos[0])!r}, {float(pos[1])!r}), not at its centre ({want[0]!r}, {want[1]!r})")
        return None
    W, H = core.frac(float(case["W"])), core.frac(float(case["H"]))
    size = max(W, H)
    if k == "die":
        if "ok" not in obs:
            return None
        t = obs["trials"][0]
        for d, S in ((0, W), (1, H)):
            for i, y in enumerate(t["ret"][d]):
                if case["fx"][i]:
                    if core.frac(y) != core.frac(float(case["ini"][d][i])) - S / 2:
                        return f"fixed node {i} moved in dimension {d}"
                else:
                    span = S / 2 - core.frac(obs["radius"][i])
                    if span >= 0 and abs(core.frac(y)) > span + 4 * ULP * size:
                        return f"node {i}: coordinate {y!r} in dimension {d} exceeds its span {float(span)!r}"
        return None
    if k == "layout":
        if obs.get("damage"):
            return obs["damage"]
        why = constructed_oracle(obs["input"], obs["before"])
        if why or "ok" not in obs:
            return why
        return layout_oracle(case["W"], case["H"], obs["input"], obs["after"])
    if k == "cli":
        if obs.get("damage"):
            return obs["damage"]
        if "ok" not in obs:
            return None
        return layout_oracle(case["W"], case["H"], obs["before"], obs["after"])
    return None


def failure_key(case, why):
    return f"C14/{case['kind']}"


def shrink(case):
    k = case["kind"]
    if k == "normalize":
        n = len(case["xs"])
        for i in range(n):
            if n > 1:
                yield dict(case, xs=case["xs"][:i] + case["xs"][i + 1:], spans=case["spans"][:i] + case["spans"][i + 1:],
                           fx=case["fx"][:i] + case["fx"][i + 1:])
    if k == "layout":
        for i in range(len(case["nets"])):
            yield dict(case, nets=case["nets"][:i] + case["nets"][i + 1:])
        if case["nf"] > 1:
            yield dict(case, nf=1)


def nontrivial(case):
    k = case["kind"]
    if k == "normalize":
        return len(case["xs"]) >= 2 and not all(case["fx"])
    if k == "rc":
        return len(case["rects"]) >= 2
    return True


def _obs_of(case):
    try:
        return run_impl(case)
    except Exception as e:              # reported by run_cases as "implementation raised"
        import traceback
        return {"crash": f"{type(e).__name__}: {e}", "tb": traceback.format_exc()[-800:]}


SIZES_QUICK = [9, 10, 11, 16, 17]
SIZES_THOROUGH = [9, 10, 11, 15, 16, 17, 31, 32, 33, 64, 65]


def run(ctx, out, replay=None):
    global SAMPLE_ALL
    quick = ctx.quick()
    SAMPLE_ALL = not quick
    look_struct = [1, 1, 6, 1] if quick else [2, 1, 9, 2]       # structured cases: the degenerate paths are taken early
    look_some = [1, 1, 5, 1] if quick else [1, 1, 7, 1]         # every 8th (thorough: 3rd) of the random ones
    look_none = [0, 0, 0, 0]
    nds = 12 if quick else 60           # structured graphs / starts: spectral_layout_die
    nls = 15 if quick else 90           # ... Spectral.spectral_layout
    ncs = 3 if quick else 12            # ... several calls on one object
    nk = 1800 if quick else 24000
    nd = 12 if quick else 80
    nl = 24 if quick else 180
    nc = 12 if quick else 60
    ncli = 5 if quick else 30
    nfar = (4, 6, 2, 2) if quick else (30, 60, 20, 15)       # fixed modules on the edges / outside: die, layout, chain, cli
    out.rule = ("kernels on dyadic vectors (normalize: entries k/8, zeros, entries at, one ulp around and near the 10e-10 "
                "threshold, spans k/4 incl. 0, fixed flags; orthogonalize: 2-4 rows incl. the all-ones row, masses zero on "
                "fixed nodes or not, parallel rows, all nodes fixed, normalised dot product exactly at / one unit below / above "
                "the 10e-12 assertion bound; centroids/dot/wirelength on random weighted graphs incl. isolated nodes and zero "
                "weights); Module.recenter_rectangles driven directly (kind rc: module built directly or by a Netlist, 0-34 "
                "rectangles, centre = area-weighted centre + per-axis offset 0 / below / exactly / above the distance epsilon / "
                "grid / far, half of the cases with a coincidence in ONE axis only; histories: twice, new centre by setter or by "
                "mutating the Point, add_rectangle, in-place edit of a rectangle, cached areas read in between, recenter before "
                "any centre); spectral_layout_die on random connected graphs (random / given / mixed start incl. coordinates "
                "0 and slightly negative, fixed nodes); Spectral.spectral_layout on connected netlists with 4-7 (some 9-17, "
                "thorough up to 65) movable modules (soft with and without centre, hard with 1-3 rectangles), 0-2 fixed modules, "
                "0-2 fixed terminals, nets of arity 2-5 with weights, dies k/4 and k/10, trial counts 0,1,2,3,5, seeds 0..9999, "
                "6% with a module whose disc fills the die up to 1e-8..0, netlist as text or file, numbers as ints, names that "
                "are prefixes of each other or YAML words, trunk listed last; kind chain: several calls on ONE Spectral object "
                "(other dies / trial counts / seeds, the same call twice) and a second object built from the layout the first "
                "returned with hard modules put back, per axis, on the returned coordinate / off by less or more than the "
                "distance epsilon / where they started / at the die's edge with the disc sticking out. STRUCTURED cases for the "
                "deterministic init mode (kinds die and layout, some chains and cli): even and odd rings, paths, stars, complete "
                "bipartite graphs, grids, the cube, trees, wheels, complete graphs (nodes renumbered in 30%), uniform weights; starts "
                "with one value per side of the graph (mirror placement, 25% mirrored about the die's centre), +-d by parity, "
                "symmetric about a point, equally spaced, three values, all equal, all at the centre; masses equal / the two sides in "
                "exact balance (incl. a 1/64 share beside a 63/64 share) / one big / random, dyadic; 0 trials in 2 of 3. Nets that "
                "list a module twice ([a,d,a,e], [a,a], [a,b,a], [a,a,a,b]) and the same net twice in every 4th layout, 25% of the "
                "chains, every 3rd cli case. The netlist is handed over as text, file name, open file, StringIO or YAML tree. "
                "FIXED modules and fixed terminals on the four edges, at the corners and beyond the right / top edge of the die "
                "(per axis: inside, 0, the die size, beyond it by one binary64 step / 2^-20 / 1/8, by 1/8..1/2 die, by 2..1000 dies; "
                "patterns: one per edge, the four corners, beyond one edge, beyond the corner, mixed, the pads E/N/W of the seeded "
                "netlist; a few with a negative coordinate, which the code rejects) in a stream of their own through "
                "spectral_layout_die, spectral_layout, several calls on one object (other dies: what was on the edge is then "
                "inside or outside) and the command line tool. non-trivial: kernels "
                "with >= 2 entries not all fixed; rc with >= 2 rectangles; every die/layout/chain case")
    first = []
    if replay and "case" in replay:
        first.append(fr.unjson(replay["case"]))
    first += fr.load_corpus("C14")
    rng = ctx.rng
    light, heavy = [], []
    gens = [gen_normalize, gen_normalize, gen_normalize, gen_ortho, gen_ortho, gen_centroids, gen_dot, gen_wl, gen_rc, gen_rc]
    for i in range(nk):
        light.append(gens[i % len(gens)](rng))
    for i in range(nd):
        heavy.append(gen_die(rng))
    for i in range(nds):
        heavy.append(gen_die_struct(rng))
    sizes = SIZES_QUICK if quick else SIZES_THOROUGH
    for i in range(nl):
        big = sizes[(i // 12) % len(sizes)] if i % 12 == 11 else None
        case = gen_layout(rng, big)
        if big:
            case["nf"] = min(case["nf"], 2)
        if i % 4 == 1:
            repeat_pins(rng, case)
        heavy.append(decorate(rng, case) if i % 2 else case)
    for i in range(nls):
        case = gen_layout_struct(rng, big=(i % 10 == 9))
        if i % 5 == 4:
            repeat_pins(rng, case)
        heavy.append(decorate(rng, case) if i % 3 == 2 else case)
    for i in range(ncs):
        heavy.append(gen_chain(rng, base=gen_layout_struct(rng)))
    for i in range(nc):
        big = sizes[(i // 6) % len(sizes)] if i % 6 == 5 else None
        case = gen_chain(rng, min(big, 33) if big else None)
        if big:
            for ph in case["phases"]:
                for call in ph["calls"]:
                    call["nf"] = min(call["nf"], 2)
        heavy.append(case)
    for i in range(ncli):
        heavy.append(gen_cli(rng, repeated=(i % 3 == 1), struct=(i % 3 == 2)))
    # fixed modules and fixed terminals on the four edges, at the corners and beyond the right / top edge (by one binary64
    # step ... 1000 dies), in every stream; the first layout is the seed's netlist shape (pads E, N beyond, W on the edge)
    far_rng = random.Random(f"far-{ctx.seed}")
    for i in range(nfar[0]):
        heavy.append(gen_die_far(far_rng, ["beyond", "corners", "diag", "edges", "mixed"][i % 5]))
    for i in range(nfar[1]):
        case = far_fixed(far_rng, gen_layout_struct(far_rng) if i % 4 == 3 else gen_layout(far_rng),
                         pattern=FAR_ORDER[i % len(FAR_ORDER)], neg=(i % 8 == 5))
        if i % 4 == 2:
            case["nf"] = 0 if all(m["kind"] != "soft" or "center" in m or m.get("rects") for m in case["mods"]) else case["nf"]
        heavy.append(decorate(far_rng, case) if i % 2 else case)
    for i in range(nfar[2]):
        heavy.append(gen_chain(far_rng, base=far_fixed(far_rng, gen_layout(far_rng), pattern=FAR_PATTERNS[(2 * i + 1) % len(FAR_PATTERNS)])))
    for i in range(nfar[3]):
        heavy.append(gen_cli(far_rng, repeated=(i % 3 == 1), far=True))
    every = 8 if quick else 3
    for i, case in enumerate(heavy):
        case["look"] = look_struct if case.get("struct") else look_some if i % every == 0 else look_none
    mon = {"calls": 0, "tiny_entries": 0, "bound_broken": 0, "worst_excess": 0.0, "returned": 0, "raised": {}}

    # the runs of the implementation are independent of each other (every case seeds `random` and resets the
    # class-level epsilon itself): the heavy ones are run in worker processes, in a fixed order
    import multiprocessing
    import time
    t0 = time.time()
    pre = {}
    try:
        with multiprocessing.get_context("fork").Pool(6 if quick else 8) as pool:
            for i, obs in enumerate(pool.map(_obs_of, heavy, chunksize=1)):
                pre[id(heavy[i])] = obs
    except Exception:
        pre = {}
    t_pre = round(time.time() - t0, 1)

    def run_mon(case):
        obs = pre.pop(id(case), None)
        if obs is None:
            obs = run_impl(case)
        if "crash" in obs:
            raise RuntimeError(obs["crash"])
        m = obs.get("monitor")
        if m:
            for key in ("calls", "tiny_entries", "bound_broken"):
                mon[key] += m[key]
            mon["worst_excess"] = max(mon["worst_excess"], m["worst_excess"])
            if "ok" in obs:
                mon["returned"] += 1
            else:
                mon["raised"][obs.get("raised", "?")] = mon["raised"].get(obs.get("raised", "?"), 0) + 1
        return obs

    def dkey(c):
        return (c["kind"] + ("/" + c["style"] if c["kind"] in ("chain", "rc") else "") +
                ("/struct:" + c["struct"].split("/")[0] if c.get("struct") else "") + ("/pins" if c.get("pins") else "") +
                ("/far:" + c["far"] if c.get("far") else ""))

    agreements, timing = 0, {"implementation_on_layouts": t_pre}
    for name, batch, shard, shr in (("corpus", first, 3, shrink), ("kernels", light, 250, shrink), ("layouts", heavy, 2, None)):
        if not batch:
            continue
        t0 = time.time()
        fr.run_cases(ctx, out, batch, run_mon, to_coq, oracle, failure_key, HEADER, dist_key=dkey,
                     nontrivial=nontrivial, shard=shard, shrink=shr)
        agreements += out.extra.get("model_impl_agreements", 0)
        timing[name] = round(time.time() - t0, 1)
    out.extra["wall_by_batch_s"] = timing
    out.extra["model_impl_agreements"] = agreements
    out.extra["normalize_monitor"] = mon
