"""Variations of the allocation history cases of C02 / C12 (harness/props/alloc_common.py): the classes of inputs that
independent seeded changes exploited - input forms of the public constructor, names, sizes, recorded depths - applied
on top of a generated history.  Every variation keeps the case inside the quantifier of the properties ("all
allocations ...") and leaves the model untouched: the model speaks about values, whichever way they were written."""
import os
import tempfile
from fractions import Fraction as F

from harness.props import alloc_common as ac

# ---- names: prefixes / suffixes of each other, case, underscore-only, YAML-special words, very long ----
NAME_POOLS = [
    ["M1", "M10", "M1_0", "M_1", "M", "M1_"],
    ["_", "__", "_1", "A", "a", "A_"],
    ["null", "y", "true", "n", "on", "no"],            # YAML-special words: valid identifiers (object / list forms only)
    ["N" * 255, "N" * 256, "N" * 257, "N", "NN", "N" * 64],
    ["x0", "x00", "x", "X0", "x0_", "x_0"],
]
TEXT_UNSAFE = 2          # index of the pool that a YAML reader would not return as strings
BAD_NAMES = ["1M", "M-1", "M 1", "", "M1\n", "Mé", "١M", "M.1", "#"]


def rename(cells, pool, rng):
    names = []
    for c in cells:
        for m, _ in c["alloc"]:
            if m not in names:
                names.append(m)
    if len(names) > len(pool):
        return cells
    new = dict(zip(names, rng.sample(pool, len(names))))
    return [dict(c, alloc=[[new[m], q] for m, q in c["alloc"]]) for c in cells]


# ---- input forms of Allocation(stream) ----
def _dec(x):
    """exact decimal text of a dyadic rational (no exponent)"""
    x = F(x)
    if x.denominator == 1:
        return str(x.numerator)
    k = 0
    d = x.denominator
    while d % 2 == 0:
        d //= 2
        k += 1
    assert d == 1, "dyadic values only"
    n = abs(x.numerator) * 5 ** k
    s = str(n).rjust(k + 1, "0")
    return ("-" if x < 0 else "") + s[:-k] + "." + s[-k:]


def _num(x, ints):
    x = F(x)
    if ints and x.denominator == 1:
        return int(x)
    return float(x)


def alloc_tree(cells, ints, short_depth):
    tree = []
    for c in cells:
        r = c["rect"]
        assert not r["fixed"] and not r["hard"] and r.get("loc", "NOPOLY") == "NOPOLY"
        spec = [_num(r[k], ints) for k in ("cx", "cy", "w", "h")] + ([r["region"]] if r["region"] != "_" else [])
        item = [spec, {m: _num(q, ints) for m, q in c["alloc"]}]
        if c["depth"] > 0 or not short_depth:
            item.append(c["depth"])
        tree.append(item)
    return tree


def alloc_text(cells, ints, short_depth):
    lines = []
    for c in cells:
        r = c["rect"]
        nums = [_dec(r[k]) if ints or F(r[k]).denominator != 1 else _dec(r[k]) + ".0" for k in ("cx", "cy", "w", "h")]
        spec = "[" + ", ".join(nums + ([r["region"]] if r["region"] != "_" else [])) + "]"
        al = "{" + ", ".join(f"{m}: {_dec(q) if ints or F(q).denominator != 1 else _dec(q) + '.0'}" for m, q in c["alloc"]) + "}"
        item = [spec, al] + ([str(c["depth"])] if c["depth"] > 0 or not short_depth else [])
        lines.append("  [" + ", ".join(item) + "]")
    return "[\n" + ",\n".join(lines) + "\n]\n"


def build(case):
    """Allocation(...) in the form the case asks for."""
    from frame.allocation.allocation import Allocation
    form = case.get("form", "objects")
    if form == "objects":
        return ac.build_alloc(case["cells"])
    ints, short = bool(case.get("ints")), bool(case.get("short_depth"))
    if form == "lists":
        return Allocation(alloc_tree(case["cells"], ints, short))
    text = alloc_text(case["cells"], ints, short)
    if ": " not in text:          # no occupied cell: the text would be taken for a file name
        return Allocation(alloc_tree(case["cells"], ints, short))
    if form == "yaml":
        return Allocation(text)
    fd, path = tempfile.mkstemp(prefix="alloc_", suffix=".yaml")
    try:
        with os.fdopen(fd, "w") as f:
            f.write(text)
        return Allocation(path)
    finally:
        os.unlink(path)


def to_form(case, form, rng):
    """Rewrite a history case for a non-object input form: the flags cannot be written in those forms, so the cells
    are built unflagged and flagged in place afterwards (as tests/frame/allocation/test_allocation.py does)."""
    cells, pre = [], []
    for i, c in enumerate(case["cells"]):
        r = c["rect"]
        if r["fixed"]:
            pre.append(["setfixed", 0, i, True])
        cells.append(dict(c, rect=dict(r, fixed=False, hard=False, loc="NOPOLY")))
    return dict(case, cells=cells, hops=pre + case["hops"], form=form, ints=rng.random() < 0.6,
                short_depth=rng.random() < 0.7)


# ---- sizes ----
BIG_SIZES = [10, 11, 15, 16, 17, 31, 32, 33, 63, 64, 65, 100, 101]


def gen_big(rng, quick):
    """A layout whose NUMBER of cells sits around 10, 16, 32, 64, 100."""
    n = rng.choice(BIG_SIZES[:9] if quick else BIG_SIZES)
    side = F(16) if n <= 33 else F(32)
    x0, y0 = F(rng.randrange(0, 4), 2), F(rng.randrange(0, 4), 2)
    boxes = ac.guillotine(rng, (x0, y0, x0 + side, y0 + side), n)
    rng.shuffle(boxes)
    mods = ac.MODS[:rng.randrange(2, 6)]
    cells = []
    for b in boxes:
        r = {"cx": (b[0] + b[2]) / 2, "cy": (b[1] + b[3]) / 2, "w": b[2] - b[0], "h": b[3] - b[1],
             "fixed": False, "hard": False, "region": rng.choice(["_", "_", "dsp"]), "loc": "NOPOLY"}
        style = rng.choice(["empty", "single", "multi", "full", "fixed"])
        al = []
        if style == "single":
            al = [[rng.choice(mods), rng.choice(ac.RATIOS[1:])]]
        elif style == "multi":
            al = [[m, rng.choice(ac.RATIOS)] for m in rng.sample(mods, rng.randrange(1, len(mods) + 1))]
        elif style == "full":
            al = [[rng.choice(mods), F(1)]]
        elif style == "fixed":
            r["fixed"] = r["hard"] = True
            al = [["FX", F(1)]]
        cells.append({"rect": r, "alloc": al, "depth": rng.choice([0, 0, 1])})
    k = 0
    hops = []
    t = rng.choice([F(1), F(1, 2), F(3, 4)])
    for _ in range(rng.choice([2, 3, 4])):
        r = rng.random()
        if r < 0.35:
            hops.append(["apply", k, rng.choice([["refine", t, 1], ["uniform"], ["griddify"]])])
        elif r < 0.65:
            hops.append(["setfixed", k, rng.randrange(0, 200), rng.random() < 0.7])
        elif r < 0.85:
            hops.append(["mbr", k, t])
        else:
            hops.append([rng.choice(["numrect", "maxdepth", "areas"]), k])
    hops.append(["apply", k, ["refine", t, 1]])
    return {"kind": f"big-{len(cells)}", "cells": cells, "hops": hops,
            "eps": F(1, 2 ** 20), "aeps": rng.choice([F(1, 2 ** 10), F(0)])}


def gen_sliver2(rng):
    """Near-coincident boundaries: a long cell beside a row of cells whose first (or last) boundary lies within 1% of the
    long cell's thickness from its end - that cut is refused as a sliver - followed by further boundaries that are
    legitimate cuts.  Both axes, slivers at either end, optionally two long cells."""
    h, d = rng.choice([(F(32), F(1, 4)), (F(64), F(1, 2)), (F(16), F(1, 8)), (F(32), F(5, 16)), (F(64), F(5, 8))])
    L = F(rng.choice([8, 10, 12, 16]))
    x0, y0 = F(rng.randrange(0, 4), 2), F(rng.randrange(0, 4), 2)
    cuts = sorted(rng.sample([F(k, 2) for k in range(2, int(L) * 2 - 1)], rng.choice([1, 2, 3])))
    end = rng.choice(["low", "low", "high", "both"])
    marks = [F(0)] + ([d] if end in ("low", "both") else []) + cuts + ([L - d] if end in ("high", "both") else []) + [L]
    th = rng.choice([F(2), F(4), F(1)])
    # in (u, v) coordinates: the long cell is [0, L] x [0, h], the row above it [marks[i], marks[i+1]] x [h, h + th]
    boxes = [(F(0), F(0), L, h)] + [(a, h, b, h + th) for a, b in zip(marks, marks[1:])]
    if rng.random() < 0.3:
        boxes.append((F(0), h + th, L, h + th + h))          # a second long cell on the other side of the row
    if rng.random() < 0.5:                                   # the other axis
        boxes = [(b[1], b[0], b[3], b[2]) for b in boxes]
    mods = ac.MODS[:3]
    cells = []
    for b in boxes:
        r = {"cx": x0 + (b[0] + b[2]) / 2, "cy": y0 + (b[1] + b[3]) / 2, "w": b[2] - b[0], "h": b[3] - b[1],
             "fixed": False, "hard": False, "region": "_", "loc": "NOPOLY"}
        al = [[m, rng.choice(ac.RATIOS[1:])] for m in rng.sample(mods, rng.randrange(0, 3))]
        cells.append({"rect": r, "alloc": al, "depth": rng.choice([0, 0, 1])})
    if not any(c["alloc"] for c in cells):
        cells[0]["alloc"] = [["M1", F(1, 2)]]
    rng.shuffle(cells)
    hops = [["apply", 0, ["griddify"]]]
    r = rng.random()
    if r < 0.3:
        hops += [["setfixed", 0, rng.randrange(0, 16), True], ["apply", 0, ["griddify"]]]
    elif r < 0.5:
        hops += [["apply", 1, ["griddify"]]]
    elif r < 0.7:
        hops = [["apply", 0, ["refine", F(1), 1]], ["apply", 1, ["griddify"]]]
    return {"kind": f"sliver2-{end}", "cells": cells, "hops": hops,
            "eps": F(1, 2 ** 20), "aeps": rng.choice([F(1, 2 ** 10), F(0)])}


# ---- size thresholds x decimal coordinates (oracle only) ----
# The constructor checks all pairs of cells of every refinement result: behaviour that changes above 1000 / 2048 / 4096
# cells AND depends on coordinates that binary64 cannot represent (borders of adjacent cells computed as centre +-
# half side differ by an ulp) is reached only by decimal layouts refined to that many cells.
DEC_SIDES = [F(1, 10), F(3, 10), F(7, 10), F(11, 10), F(7, 100), F(13, 10), F(9, 10), F(17, 100)]
DEC_RATIOS = [F(1, 10), F(3, 10), F(1, 2), F(6, 10), F(7, 10), F(9, 10)]
BIGDEC_QUICK = [(1026, "refine"), (1025, "uniform"), (1024, "griddify")]
BIGDEC_TARGETS = [1000, 1001, 1002, 1024, 1026, 1056, 1100, 1001, 2048, 4100]


def _dec_cell(x0, y0, w, h, al, depth=0, fixed=False):
    return {"rect": {"cx": x0 + w / 2, "cy": y0 + h / 2, "w": w, "h": h, "fixed": fixed, "hard": fixed, "region": "_",
                     "loc": "NOPOLY"}, "alloc": al, "depth": depth}


EXACT_SIDES = [F(1, 4), F(3), F(5, 8)]          # the size alone (thorough tier): the same results from representable sides


def gen_big_decimal(rng, target, op, follow=True, exact=False):
    """A decimal layout (cell sides 0.1, 0.3, 0.7, 1.1 ...) and ONE operation whose result has `target` cells
    (griddify: the nearest product of two factors), optionally followed by another operation on the large result."""
    sides = EXACT_SIDES if exact else DEC_SIDES
    s, s2 = rng.choice(sides), rng.choice(sides)
    if rng.random() < 0.5:
        s2 = s
    ox, oy = rng.choice([F(0), F(0), s, F(1, 10), F(23, 10)]), rng.choice([F(0), F(0), s2, F(3, 10)])
    t = rng.choice([F(6, 10), F(1, 2), F(7, 10)])
    low = lambda: [[m, rng.choice([q for q in DEC_RATIOS if q <= t])] for m in rng.sample(ac.MODS[:4], rng.choice([1, 2, 2, 3]))]
    high = lambda: [[rng.choice(ac.MODS[:3]), rng.choice([q for q in DEC_RATIOS if q > t] + [F(1)])]] + \
                   ([[rng.choice(["a_b", "Z9"]), F(1, 10)]] if rng.random() < 0.3 else [])
    cells, ops = [], []
    if op == "refine":
        # n cells in a grid, m of them selected by the threshold: n + m (2^L - 1) = target
        choices = []
        for L in range(1, 11):
            for m in range(1, target // (2 ** L) + 1):
                n = target - m * (2 ** L - 1)
                if m <= n <= max(m + 8, 12) and n <= 160:
                    choices.append((L, m, n))
        L, m, n = rng.choice(choices)
        cols = max(1, int(n ** 0.5) + rng.choice([0, 1, 2]))
        sel = set(rng.sample(range(n), m))
        for i in range(n):
            al = low() if i in sel else (high() if rng.random() < 0.7 else [])
            fixed = i not in sel and rng.random() < 0.15
            cells.append(_dec_cell(ox + s * (i % cols), oy + s2 * (i // cols), s, s2, [["FX", F(1)]] if fixed else al,
                                   rng.choice([0, 0, 1]), fixed))
        if not any(c["alloc"] for c in cells):
            cells[0]["alloc"] = low()
        ops = [["refine", t, L]]
    elif op == "uniform":
        # a cell at depth md - j for every set bit j of target (each becomes 2^j cells), md around 10
        odd = target if target % 2 else target - 1
        bits = [j for j in range(odd.bit_length()) if odd >> j & 1] + ([] if target % 2 else [0])
        md = max(bits) + rng.choice([0, 0, 1, 3])
        if rng.random() < 0.5 and max(bits) >= 2:       # split the largest share over two or four cells
            k = rng.choice([1, 2])
            bits = [b for b in bits if b != max(bits)] + [max(bits) - k] * 2 ** k
        rng.shuffle(bits)
        cols = rng.choice([1, 2, 3, 4])
        for i, j in enumerate(bits):
            cells.append(_dec_cell(ox + s * (i % cols), oy + s2 * (i // cols), s, s2,
                                   low() if rng.random() < 0.8 else [], md - j))
        if not any(c["alloc"] for c in cells):
            cells[0]["alloc"] = low()
        ops = [["uniform"]]
    else:
        # a large cell, a row of nx cells above it and a column of ny cells beside it: (nx + 1) (ny + 1) cells
        best = None
        for nx in range(20, 70):
            ny = max(20, round(target / (nx + 1)) - 1)
            if ny <= 70 and (best is None or abs((nx + 1) * (ny + 1) - target) < abs((best[0] + 1) * (best[1] + 1) - target)
                             or abs((nx + 1) * (ny + 1) - target) == abs((best[0] + 1) * (best[1] + 1) - target) and rng.random() < 0.3):
                best = (nx, ny)
        nx, ny = best
        if s2 * 10 > s * 16:          # the cuts of the large cell at spacing s must not be slivers of its height (1% rule)
            s2 = s
        wide = rng.random() < 0.4                         # some cells of the row / column twice as wide
        ws = [s * (2 if wide and rng.random() < 0.2 else 1) for _ in range(nx)]
        hs = [s2 * (2 if wide and rng.random() < 0.2 else 1) for _ in range(ny)]
        W, H = sum(ws), sum(hs)
        cells.append(_dec_cell(ox, oy, W, H, low()))
        x = ox
        for w in ws:
            cells.append(_dec_cell(x, oy + H, w, s2, low() if rng.random() < 0.5 else high()))
            x += w
        y = oy
        for h in hs:
            cells.append(_dec_cell(ox + W, y, s, h, low() if rng.random() < 0.5 else []))
            y += h
        cells.append(_dec_cell(ox + W, oy + H, s, s2, high()))
        ops = [["griddify"]]
    rng.shuffle(cells)
    if follow and rng.random() < 0.25 and target <= 1100:
        ops.append(rng.choice([["griddify"], ["uniform"], ["refine", F(0), 1], ["refine", t, 1]]))
    return {"kind": f"{'exact' if exact else 'decimal'}-big-{op}", "stream": "decimal", "big": 2 * target + 200, "cells": cells, "ops": ops,
            "ths": [F(0), t, F(1)] if len(cells) <= 100 else [], "eps": None, "aeps": None}


# ---- the 1% rule against pieces that change during griddify ----
# (W, d, [c ...]): a cell W wide, a line at distance d from its side with d <= 1% of W (exempt for the whole cell) and
# perpendicular cuts at c with d > 1% of c (due for the piece c wide).  The float 0.01 is a little above 1/100; no tie.
SLIVER3 = [(F(128), F(1), [16, 32, 64]), (F(128), F(5, 4), [16, 32, 64, 96]), (F(128), F(1, 2), [16, 32]),
           (F(64), F(1, 2), [8, 16, 32]), (F(64), F(5, 8), [8, 16, 32, 48]), (F(256), F(2), [32, 64, 128]),
           (F(256), F(5, 2), [64, 128, 192]), (F(256), F(1), [32, 64]), (F(32), F(1, 4), [4, 8, 16]),
           (F(100), F(1), [20, 25, 50, 75]), (F(100), F(1, 2), [20, 25, 10])]
SLIVER3_KINDS = ["piece", "piece", "piece", "piece-T", "piece-T", "pair", "pair-T", "piece-kept"]


def gen_sliver3(rng, idx=None):
    """Layouts on which the sliver rule gives another answer for a PIECE than for the cell it was cut from.
    'piece': a wide cell A, a flat neighbour B beside one end of it whose side is a line y within 1% of A's width from
    A's bottom or top (no cut of A as a whole), and a cell C above or below A whose side cuts A at x = c into a piece
    narrow enough for the same line to be a due cut: griddify applies the x cuts first, so the piece must be cut at y.
    'piece-T' is the transposed layout (the sliver line is an x line, tried BEFORE the y cut: it stays).
    'pair': two lines closer to each other than 1% of the other side in the middle of a cell: the first is cut, the
    second is then a sliver of the piece although it is none of the cell.  'piece-kept': 'piece' plus a cell in which
    the line is a due cut anyway.  Systematic over kind x (W, d) x position of the perpendicular cut x side of the sliver."""
    i = rng.randrange(10 ** 6) if idx is None else idx
    kind = SLIVER3_KINDS[i % len(SLIVER3_KINDS)]
    W, d, cs = SLIVER3[(i // len(SLIVER3_KINDS) + i) % len(SLIVER3)]
    H = F(rng.choice([8, 10, 16, 12]))
    bw, ch = F(rng.choice([4, 10, 16])), F(rng.choice([4, 10, 8]))
    mods = ac.MODS[:3]
    boxes = []          # (x0, y0, x1, y1, role)
    if kind.startswith("pair"):
        # A = [0, L] x [0, h]; above it a row with boundaries p and p + dd, dd <= 1% of h < p, L - p - dd
        h, dd = rng.choice([(F(32), F(1, 4)), (F(64), F(1, 2)), (F(16), F(1, 8)), (F(64), F(5, 8))])
        L = F(rng.choice([8, 12, 16]))
        p = F(rng.randrange(2, int(L) * 2 - 3), 2)
        marks = [F(0), p, p + dd, L]
        if rng.random() < 0.4:
            marks = sorted(set(marks + [F(rng.randrange(2, int(L) * 2 - 2), 2) for _ in range(rng.choice([1, 2]))]))
        boxes = [(F(0), F(0), L, h, "A")] + [(a, h, b, h + ch, "R") for a, b in zip(marks, marks[1:])]
        if rng.random() < 0.3:
            boxes.append((L, F(0), L + bw, h / 2, "S"))
            boxes.append((L, h / 2, L + bw, h, "S"))
    else:
        side = rng.choice(["low", "low", "high", "both"])
        bx = rng.choice(["right", "right", "left"])
        cpos = rng.choice(["above", "above", "below"])
        ax0 = bw if bx == "left" else F(0)
        ay0 = ch if cpos == "below" else F(0)
        boxes.append((ax0, ay0, ax0 + W, ay0 + H, "A"))
        b0, b1 = (F(0), bw) if bx == "left" else (W, W + bw)
        spans = {"low": [(ay0, ay0 + d)], "high": [(ay0 + H - d, ay0 + H)],
                 "both": [(ay0, ay0 + d), (ay0 + H - d, ay0 + H)]}[side]
        for y0, y1 in spans:
            boxes.append((b0, y0, b1, y1, "B"))
        if rng.random() < 0.4 and side != "both":       # the rest of B's column
            y0, y1 = (ay0 + d, ay0 + H) if side == "low" else (ay0, ay0 + H - d)
            boxes.append((b0, y0, b1, y1, "D"))
        cuts = sorted(rng.sample(cs, rng.choice([1, 1, 2]) if len(cs) > 1 else 1))
        cy0, cy1 = (F(0), ch) if cpos == "below" else (ay0 + H, ay0 + H + ch)
        r = rng.random()
        if r < 0.4:          # C over the left end
            boxes.append((ax0, cy0, ax0 + cuts[0], cy1, "C"))
            if len(cuts) > 1:
                boxes.append((ax0 + cuts[0], cy0, ax0 + cuts[1], cy1, "C"))
        elif r < 0.7:        # C over the right end
            boxes.append((ax0 + cuts[-1], cy0, ax0 + W, cy1, "C"))
            if len(cuts) > 1:
                boxes.append((ax0 + cuts[0], cy0, ax0 + cuts[1], cy1, "C"))
        else:                # a row of cells over the whole of A
            marks = [F(0)] + [F(c) for c in cuts] + [W]
            boxes += [(ax0 + a, cy0, ax0 + b, cy1, "C") for a, b in zip(marks, marks[1:])]
        if kind == "piece-kept":
            e0 = max(b[2] for b in boxes)
            boxes.append((e0, ay0, e0 + 4, ay0 + H, "E"))
    if kind.endswith("-T"):
        boxes = [(b[1], b[0], b[3], b[2], b[4]) for b in boxes]
    x0, y0 = F(rng.randrange(0, 4), 2), F(rng.randrange(0, 4), 2)
    cells = []
    for b in boxes:
        r = {"cx": x0 + (b[0] + b[2]) / 2, "cy": y0 + (b[1] + b[3]) / 2, "w": b[2] - b[0], "h": b[3] - b[1],
             "fixed": False, "hard": False, "region": "_", "loc": "NOPOLY"}
        al = [[m, rng.choice(ac.RATIOS[1:])] for m in rng.sample(mods, rng.randrange(0, 3))]
        if b[4] == "A" and not al:
            al = [["M1", F(1, 2)]]
        if b[4] in ("B", "C", "R") and rng.random() < 0.15:      # the neighbour defining a line may be a fixed cell
            r["fixed"] = r["hard"] = True
            al = [["FX", F(1)]]
        cells.append({"rect": r, "alloc": al, "depth": rng.choice([0, 0, 1])})
    rng.shuffle(cells)
    hops = [["apply", 0, ["griddify"]]]
    r = rng.random()
    if r < 0.25:
        hops += [["apply", 1, ["griddify"]]]                    # the gridded allocation gridded again
    elif r < 0.4:
        hops = [["mbr", 0, F(1)], ["apply", 0, ["griddify"]], ["apply", 0, ["griddify"]]]
    elif r < 0.55:
        hops = [["apply", 0, ["refine", F(1), 1]], ["apply", 1, ["griddify"]], ["apply", 0, ["griddify"]]]
    elif r < 0.65:
        hops += [["setfixed", 0, rng.randrange(0, 16), True], ["apply", 0, ["griddify"]]]
    return {"kind": f"sliver3-{kind}", "cells": cells, "hops": hops,
            "eps": F(1, 2 ** 20), "aeps": rng.choice([F(1, 2 ** 10), F(0)])}


# ---- layouts that do not tile their bounding box ----
# C02 / C12 quantify over all non-overlapping cell layouts: nothing says the cells fill a rectangle.  The guillotine
# generators only leave holes by dropping cells of a partition, so the boundaries of the remaining cells stay those of
# a partition.  Here the rows / columns themselves are shifted against each other (running bond, stairs, rows of other
# brick sizes), cells are separated by gaps, or the union is L-shaped / a pinwheel around a hole; with EQUAL shapes
# (every cell w x h: "looks like a regular grid" by shape, is none by position) and with unequal ones; regular grids
# with holes and L-shaped unions of aligned equal squares are the controls on which griddify has nothing to cut.
NONTILING_KINDS = ["brick-rows", "brick-cols", "stair", "brick-gaps", "brick-mixed", "L", "pinwheel", "grid-holes",
                   "brick-rows", "stair-T", "brick-gaps-T", "brick-mixed-T", "L-equal", "brick-sliver"]
BRICKS = [(F(2), F(1)), (F(4), F(2)), (F(1), F(1)), (F(3), F(1)), (F(2), F(2)), (F(3, 2), F(1, 2)), (F(8), F(1)), (F(1), F(2)),
          (F(4), F(4)), (F(5, 2), F(1))]


def nontiling_boxes(rng, kind):
    """(boxes, equal): the cells of a layout of the kind (origin at 0, 0) and whether all have the same shape"""
    w, h = rng.choice(BRICKS)
    shifts = [F(k, 4) for k in range(1, int(w * 4))]
    s = rng.choice([w / 2, w / 2, w / 4, rng.choice(shifts), rng.choice(shifts)])
    base = kind[:-2] if kind.endswith("-T") else kind
    boxes, equal = [], True
    if base in ("brick-rows", "brick-cols"):
        # running bond: every other row starts s further right
        rows, per = rng.choice([2, 2, 3, 4]), rng.choice([1, 2, 2, 3])
        boxes = [((j % 2) * s + i * w, j * h, (j % 2) * s + (i + 1) * w, (j + 1) * h)
                 for j in range(rows) for i in range(per if j % 2 == 0 or rng.random() < 0.6 else max(per - 1, 1))]
    elif base == "stair":
        rows, per = rng.choice([2, 3, 4, 5]), rng.choice([1, 1, 2])
        boxes = [(j * s + i * w, j * h, j * s + (i + 1) * w, (j + 1) * h) for j in range(rows) for i in range(per)]
    elif base == "brick-gaps":
        # gaps inside the rows and between them, every row with its own offset
        rows, per = rng.choice([2, 3, 3]), rng.choice([2, 2, 3])
        g, gy = rng.choice([F(1, 4), F(1, 2), F(1), w]), rng.choice([F(0), F(0), F(1, 2), h])
        for j in range(rows):
            off = rng.choice([F(0), s, s, g, rng.choice(shifts)])
            boxes += [(off + i * (w + g), j * (h + gy), off + i * (w + g) + w, j * (h + gy) + h) for i in range(per)
                      if rng.random() < 0.85]
    elif base == "brick-mixed":
        # every row its own brick width (and height): unequal shapes, shifted rows, ragged right end
        y = F(0)
        for j in range(rng.choice([2, 3, 3, 4])):
            wj, hj = rng.choice(BRICKS)
            off = rng.choice([F(0), F(0), s, F(1, 2), F(3, 4)])
            boxes += [(off + i * wj, y, off + (i + 1) * wj, y + hj) for i in range(rng.choice([1, 2, 3]))]
            y += hj
        equal = False
    elif base == "L":
        # A with a lower neighbour to the right and a narrower one on top: an L-shaped / stepped union
        a, b = F(rng.choice([4, 6, 8])), F(rng.choice([4, 6, 8]))
        c, d = F(rng.choice([1, 2, 3])), F(rng.randrange(1, int(b) * 2), 2)
        e, f = F(rng.randrange(1, int(a) * 2), 2), F(rng.choice([1, 2, 3]))
        boxes = [(F(0), F(0), a, b), (a, F(0), a + c, d), (F(0), b, e, b + f)]
        if rng.random() < 0.5:
            boxes.append((a + c, F(0), a + 2 * c, d / 2))
        if rng.random() < 0.3:
            boxes[0:1] = [(F(0), F(0), a / 2, b), (a / 2, F(0), a, b)]
        equal = False
    elif base == "L-equal":
        # control: aligned equal cells whose union is an L / a staircase (nothing to cut)
        n = rng.choice([2, 3, 4])
        boxes = [(i * w, j * h, (i + 1) * w, (j + 1) * h) for j in range(n) for i in range(n - j)]
    elif base == "pinwheel":
        # four w x h / h x w cells around a hole (equal up to rotation; equal when w = h is excluded)
        if w == h:
            w = 2 * h
        boxes = [(F(0), F(0), w, h), (w, F(0), w + h, w), (h, w, w + h, w + h), (F(0), h, h, w + h)]
        equal = False
    elif base == "grid-holes":
        # control: a regular grid of equal cells with holes
        nx, ny = rng.choice([2, 3, 4]), rng.choice([2, 3])
        boxes = [(i * w, j * h, (i + 1) * w, (j + 1) * h) for j in range(ny) for i in range(nx)]
        keep = [b for b in boxes if rng.random() < 0.65]
        boxes = keep if len(keep) >= 2 else boxes[:1] + boxes[-1:]
    else:
        # brick-sliver: equal bricks, the rows shifted by less than 1% of the brick's height (the shifted boundary is an
        # exempt sliver cut) or by just more (a due cut)
        W, H, dd = rng.choice([(F(2), F(64), F(1, 2)), (F(4), F(128), F(1)), (F(2), F(64), F(3, 4)), (F(4), F(128), F(3, 2)),
                               (F(1), F(32), F(1, 4)), (F(1), F(32), F(1, 2))])
        per = rng.choice([1, 2])
        boxes = [((j % 2) * dd + i * W, j * H, (j % 2) * dd + (i + 1) * W, (j + 1) * H)
                 for j in range(rng.choice([2, 3])) for i in range(per)]
    if len(boxes) < 2:
        boxes = [(F(0), F(0), w, h), (s, h, s + w, 2 * h)]
    boxes = boxes[:12]
    if base == "brick-cols" or kind.endswith("-T"):
        boxes = [(b[1], b[0], b[3], b[2]) for b in boxes]
    return boxes, equal


def gen_nontiling(rng, idx=None):
    """A layout that does not tile its bounding box (see NONTILING_KINDS) under refine / uniform / griddify: half of the
    cases as chains on fresh objects (must_be_refined probed around every operation), half as histories on shared
    objects (gridded twice, after a refine / uniform, after a flag set in place; input forms by vary)."""
    i = rng.randrange(10 ** 6) if idx is None else idx
    kind = NONTILING_KINDS[i % len(NONTILING_KINDS)]
    boxes, equal = nontiling_boxes(rng, kind)
    x0, y0 = F(rng.randrange(0, 6), 2), F(rng.randrange(0, 6), 2)
    mods = ac.MODS[:3]
    same_depth = rng.random() < 0.5
    cells = []
    for b in boxes:
        r = {"cx": x0 + (b[0] + b[2]) / 2, "cy": y0 + (b[1] + b[3]) / 2, "w": b[2] - b[0], "h": b[3] - b[1],
             "fixed": False, "hard": False, "region": rng.choice(["_", "_", "_", "dsp"]), "loc": "NOPOLY"}
        al = [[m, rng.choice(ac.RATIOS[1:])] for m in rng.sample(mods, rng.randrange(0, 3))]
        if rng.random() < 0.1:
            r["fixed"] = r["hard"] = True
            al = [["FX", F(1)]]
        cells.append({"rect": r, "alloc": al, "depth": 0 if same_depth else rng.choice([0, 0, 1, 2])})
    if not any(c["alloc"] and not c["rect"]["fixed"] for c in cells):
        cells[0] = dict(cells[0], rect=dict(cells[0]["rect"], fixed=False, hard=False), alloc=[["M1", F(1, 2)]])
    rng.shuffle(cells)
    ratios = [q for c in cells for _, q in c["alloc"]]
    t = rng.choice([F(1), F(1), F(1, 2), rng.choice(ratios)])
    tag = f"nontiling-{kind}{'-eq' if equal else ''}"
    eps, aeps = F(1, 2 ** 20), rng.choice([F(1, 2 ** 10), F(0)])
    if (i // len(NONTILING_KINDS)) % 2 == 0:
        ops = rng.choice([[["griddify"]], [["griddify"]], [["griddify"], ["griddify"]], [["uniform"], ["griddify"]],
                          [["refine", t, 1], ["griddify"]], [["griddify"], ["refine", t, rng.choice([1, 2])]],
                          [["griddify"], ["uniform"]], [["uniform"]], [["refine", t, rng.choice([1, 2, 3])]]])
        return {"kind": tag, "cells": cells, "ops": ops, "ths": [F(0), F(1, 4), F(1, 2), F(1), t], "eps": eps, "aeps": aeps}
    hops = rng.choice([
        [["apply", 0, ["griddify"]]],
        [["apply", 0, ["griddify"]], ["apply", 1, ["griddify"]]],
        [["mbr", 0, t], ["apply", 0, ["griddify"]], ["mbr", 1, t], ["apply", 1, ["refine", t, 1]]],
        [["apply", 0, ["uniform"]], ["apply", 1, ["griddify"]], ["apply", 0, ["griddify"]]],
        [["apply", 0, ["refine", t, 1]], ["apply", 1, ["griddify"]], ["apply", 0, ["griddify"]]],
        [["apply", 0, ["griddify"]], ["setfixed", 0, rng.randrange(0, 16), True], ["apply", 0, ["griddify"]],
         ["setfixed", 0, rng.randrange(0, 16), False], ["apply", 0, ["griddify"]]],
        [["numrect", 0], ["apply", 0, ["griddify"]], ["numrect", 1], ["areas", 1], ["apply", 1, ["uniform"]]],
        [["copy", 0], ["apply", 1, ["griddify"]], ["apply", 0, ["griddify"]]],
        [["mbr", 0, t], ["apply", 0, ["refine", t, 2]], ["apply", 0, ["uniform"]], ["apply", 1, ["uniform"]]],
    ])
    return {"kind": tag, "cells": cells, "hops": hops, "eps": eps, "aeps": aeps}


def vary(rng, case):
    """Apply (independently, each with a small probability) the variations to a generated history case."""
    tags = []
    cells = case["cells"]
    pool_i = None
    if rng.random() < 0.25:
        pool_i = rng.randrange(len(NAME_POOLS))
        cells = rename(cells, NAME_POOLS[pool_i], rng)
        tags.append(f"names{pool_i}")
    if rng.random() < 0.15:
        off = rng.choice([7, 8, 9, 14, 15, 16, 30, 62, 98])       # recorded depths around 9/10, 15/16, 32, 64, 100
        cells = [dict(c, depth=c["depth"] + off) for c in cells]
        tags.append("deep")
    case = dict(case, cells=cells)
    r = rng.random()
    if r < 0.45:
        form = "lists" if r < 0.15 or pool_i == TEXT_UNSAFE else ("yaml" if r < 0.35 else "file")
        case = to_form(case, form, rng)
        tags.append(form)
    if rng.random() < 0.015:
        # outside the valid allocations: a bad module name or a cell leaving the positive quadrant -> the constructor rejects
        cells = [dict(c) for c in case["cells"]]
        occupied = [i for i, c in enumerate(cells) if c["alloc"]]
        if occupied and rng.random() < 0.6 and case.get("form", "objects") in ("objects", "lists"):
            i = rng.choice(occupied)
            cells[i] = dict(cells[i], alloc=[[rng.choice(BAD_NAMES), cells[i]["alloc"][0][1]]] + cells[i]["alloc"][1:])
            tags.append("badname")
        else:
            dx = max(ac.cbox(c)[0] for c in cells) + F(1, 4)
            cells = [dict(c, rect=dict(c["rect"], cx=c["rect"]["cx"] - dx)) for c in cells]
            tags.append("negative")
        case = dict(case, cells=cells)
    if tags:
        case = dict(case, kind=case["kind"] + "/" + "+".join(tags))
    return case
