"""Variations of the allocation history cases of C02 / C12 (harness/props/alloc_common.py): the classes of inputs that
independent seeded changes exploited - input forms of the public constructor, names, sizes, recorded depths - applied
on top of a generated history.  Every variation keeps the case inside the quantifier of the properties ("all
allocations ...") and leaves the model untouched: the model speaks about values, whichever way they were written."""
import os
import tempfile
from fractions import Fraction as F

from harness.props import alloc_common as ac

# ---- names: prefixes / suffixes of each other, case, underscore-only, YAML-special words, very long ----
NAME_POOLS = [
    ["M1", "M10", "M1_0", "M_1", "M", "M1_"],
    ["_", "__", "_1", "A", "a", "A_"],
    ["null", "y", "true", "n", "on", "no"],            # YAML-special words: valid identifiers (object / list forms only)
    ["N" * 255, "N" * 256, "N" * 257, "N", "NN", "N" * 64],
    ["x0", "x00", "x", "X0", "x0_", "x_0"],
]
TEXT_UNSAFE = 2          # index of the pool that a YAML reader would not return as strings
BAD_NAMES = ["1M", "M-1", "M 1", "", "M1\n", "Mé", "١M", "M.1", "#"]


def rename(cells, pool, rng):
    names = []
    for c in cells:
        for m, _ in c["alloc"]:
            if m not in names:
                names.append(m)
    if len(names) > len(pool):
        return cells
    new = dict(zip(names, rng.sample(pool, len(names))))
    return [dict(c, alloc=[[new[m], q] for m, q in c["alloc"]]) for c in cells]


# ---- input forms of Allocation(stream) ----
def _dec(x):
    """exact decimal text of a dyadic rational (no exponent)"""
    x = F(x)
    if x.denominator == 1:
        return str(x.numerator)
    k = 0
    d = x.denominator
    while d % 2 == 0:
        d //= 2
        k += 1
    assert d == 1, "dyadic values only"
    n = abs(x.numerator) * 5 ** k
    s = str(n).rjust(k + 1, "0")
    return ("-" if x < 0 else "") + s[:-k] + "." + s[-k:]


def _num(x, ints):
    x = F(x)
    if ints and x.denominator == 1:
        return int(x)
    return float(x)


def alloc_tree(cells, ints, short_depth):
    tree = []
    for c in cells:
        r = c["rect"]
        assert not r["fixed"] and not r["hard"] and r.get("loc", "NOPOLY") == "NOPOLY"
        spec = [_num(r[k], ints) for k in ("cx", "cy", "w", "h")] + ([r["region"]] if r["region"] != "_" else [])
        item = [spec, {m: _num(q, ints) for m, q in c["alloc"]}]
        if c["depth"] > 0 or not short_depth:
            item.append(c["depth"])
        tree.append(item)
    return tree


def alloc_text(cells, ints, short_depth):
    lines = []
    for c in cells:
        r = c["rect"]
        nums = [_dec(r[k]) if ints or F(r[k]).denominator != 1 else _dec(r[k]) + ".0" for k in ("cx", "cy", "w", "h")]
        spec = "[" + ", ".join(nums + ([r["region"]] if r["region"] != "_" else [])) + "]"
        al = "{" + ", ".join(f"{m}: {_dec(q) if ints or F(q).denominator != 1 else _dec(q) + '.0'}" for m, q in c["alloc"]) + "}"
        item = [spec, al] + ([str(c["depth"])] if c["depth"] > 0 or not short_depth else [])
        lines.append("  [" + ", ".join(item) + "]")
    return "[\n" + ",\n".join(lines) + "\n]\n"


def build(case):
    """Allocation(...) in the form the case asks for."""
    from frame.allocation.allocation import Allocation
    form = case.get("form", "objects")
    if form == "objects":
        return ac.build_alloc(case["cells"])
    ints, short = bool(case.get("ints")), bool(case.get("short_depth"))
    if form == "lists":
        return Allocation(alloc_tree(case["cells"], ints, short))
    text = alloc_text(case["cells"], ints, short)
    if ": " not in text:          # no occupied cell: the text would be taken for a file name
        return Allocation(alloc_tree(case["cells"], ints, short))
    if form == "yaml":
        return Allocation(text)
    fd, path = tempfile.mkstemp(prefix="alloc_", suffix=".yaml")
    try:
        with os.fdopen(fd, "w") as f:
            f.write(text)
        return Allocation(path)
    finally:
        os.unlink(path)


def to_form(case, form, rng):
    """Rewrite a history case for a non-object input form: the flags cannot be written in those forms, so the cells
    are built unflagged and flagged in place afterwards (as tests/frame/allocation/test_allocation.py does)."""
    cells, pre = [], []
    for i, c in enumerate(case["cells"]):
        r = c["rect"]
        if r["fixed"]:
            pre.append(["setfixed", 0, i, True])
        cells.append(dict(c, rect=dict(r, fixed=False, hard=False, loc="NOPOLY")))
    return dict(case, cells=cells, hops=pre + case["hops"], form=form, ints=rng.random() < 0.6,
                short_depth=rng.random() < 0.7)


# ---- sizes ----
BIG_SIZES = [10, 11, 15, 16, 17, 31, 32, 33, 63, 64, 65, 100, 101]


def gen_big(rng, quick):
    """A layout whose NUMBER of cells sits around 10, 16, 32, 64, 100."""
    n = rng.choice(BIG_SIZES[:9] if quick else BIG_SIZES)
    side = F(16) if n <= 33 else F(32)
    x0, y0 = F(rng.randrange(0, 4), 2), F(rng.randrange(0, 4), 2)
    boxes = ac.guillotine(rng, (x0, y0, x0 + side, y0 + side), n)
    rng.shuffle(boxes)
    mods = ac.MODS[:rng.randrange(2, 6)]
    cells = []
    for b in boxes:
        r = {"cx": (b[0] + b[2]) / 2, "cy": (b[1] + b[3]) / 2, "w": b[2] - b[0], "h": b[3] - b[1],
             "fixed": False, "hard": False, "region": rng.choice(["_", "_", "dsp"]), "loc": "NOPOLY"}
        style = rng.choice(["empty", "single", "multi", "full", "fixed"])
        al = []
        if style == "single":
            al = [[rng.choice(mods), rng.choice(ac.RATIOS[1:])]]
        elif style == "multi":
            al = [[m, rng.choice(ac.RATIOS)] for m in rng.sample(mods, rng.randrange(1, len(mods) + 1))]
        elif style == "full":
            al = [[rng.choice(mods), F(1)]]
        elif style == "fixed":
            r["fixed"] = r["hard"] = True
            al = [["FX", F(1)]]
        cells.append({"rect": r, "alloc": al, "depth": rng.choice([0, 0, 1])})
    k = 0
    hops = []
    t = rng.choice([F(1), F(1, 2), F(3, 4)])
    for _ in range(rng.choice([2, 3, 4])):
        r = rng.random()
        if r < 0.35:
            hops.append(["apply", k, rng.choice([["refine", t, 1], ["uniform"], ["griddify"]])])
        elif r < 0.65:
            hops.append(["setfixed", k, rng.randrange(0, 200), rng.random() < 0.7])
        elif r < 0.85:
            hops.append(["mbr", k, t])
        else:
            hops.append([rng.choice(["numrect", "maxdepth", "areas"]), k])
    hops.append(["apply", k, ["refine", t, 1]])
    return {"kind": f"big-{len(cells)}", "cells": cells, "hops": hops,
            "eps": F(1, 2 ** 20), "aeps": rng.choice([F(1, 2 ** 10), F(0)])}


def gen_sliver2(rng):
    """Near-coincident boundaries: a long cell beside a row of cells whose first (or last) boundary lies within 1% of the
    long cell's thickness from its end - that cut is refused as a sliver - followed by further boundaries that are
    legitimate cuts.  Both axes, slivers at either end, optionally two long cells."""
    h, d = rng.choice([(F(32), F(1, 4)), (F(64), F(1, 2)), (F(16), F(1, 8)), (F(32), F(5, 16)), (F(64), F(5, 8))])
    L = F(rng.choice([8, 10, 12, 16]))
    x0, y0 = F(rng.randrange(0, 4), 2), F(rng.randrange(0, 4), 2)
    cuts = sorted(rng.sample([F(k, 2) for k in range(2, int(L) * 2 - 1)], rng.choice([1, 2, 3])))
    end = rng.choice(["low", "low", "high", "both"])
    marks = [F(0)] + ([d] if end in ("low", "both") else []) + cuts + ([L - d] if end in ("high", "both") else []) + [L]
    th = rng.choice([F(2), F(4), F(1)])
    # in (u, v) coordinates: the long cell is [0, L] x [0, h], the row above it [marks[i], marks[i+1]] x [h, h + th]
    boxes = [(F(0), F(0), L, h)] + [(a, h, b, h + th) for a, b in zip(marks, marks[1:])]
    if rng.random() < 0.3:
        boxes.append((F(0), h + th, L, h + th + h))          # a second long cell on the other side of the row
    if rng.random() < 0.5:                                   # the other axis
        boxes = [(b[1], b[0], b[3], b[2]) for b in boxes]
    mods = ac.MODS[:3]
    cells = []
    for b in boxes:
        r = {"cx": x0 + (b[0] + b[2]) / 2, "cy": y0 + (b[1] + b[3]) / 2, "w": b[2] - b[0], "h": b[3] - b[1],
             "fixed": False, "hard": False, "region": "_", "loc": "NOPOLY"}
        al = [[m, rng.choice(ac.RATIOS[1:])] for m in rng.sample(mods, rng.randrange(0, 3))]
        cells.append({"rect": r, "alloc": al, "depth": rng.choice([0, 0, 1])})
    if not any(c["alloc"] for c in cells):
        cells[0]["alloc"] = [["M1", F(1, 2)]]
    rng.shuffle(cells)
    hops = [["apply", 0, ["griddify"]]]
    r = rng.random()
    if r < 0.3:
        hops += [["setfixed", 0, rng.randrange(0, 16), True], ["apply", 0, ["griddify"]]]
    elif r < 0.5:
        hops += [["apply", 1, ["griddify"]]]
    elif r < 0.7:
        hops = [["apply", 0, ["refine", F(1), 1]], ["apply", 1, ["griddify"]]]
    return {"kind": f"sliver2-{end}", "cells": cells, "hops": hops,
            "eps": F(1, 2 ** 20), "aeps": rng.choice([F(1, 2 ** 10), F(0)])}


def vary(rng, case):
    """Apply (independently, each with a small probability) the variations to a generated history case."""
    tags = []
    cells = case["cells"]
    pool_i = None
    if rng.random() < 0.25:
        pool_i = rng.randrange(len(NAME_POOLS))
        cells = rename(cells, NAME_POOLS[pool_i], rng)
        tags.append(f"names{pool_i}")
    if rng.random() < 0.15:
        off = rng.choice([7, 8, 9, 14, 15, 16, 30, 62, 98])       # recorded depths around 9/10, 15/16, 32, 64, 100
        cells = [dict(c, depth=c["depth"] + off) for c in cells]
        tags.append("deep")
    case = dict(case, cells=cells)
    r = rng.random()
    if r < 0.45:
        form = "lists" if r < 0.15 or pool_i == TEXT_UNSAFE else ("yaml" if r < 0.35 else "file")
        case = to_form(case, form, rng)
        tags.append(form)
    if rng.random() < 0.015:
        # outside the valid allocations: a bad module name or a cell leaving the positive quadrant -> the constructor rejects
        cells = [dict(c) for c in case["cells"]]
        occupied = [i for i, c in enumerate(cells) if c["alloc"]]
        if occupied and rng.random() < 0.6 and case.get("form", "objects") in ("objects", "lists"):
            i = rng.choice(occupied)
            cells[i] = dict(cells[i], alloc=[[rng.choice(BAD_NAMES), cells[i]["alloc"][0][1]]] + cells[i]["alloc"][1:])
            tags.append("badname")
        else:
            dx = max(ac.cbox(c)[0] for c in cells) + F(1, 4)
            cells = [dict(c, rect=dict(c["rect"], cx=c["rect"]["cx"] - dx)) for c in cells]
            tags.append("negative")
        case = dict(case, cells=cells)
    if tags:
        case = dict(case, kind=case["kind"] + "/" + "+".join(tags))
    return case
