"""C15 - Grid orthogon decomposition finds exactly the single-trunk decompositions.

Correspondence: 0/1 matrices (exhaustive for small shapes, random up to 10x10, LARGE grids built
structurally with sides up to 40 / 70 and thin shapes with arms of 63..257 cells, matrices spelled as
text with every separator str.split accepts) go through the real `Strop`; `is_strop` and the
rectangles of every instance (in the order `rectangles()` yields them) are compared exactly with the
Gallina model (`Strop/Strop.v`, `Strop/Text.v`) by vm_compute.
Simple orthogonal polygons - random single-trunk ones and polygons traced from grid shapes, in every
input form `strop_decomposition` accepts (Point with floats / ints, array rows, 2-D arrays of
float64 / float32 / int64 / int32, mixed; both orientations, every start vertex, open / closed;
dyadic, integer, decimal coordinates; negative, straddling 0, a corner exactly at (-1,-1), (0,0) ...
listed last or first; large offsets) - are compared exactly with the Gallina model
(`Strop/Polygon.v`, `Strop/PolygonForms.v`: the returned [cx, cy, w, h] list must be the rectangle
list of one of the model's instances), are loaded as a module and `create_stog` is called (direct
oracle).  `is_point_inside_polygon` is compared with the model's even-odd rule on orthogonal and on
slanted (also self-intersecting) vertex lists, at cell centres, vertices, edge points and generic points.

Direct oracle (independent of the implementation's method): existence of a decomposition by a
polynomial test over row bands (cross-checked on small grids against the brute force over every
trunk rectangle); partition and abutment check of every offered instance; for polygons shoelace
area, sides on vertex coordinates, partition and abutment in grid cells, netlist loading +
create_stog with the trunk first."""
import itertools
from fractions import Fraction as F

from harness import core, fr
from harness.core import gbool, gstr, glist

HEADER = """From Coq Require Import List Bool Arith String ZArith.
From FrameModel Require Import Strop.Strop Cases.CmpC15.
From Coq Require Import NArith.
Import ListNotations.
Open Scope string_scope."""

ASSUMPTIONS = [
    "the iteration order of the Python sets of candidate trunks is unspecified: instances are compared after sorting "
    "by trunk (rows.low, rows.high, columns.low, columns.high); the rectangles of each instance are compared in order",
    "polygon level: strop_decomposition and is_point_inside_polygon are compared exactly with the model Strop/Polygon.v "
    "on dyadic / integer coordinates (slanted edges only between y levels a, a+h, a+2h with h a power of two; float32 "
    "arrays only with mantissas that fit) so that every binary64 / binary32 midpoint, difference, product and quotient is "
    "exact; on decimal coordinates the model computes with the exact values of the binary64 inputs (cells, instances and "
    "rectangle order are not affected by rounding) and the four numbers of each rectangle are compared up to 2^-40; the "
    "instance strop_decomposition returns is the first in Python set order, so its output must equal the rectangle list of "
    "ONE of the model's instances; netlist loading + create_stog: direct oracle only",
    "'recognised ... with the trunk first' is judged on the rectangles the loaded module holds after create_stog: the first "
    "is labelled TRUNK, every other one NORTH / SOUTH / EAST / WEST and it abuts the first on that side within the first's "
    "extent (1e-9 of the largest coordinate allowed); create_stog moves the largest rectangle that can be a trunk to the front, "
    "so for a decomposition whose branch is larger than its trunk this is what tells that the trunk stayed first (L-shape "
    "stream; this implementation decomposes L-shapes with an east, north or south branch, never a west one)",
    "the netlist reader refuses negative numbers: a decomposition reaching below 0 is moved by a whole number of units "
    "before it is loaded (exact for dyadic / integer coordinates; decimal polygons with negative coordinates are not loaded)",
    "decimal polygons keep sides >= 0.3 and coordinates below 128, so binary64 rounding (a few 1e-14) stays below the "
    "tolerance the netlist reader derives from the smallest side (1e-12 x side)",
    "texts that are not a 0/1 grid (other characters, ragged rows, no row) are outside the property: compared with the "
    "model only",
    "the exhaustive sweep theorem is a finite sweep: all 0/1 matrices of every shape with at most the stated number of cells "
    "(completeness for every size is C15_strop_iff)",
]


# --------------------------------------------------------------------------
# independent oracle on grids
# --------------------------------------------------------------------------
_SHAPE_CACHE = {}


def _shape_tables(R, C):
    """For every trunk rectangle of an R x C grid: its cell mask and, for every
    border cell, the ray of cells going outwards (as bit numbers)."""
    key = (R, C)
    if key in _SHAPE_CACHE:
        return _SHAPE_CACHE[key]
    tabs = []
    for r0 in range(R):
        for r1 in range(r0, R):
            for c0 in range(C):
                for c1 in range(c0, C):
                    tm = 0
                    for i in range(r0, r1 + 1):
                        for j in range(c0, c1 + 1):
                            tm |= 1 << (i * C + j)
                    rays = []
                    for j in range(c0, c1 + 1):
                        rays.append([i * C + j for i in range(r0 - 1, -1, -1)])
                        rays.append([i * C + j for i in range(r1 + 1, R)])
                    for i in range(r0, r1 + 1):
                        rays.append([i * C + j for j in range(c0 - 1, -1, -1)])
                        rays.append([i * C + j for j in range(c1 + 1, C)])
                    tabs.append(((r0, r1, c0, c1), tm, [x for x in rays if x]))
    if len(_SHAPE_CACHE) > 64:
        _SHAPE_CACHE.clear()
    _SHAPE_CACHE[key] = tabs
    return tabs


def grid_mask(rows):
    C = len(rows[0])
    ones = 0
    for i, row in enumerate(rows):
        for j, ch in enumerate(row):
            if ch == "1":
                ones |= 1 << (i * C + j)
    return ones


def has_decomp(rows):
    """A trunk for which a decomposition exists, or None: the trunk is all ones and the
    cells reached from it by straight unbroken runs of ones are all the ones."""
    R, C = len(rows), len(rows[0])
    ones = grid_mask(rows)
    for t, tm, rays in _shape_tables(R, C):
        if ones & tm != tm:
            continue
        reach = tm
        for ray in rays:
            for b in ray:
                if not (ones >> b) & 1:
                    break
                reach |= 1 << b
        if reach == ones:
            return t
    return None


def has_decomp_fast(rows):
    """Polynomial version of has_decomp (O(R^2 C)), for grids of any size.  A trunk rows r0..r1,
    columns c0..c1 decomposes the grid iff (a) every row of the band r0..r1 is one unbroken run of
    ones containing c0..c1 (its cells left and right of the trunk are then the west / east
    branches), and (b) every one outside the band lies in a column of c0..c1 and the ones of that
    column above (below) the band form one unbroken run ending at row r0-1 (starting at r1+1).
    Given the band, the narrowest admissible column range is the span of the columns that have
    ones outside the band.  Returns such a trunk or None."""
    R, C = len(rows), len(rows[0])
    m = [[ch == "1" for ch in row] for row in rows]
    span = []                                   # per row: (first, last) if a single non-empty run
    for row in m:
        idx = [j for j, v in enumerate(row) if v]
        span.append((idx[0], idx[-1]) if idx and idx[-1] - idx[0] + 1 == len(idx) else None)
    above = [[0] * C for _ in range(R + 1)]     # above[i][j]: ones of column j in rows < i
    for i in range(R):
        for j in range(C):
            above[i + 1][j] = above[i][j] + (1 if m[i][j] else 0)
    up = [[0] * C for _ in range(R)]            # run of ones ending at (i, j), going up
    down = [[0] * C for _ in range(R)]          # run of ones starting at (i, j), going down
    for i in range(R):
        for j in range(C):
            if m[i][j]:
                up[i][j] = 1 + (up[i - 1][j] if i else 0)
    for i in range(R - 1, -1, -1):
        for j in range(C):
            if m[i][j]:
                down[i][j] = 1 + (down[i + 1][j] if i + 1 < R else 0)
    for r0 in range(R):
        lo, hi = 0, C - 1
        for r1 in range(r0, R):
            if span[r1] is None:
                break                           # every wider band contains this row too
            lo, hi = max(lo, span[r1][0]), min(hi, span[r1][1])
            if lo > hi:
                break
            ok, used = True, []
            for j in range(C):
                a = above[r0][j]
                b = above[R][j] - above[r1 + 1][j]
                if a == 0 and b == 0:
                    continue
                if not (lo <= j <= hi) or (a and up[r0 - 1][j] != a) or (b and down[r1 + 1][j] != b):
                    ok = False
                    break
                used.append(j)
            if ok:
                return (r0, r1, used[0], used[-1]) if used else (r0, r1, lo, hi)
    return None


def check_instance(rows, rects):
    """rects = [trunk, branches...] as (rlo, rhi, clo, chi).  None if they are a single-trunk
    decomposition of the grid, else a description of the defect."""
    R, C = len(rows), len(rows[0])
    if not rects:
        return "instance without rectangles"
    cover = [[0] * C for _ in range(R)]
    for (a, b, c, d) in rects:
        if not (0 <= a <= b < R and 0 <= c <= d < C):
            return f"rectangle {(a, b, c, d)} empty or outside the {R}x{C} grid"
        for i in range(a, b + 1):
            for j in range(c, d + 1):
                cover[i][j] += 1
    for i in range(R):
        for j in range(C):
            want = 1 if rows[i][j] == "1" else 0
            if cover[i][j] != want:
                return f"cell ({i},{j}) is {rows[i][j]} but covered {cover[i][j]} times"
    t0, t1, u0, u1 = rects[0]
    for (a, b, c, d) in rects[1:]:
        ns = u0 <= c and d <= u1 and (b + 1 == t0 or a == t1 + 1)
        ew = t0 <= a and b <= t1 and (d + 1 == u0 or c == u1 + 1)
        if not (ns or ew):
            return f"branch {(a, b, c, d)} does not abut the trunk {rects[0]} on one side within its extent"
    return None


# --------------------------------------------------------------------------
# generators: matrices
# --------------------------------------------------------------------------
def blank(R, C):
    return [[0] * C for _ in range(R)]


def to_rows(m):
    return ["".join("1" if x else "0" for x in row) for row in m]


def gen_strop_matrix(rng, R, C):
    """A single-trunk shape drawn in an R x C grid."""
    m = blank(R, C)
    r0 = rng.randrange(R)
    r1 = rng.randrange(r0, R)
    c0 = rng.randrange(C)
    c1 = rng.randrange(c0, C)
    for i in range(r0, r1 + 1):
        for j in range(c0, c1 + 1):
            m[i][j] = 1
    mode = rng.choice(["runs", "cols", "sparse"])

    def heights(n, room):
        hs, cur = [], 0
        for _ in range(n):
            if mode == "cols" or rng.random() < 0.4:
                cur = rng.randrange(0, room + 1) if rng.random() < (0.3 if mode == "sparse" else 0.8) else 0
            hs.append(cur)
        return hs
    for j, h in zip(range(c0, c1 + 1), heights(c1 - c0 + 1, r0)):
        for i in range(r0 - h, r0):
            m[i][j] = 1
    for j, h in zip(range(c0, c1 + 1), heights(c1 - c0 + 1, R - 1 - r1)):
        for i in range(r1 + 1, r1 + 1 + h):
            m[i][j] = 1
    for i, h in zip(range(r0, r1 + 1), heights(r1 - r0 + 1, c0)):
        for j in range(c0 - h, c0):
            m[i][j] = 1
    for i, h in zip(range(r0, r1 + 1), heights(r1 - r0 + 1, C - 1 - c1)):
        for j in range(c1 + 1, c1 + 1 + h):
            m[i][j] = 1
    return m


def gen_matrix_case(rng):
    R = rng.choice([1, 2, 3, 4, 5, 5, 6, 6, 7, 8, 9, 10])
    C = rng.choice([1, 2, 3, 4, 5, 5, 6, 6, 7, 8, 9, 10])
    kind = rng.choice(["strop", "strop", "strop", "perturbed", "perturbed", "perturbed", "iid", "iid",
                       "hole", "disconnected", "staircase", "full", "ragged"])
    if kind == "strop":
        m = gen_strop_matrix(rng, R, C)
    elif kind == "perturbed":
        m = gen_strop_matrix(rng, R, C)
        for _ in range(rng.choice([1, 1, 2, 3])):
            i, j = rng.randrange(R), rng.randrange(C)
            m[i][j] = 1 - m[i][j]
    elif kind == "iid":
        p = rng.choice([0.15, 0.5, 0.8, 0.93])
        m = [[1 if rng.random() < p else 0 for _ in range(C)] for _ in range(R)]
    elif kind == "hole":
        R, C = max(R, 3), max(C, 3)
        m = [[1] * C for _ in range(R)]
        a = rng.randrange(1, R - 1)
        b = rng.randrange(a, R - 1)
        c = rng.randrange(1, C - 1)
        d = rng.randrange(c, C - 1)
        for i in range(a, b + 1):
            for j in range(c, d + 1):
                m[i][j] = 0
        if rng.random() < 0.5:       # a frame standing in a larger grid / with pieces cut off
            for _ in range(rng.randrange(0, 3)):
                m[rng.randrange(R)][rng.randrange(C)] = 0
    elif kind == "disconnected":
        m = gen_strop_matrix(rng, R, C)
        for _ in range(rng.choice([1, 2])):
            a, c = rng.randrange(R), rng.randrange(C)
            for i in range(a, min(R, a + rng.randrange(1, 3))):
                for j in range(c, min(C, c + rng.randrange(1, 3))):
                    m[i][j] = 1
    elif kind == "staircase":
        m = blank(R, C)
        w = rng.choice([1, 1, 2, 3])
        up = rng.random() < 0.5
        for i in range(R):
            k = i if up else R - 1 - i
            lo = k * rng.choice([1, 1, 2]) if rng.random() < 0.8 else 0
            for j in range(lo, min(C, lo + w + (rng.randrange(0, 2)))):
                m[i][j] = 1
        if rng.random() < 0.5:       # cumulative staircase (a Young diagram)
            for i in range(R):
                for j in range(C):
                    m[i][j] = 1 if j <= (i if up else R - 1 - i) * max(1, C // max(R, 1)) else 0
    elif kind == "full":
        v = rng.choice([0, 1, 1])
        m = [[v] * C for _ in range(R)]
        if rng.random() < 0.5:
            m[rng.randrange(R)][rng.randrange(C)] = 1 - v
    else:   # ragged: one row of another length (the constructor must refuse)
        m = gen_strop_matrix(rng, max(R, 2), C)
        rows = to_rows(m)
        k = rng.randrange(len(rows))
        rows[k] = rows[k] + "1" if rng.random() < 0.5 or len(rows[k]) == 1 else rows[k][:-1]
        return {"kind": "m", "gen": "ragged", "rows": rows}
    return {"kind": "m", "gen": kind, "rows": to_rows(m), "hist": rng.random() < 0.25}


# ---- large grids (size thresholds 9/10, 15/16/17, 31/32/33) ----
SPECIAL = [9, 10, 15, 16, 17, 31, 32, 33]
MAXSIDE = 40


def _reach(rng, room, special=None):
    """Length of the longest branch on a side: 0, short, or one of the threshold lengths that fit."""
    fit = [s for s in (special or SPECIAL) if s <= room]
    k = rng.random()
    if k < 0.2 or room <= 0:
        return 0
    if k < 0.45 or not fit:
        return rng.randrange(1, min(room, 8) + 1)
    return rng.choice(fit)


def _profile(rng, n, reach, style):
    """Heights (0..reach) of the n positions along one side of the trunk; the maximum is reach."""
    if reach == 0 or n == 0:
        return [0] * n
    if style == "comb":          # teeth of distinct heights separated by gaps
        hs = [0] * n
        pool = list(range(1, reach + 1))
        rng.shuffle(pool)
        step = rng.choice([1, 2, 2, 3])
        k = rng.randrange(0, step)
        while k < n and pool:
            hs[k] = pool.pop()
            k += step
    elif style == "ramp":        # staircase 1, 2, 3, ... (up, down or both)
        a = rng.randrange(0, n)
        hs = [max(0, reach - abs(i - a) * rng.choice([1, 1, 2])) for i in range(n)]
        if rng.random() < 0.5:
            hs = [reach - min(reach, abs(i - a)) if i >= a else 0 for i in range(n)]
    elif style == "blocks":      # runs of equal height, also wide ones
        hs, i = [], 0
        while i < n:
            w = rng.choice([1, 1, 2, 3, 5, 9, 15, 16, 17, 33])
            h = rng.choice([0, 0, reach, rng.randrange(0, reach + 1), max(0, reach - 1)])
            hs += [h] * w
            i += w
        hs = hs[:n]
    elif style == "single":
        a = rng.randrange(0, n)
        b = rng.randrange(a, n)
        hs = [reach if a <= i <= b else 0 for i in range(n)]
    else:                        # full
        hs = [reach] * n
    if max(hs) < reach:
        hs[rng.randrange(n)] = reach
    return hs


def gen_large_matrix(rng, MAXSIDE=MAXSIDE, special=None):
    """A single-trunk shape with sides up to MAXSIDE (40): trunk + four side profiles, then possibly a
    perturbation (near miss).  Returns (matrix, description)."""
    nN = _reach(rng, MAXSIDE - 6, special)
    nS = _reach(rng, MAXSIDE - 1 - nN, special)
    nW = _reach(rng, MAXSIDE - 6, special)
    nE = _reach(rng, MAXSIDE - 1 - nW, special)
    th = rng.choice([1, 1, 2, 3, 5, 9, 16, 17, 33])
    tw = rng.choice([1, 1, 2, 3, 5, 9, 16, 17, 33])
    th = max(1, min(th, MAXSIDE - nN - nS))
    tw = max(1, min(tw, MAXSIDE - nW - nE))
    padr = [rng.choice([0, 0, 1]) if nN + nS + th < MAXSIDE - 1 else 0 for _ in range(2)]
    padc = [rng.choice([0, 0, 1]) if nW + nE + tw < MAXSIDE - 1 else 0 for _ in range(2)]
    R = padr[0] + nN + th + nS + padr[1]
    C = padc[0] + nW + tw + nE + padc[1]
    r0, c0 = padr[0] + nN, padc[0] + nW
    r1, c1 = r0 + th - 1, c0 + tw - 1
    style = rng.choice(["comb", "comb", "ramp", "blocks", "blocks", "single", "full", "mixed"])
    st = lambda: rng.choice(["comb", "ramp", "blocks", "single", "full"]) if style == "mixed" else style
    m = [[0] * C for _ in range(R)]
    for i in range(r0, r1 + 1):
        for j in range(c0, c1 + 1):
            m[i][j] = 1
    for j, h in zip(range(c0, c1 + 1), _profile(rng, tw, nN, st())):
        for i in range(r0 - h, r0):
            m[i][j] = 1
    for j, h in zip(range(c0, c1 + 1), _profile(rng, tw, nS, st())):
        for i in range(r1 + 1, r1 + 1 + h):
            m[i][j] = 1
    for i, h in zip(range(r0, r1 + 1), _profile(rng, th, nW, st())):
        for j in range(c0 - h, c0):
            m[i][j] = 1
    for i, h in zip(range(r0, r1 + 1), _profile(rng, th, nE, st())):
        for j in range(c1 + 1, c1 + 1 + h):
            m[i][j] = 1
    pert = rng.choice(["none", "none", "none", "hole", "tip", "corner", "widen", "notch", "flip", "far"])
    ones = [(i, j) for i in range(R) for j in range(C) if m[i][j]]
    zeros = [(i, j) for i in range(R) for j in range(C) if not m[i][j]]
    outside = [(i, j) for (i, j) in ones if not (r0 <= i <= r1 and c0 <= j <= c1)]
    if pert == "hole" and outside:           # a missing cell inside a branch: what lies beyond is cut off
        i, j = rng.choice(outside)
        m[i][j] = 0
    elif pert == "tip" and outside:          # the outermost cell of a branch removed (16 -> 15, 33 -> 32 ...)
        tips = [(i, j) for (i, j) in outside
                if (j >= c0 and j <= c1 and (i < r0 and (i == 0 or not m[i - 1][j]) or i > r1 and (i == R - 1 or not m[i + 1][j])))
                or (i >= r0 and i <= r1 and (j < c0 and (j == 0 or not m[i][j - 1]) or j > c1 and (j == C - 1 or not m[i][j + 1])))]
        if tips:
            i, j = rng.choice(tips)
            m[i][j] = 0
    elif pert == "corner":                   # a cell in a corner quadrant of the trunk
        quad = [(i, j) for (i, j) in zeros if (i < r0 or i > r1) and (j < c0 or j > c1)]
        near = [(i, j) for (i, j) in quad if i in (r0 - 1, r1 + 1) and j in (c0 - 1, c1 + 1)]
        pick = near if near and rng.random() < 0.5 else quad
        if pick:
            i, j = rng.choice(pick)
            m[i][j] = 1
    elif pert == "widen":                    # a cell beside a branch (wider than the trunk / a second arm)
        cand = [(i, j) for (i, j) in zeros
                if any(0 <= i + di < R and 0 <= j + dj < C and m[i + di][j + dj] and not (r0 <= i + di <= r1 and c0 <= j + dj <= c1)
                       for di, dj in ((0, 1), (0, -1), (1, 0), (-1, 0)))]
        if cand:
            i, j = rng.choice(cand)
            m[i][j] = 1
    elif pert == "notch":                    # a cell of the trunk removed
        i, j = rng.randrange(r0, r1 + 1), rng.randrange(c0, c1 + 1)
        m[i][j] = 0
    elif pert == "flip":
        for _ in range(rng.choice([1, 2, 3])):
            i, j = rng.randrange(R), rng.randrange(C)
            m[i][j] = 1 - m[i][j]
    elif pert == "far" and zeros:
        i, j = rng.choice(zeros)
        m[i][j] = 1
    return m, f"large/{style}/{pert}"


LONG = [63, 64, 65, 100, 127, 128, 129, 255, 256, 257]


def gen_long_case(rng):
    """Thin shapes with one very long arm (63 .. 257 cells; the next size thresholds): an L / T / I with a trunk of
    at most 3 x 3 cells, the long arm on one side, short arms (at most 5) elsewhere; left alone, the tip or an inner
    cell of the long arm removed, or a cell added beside it."""
    L = rng.choice(LONG)
    th, tw = rng.choice([1, 1, 2, 3]), rng.choice([1, 1, 2, 3])
    short = lambda: rng.choice([0, 0, 1, 2, 5])
    nN, nS, nW, nE = L, rng.choice([0, 0, 1, 16, 33]), short(), short()
    R, C = nN + th + nS, nW + tw + nE
    r0, c0 = nN, nW
    m = [[0] * C for _ in range(R)]
    for i in range(r0, r0 + th):
        for j in range(c0, c0 + tw):
            m[i][j] = 1
    a = rng.randrange(c0, c0 + tw)
    b = rng.randrange(a, c0 + tw)
    for j in range(a, b + 1):                # the long arm (north), 1 .. tw wide
        for i in range(0, r0):
            m[i][j] = 1
    for j in range(c0, c0 + tw):
        if rng.random() < 0.7:
            for i in range(r0 + th, r0 + th + rng.choice([nS, nS, max(0, nS - 1)])):
                m[i][j] = 1
    for i in range(r0, r0 + th):
        if rng.random() < 0.7:
            for j in range(c0 - nW, c0):
                m[i][j] = 1
        if rng.random() < 0.7:
            for j in range(c0 + tw, c0 + tw + nE):
                m[i][j] = 1
    pert = rng.choice(["none", "none", "tip", "hole", "beside"])
    if pert == "tip":
        m[0][a] = 0
    elif pert == "hole":
        m[rng.randrange(1, r0)][rng.randrange(a, b + 1)] = 0
    elif pert == "beside" and C > 1:
        i = rng.randrange(0, r0)
        j = a - 1 if a > 0 and (b == C - 1 or rng.random() < 0.5) else min(C - 1, b + 1)
        m[i][j] = 1
    k = rng.randrange(4)                     # the four orientations
    if k & 1:
        m = m[::-1]
    if k & 2:
        m = [list(col) for col in zip(*m)]
    return {"kind": "m", "gen": f"large/long{L}/{pert}", "rows": to_rows(m), "hist": rng.random() < 0.5}


def gen_huge_case(rng):
    """The large generator with sides up to 70 and branch lengths 63, 64, 65."""
    m, tag = gen_large_matrix(rng, 70, [63, 64, 65, 33, 17])
    if rng.random() < 0.5:
        m = [list(col) for col in zip(*m)]
    return {"kind": "m", "gen": tag, "rows": to_rows(m), "hist": rng.random() < 0.5}


def gen_large_case(rng):
    m, tag = gen_large_matrix(rng)
    if rng.random() < 0.5:       # the code treats rows and columns by two different routes (transposed table)
        m = [list(col) for col in zip(*m)]
    return {"kind": "m", "gen": tag, "rows": to_rows(m), "hist": rng.random() < 0.5}


# ---- matrices as text ----
# str.isspace, the separators of str.split() without argument (an independent statement of them)
SPACES = [9, 10, 11, 12, 13, 28, 29, 30, 31, 32, 133, 160, 5760] + list(range(8192, 8203)) + [8232, 8233, 8239, 8287, 12288]
ASCII_SPACES = [32, 32, 32, 10, 10, 9, 13, 11, 12]


def gen_text_case(rng):
    """A matrix spelled as text: rows separated by any non-empty whitespace, optional whitespace before the first
    and after the last row; sometimes not a 0/1 matrix at all (other characters, no row: refusal expected)."""
    k = rng.random()
    if k < 0.1:
        m, _ = gen_large_matrix(rng, rng.choice([12, 18, 40]))
    elif k < 0.6:
        R, C = rng.randrange(1, 9), rng.randrange(1, 9)
        m = gen_strop_matrix(rng, R, C)
        if rng.random() < 0.4:
            i, j = rng.randrange(R), rng.randrange(C)
            m[i][j] = 1 - m[i][j]
    else:
        R, C = rng.randrange(1, 5), rng.randrange(1, 5)
        m = [[rng.randrange(2) for _ in range(C)] for _ in range(R)]
    rows = to_rows(m)
    style = rng.choice(["space", "newline", "nl-each", "crlf", "tab", "ascii", "ascii", "unicode", "unicode"])

    def sep(empty_ok=False):
        if style == "space":
            s = [32]
        elif style in ("newline", "nl-each"):
            s = [10]
        elif style == "crlf":
            s = [13, 10]
        elif style == "tab":
            s = [9]
        elif style == "ascii":
            s = [rng.choice(ASCII_SPACES) for _ in range(rng.choice([1, 1, 2, 3]))]
        else:
            s = [rng.choice(SPACES) for _ in range(rng.choice([1, 1, 2]))]
        return [] if empty_ok and rng.random() < 0.5 else s
    text = sep(True) if style in ("ascii", "unicode") else []
    for i, row in enumerate(rows):
        text += [ord(ch) for ch in row]
        last = i == len(rows) - 1
        if not last:
            text += sep()
        elif style == "nl-each":       # what strop_decomposition writes: every row followed by a newline
            text += [10]
        elif style in ("ascii", "unicode", "crlf"):
            text += sep(True)
    bad = None
    if rng.random() < 0.12:
        bad = rng.choice(["char", "char", "empty", "blank", "ragged"])
        if bad == "char":              # one character that is neither '0' nor '1' (also digits of other scripts)
            pos = [i for i, c in enumerate(text) if c in (48, 49)]
            text[rng.choice(pos)] = rng.choice([50, 57, 47, 58, 45, 46, 88, 120, 79, 108, 0, 127, 178, 185, 1633, 65297, 8203])
        elif bad == "empty":
            text = []
        elif bad == "blank":
            text = [rng.choice(SPACES) for _ in range(rng.randrange(1, 4))]
        else:
            pos = [i for i, c in enumerate(text) if c in (48, 49)]
            i = rng.choice(pos)
            text = text[:i] + text[i + 1:] if rng.random() < 0.5 and len(pos) > 1 else text[:i] + [48] + text[i:]
    return {"kind": "t", "gen": style + ("/" + bad if bad else ""), "text": text}


def text_rows(text):
    """Rows of a text by the harness' own splitter, or None if it is not a 0/1 matrix."""
    rows, cur = [], []
    for c in text + [32]:
        if c in SPACES:
            if cur:
                rows.append(cur)
            cur = []
        else:
            cur.append(c)
    if not rows or any(c not in (48, 49) for r in rows for c in r) or len(set(len(r) for r in rows)) != 1:
        return None
    return ["".join(chr(c) for c in r) for r in rows]


def exhaustive_cases(maxcells, maxside):
    for R in range(1, maxside + 1):
        for C in range(1, maxside + 1):
            if R * C > maxcells:
                continue
            for bits in range(1 << (R * C)):
                s = format(bits, f"0{R * C}b")
                yield {"kind": "m", "gen": f"all{R}x{C}", "rows": [s[i * C:(i + 1) * C] for i in range(R)]}


# --------------------------------------------------------------------------
# generators: polygons
# --------------------------------------------------------------------------
def gen_profile(rng, lo, hi, q):
    """Disjoint intervals [a,b] within [lo,hi] (multiples of 1/q) with heights > 0."""
    n = int((hi - lo) * q)
    cuts = sorted(set(rng.randrange(0, n + 1) for _ in range(rng.choice([0, 2, 2, 3, 4, 6]))))
    out = []
    for a, b in zip(cuts, cuts[1:]):
        if rng.random() < 0.6:
            out.append([lo + F(a, q), lo + F(b, q), F(rng.randrange(1, 4 * q), q)])
    return out


def gen_poly_case(rng):
    q = rng.choice([1, 2, 4])
    # branches are lower than 4, so every coordinate stays >= 0 (the netlist reader refuses negative centres)
    x0 = 4 + F(rng.randrange(0, 40), q)
    y0 = 4 + F(rng.randrange(0, 40), q)
    x1 = x0 + F(rng.randrange(1, 8 * q), q)
    y1 = y0 + F(rng.randrange(1, 8 * q), q)
    sides = {s: (gen_profile(rng, x0, x1, q) if s in "NS" else gen_profile(rng, y0, y1, q)) for s in "NSEW"}
    for s in "NSEW":
        if rng.random() < 0.25:
            sides[s] = []
    return {"kind": "poly", "x0": x0, "x1": x1, "y0": y0, "y1": y1, "N": sides["N"], "S": sides["S"],
            "E": sides["E"], "W": sides["W"], "rev": rng.random() < 0.5, "rot": rng.randrange(0, 50),
            "repr": rng.choice(FORMS_ANY + FORMS_F32), "closed": rng.random() < 0.2, "twice": rng.random() < 0.2}


def poly_vertices(c):
    x0, x1, y0, y1 = c["x0"], c["x1"], c["y0"], c["y1"]
    pts = [(x0, y0)]
    for a, b, h in sorted(c["S"]):
        pts += [(a, y0), (a, y0 - h), (b, y0 - h), (b, y0)]
    pts.append((x1, y0))
    for a, b, h in sorted(c["E"]):
        pts += [(x1, a), (x1 + h, a), (x1 + h, b), (x1, b)]
    pts.append((x1, y1))
    for a, b, h in sorted(c["N"], reverse=True):
        pts += [(b, y1), (b, y1 + h), (a, y1 + h), (a, y1)]
    pts.append((x0, y1))
    for a, b, h in sorted(c["W"], reverse=True):
        pts += [(x0, b), (x0 - h, b), (x0 - h, a), (x0, a)]
    changed = True
    while changed and len(pts) > 3:
        changed = False
        n = len(pts)
        for i in range(n):
            p, cur, nx = pts[i - 1], pts[i], pts[(i + 1) % n]
            if cur == nx or (p[0] == cur[0] == nx[0]) or (p[1] == cur[1] == nx[1]):
                del pts[i]
                changed = True
                break
    k = c.get("rot", 0) % len(pts)
    pts = pts[k:] + pts[:k]
    if c.get("rev"):
        pts.reverse()
    if c.get("closed"):
        pts.append(pts[0])
    return pts


# ---- polygons traced from a grid shape, in every input form ----
FORMS_ANY = ["point", "rows", "array_f64", "mixed"]          # any binary64 coordinates
FORMS_F32 = ["array_f32", "rows_f32"]                         # short dyadic mantissas only
FORMS_INT = ["point_int", "array_i64", "array_i32", "rows_i64"]   # integer coordinates only
PADDING_LIKE = [(-1, -1), (-1, -1), (-1, -1), (0, 0), (0, 0), (-1, 0), (0, -1), (1, 1), (-1, 1), (1, -1), (-2, -2)]


def outline(m):
    """Vertices (column line, row line) of the boundary of the true cells of m, or None unless the true
    cells are one 4-connected piece without holes and without two cells touching only at a corner
    (then the boundary is one simple closed polyline)."""
    R, C = len(m), len(m[0])
    get = lambda i, j: 0 <= i < R and 0 <= j < C and m[i][j]
    nxt = {}
    n = 0
    for i in range(R):
        for j in range(C):
            if not m[i][j]:
                continue
            for free, a, b in ((not get(i - 1, j), (j, i), (j + 1, i)),
                               (not get(i, j + 1), (j + 1, i), (j + 1, i + 1)),
                               (not get(i + 1, j), (j + 1, i + 1), (j, i + 1)),
                               (not get(i, j - 1), (j, i + 1), (j, i))):
                if free:
                    if a in nxt:
                        return None          # two boundary edges leave one point: cells meeting at a corner
                    nxt[a] = b
                    n += 1
    if n == 0:
        return None
    start = next(iter(nxt))
    pts, p = [], start
    while True:
        pts.append(p)
        p = nxt[p]
        if p == start:
            break
    if len(pts) != n:
        return None                          # several loops: holes or several pieces
    out = []
    for k, p in enumerate(pts):
        a, b = pts[k - 1], pts[(k + 1) % len(pts)]
        if not ((a[0] == p[0] == b[0]) or (a[1] == p[1] == b[1])):
            out.append(p)
    return out


def _widths(rng, n, mode):
    if mode == "int":
        return [F(rng.choice([1, 1, 2, 3, 5])) for _ in range(n)]
    if mode == "decimal":     # sides of at least 0.3 and coordinates below 128: binary64 rounding stays far below
        #                        the tolerance the netlist reader derives from the smallest side (1e-12 of it)
        return [F(rng.choice([3, 7, 11, 13, 25]), 10) if rng.random() < 0.7 else F(rng.randrange(30, 400), 100)
                for _ in range(n)]
    return [F(rng.choice([1, 2, 3, 4, 5, 8, 13]), rng.choice([1, 2, 4])) for _ in range(n)]


def gen_gpoly_case(rng, big=False):
    """A simple orthogonal polygon traced from a grid shape (single-trunk shapes and near misses, so that
    both outcomes occur), placed on chosen coordinates and handed over in one of the accepted forms."""
    while True:
        if big:
            m, tag = gen_large_matrix(rng, rng.choice([18, 20, 24]))
        else:
            R, C = rng.randrange(1, 9), rng.randrange(1, 9)
            m = gen_strop_matrix(rng, R, C)
            tag = "strop"
            if rng.random() < 0.3:
                for _ in range(rng.choice([1, 1, 2])):
                    i, j = rng.randrange(R), rng.randrange(C)
                    m[i][j] = 1 - m[i][j]
                tag = "perturbed"
        pts = outline(m)
        if pts is not None:
            break
    R, C = len(m), len(m[0])
    mode = rng.choice(["dyadic", "dyadic", "int", "int", "decimal"])
    ws, hs = _widths(rng, C, mode), _widths(rng, R, mode)
    place = rng.choice(["anchor", "anchor", "negative", "straddle", "positive", "bigoffset"])
    if mode == "decimal" and place in ("bigoffset",):
        place = "positive"
    unit = {"int": 1, "dyadic": 4, "decimal": 10}[mode]
    span = 20 if mode == "decimal" else 40
    if place == "positive":
        ox, oy = F(rng.randrange(0, span * unit), unit), F(rng.randrange(0, span * unit), unit)
    elif place == "bigoffset":
        ox = F(rng.choice([2 ** 16, -2 ** 16, 10 ** 5, 2 ** 20, -2 ** 20, 10 ** 6, -10 ** 6]))
        oy = F(rng.choice([2 ** 16, -2 ** 16, 10 ** 5, 2 ** 20, -2 ** 20, 10 ** 6, 0]))
    else:
        ox, oy = F(rng.randrange(-span * unit, 0), unit), F(rng.randrange(-span * unit, 0), unit)
    xs = [ox]
    for w in ws:
        xs.append(xs[-1] + w)
    ys = [oy]
    for h in hs:
        ys.append(ys[-1] + h)
    ys.reverse()                      # row 0 is the top row
    anchor = None
    if place == "straddle":           # a grid line exactly at 0 in each axis
        dx, dy = rng.choice(xs), rng.choice(ys)
        xs, ys = [x - dx for x in xs], [y - dy for y in ys]
    elif place == "anchor":           # one corner of the polygon exactly at a padding-like point
        k = rng.randrange(len(pts))
        tx, ty = rng.choice(PADDING_LIKE)
        dx, dy = xs[pts[k][0]] - tx, ys[pts[k][1]] - ty
        xs, ys = [x - dx for x in xs], [y - dy for y in ys]
        anchor = [F(tx), F(ty)]
    allint = all(v.denominator == 1 for v in xs + ys)
    short = all(abs(v) < 2 ** 17 and v.denominator in (1, 2, 4) for v in xs + ys)
    forms = list(FORMS_ANY) * 2
    if mode != "decimal" and short:
        forms += FORMS_F32
    if allint and all(abs(v) < 2 ** 30 for v in xs + ys):
        forms += FORMS_INT * 2
    where = rng.choice(["last", "last", "first", "any"]) if anchor is not None else "any"
    return {"kind": "gpoly", "gen": tag, "mode": mode, "place": place, "rows": to_rows(m), "xs": xs, "ys": ys,
            "rev": rng.random() < 0.5, "anchor": anchor, "where": where, "rot": rng.randrange(0, 200),
            "closed": rng.random() < 0.15, "repr": rng.choice(forms), "twice": rng.random() < 0.2}


LSHAPES = [["10", "11"], ["01", "11"], ["11", "10"], ["11", "01"]]       # the notch in the NE / NW / SE / SW corner
# (width of the column beside the notch, width of the notch column, height of the notch row, height of the full row):
# whichever arm the decomposition takes as its trunk, the other arm - flush with one end of the trunk - is the LARGER
# rectangle in half of these (and a valid east/west or north/south branch of it only one way round)
LSIZES = [(1, 6, 1, 2), (4, 9, 2, 5), (1, 3, 5, 2), (2, 3, 8, 2), (3, 3, 3, 3), (2, 1, 2, 6), (1, 1, 1, 1), (4, 9, 5, 2),
          (9, 4, 2, 5), (2, 11, 1, 3), (1, 12, 7, 1), (5, 2, 1, 9)]


def gen_lshape_case(rng, idx):
    """L-shaped polygons (a box with a rectangular notch in one of the four corners): two rectangles, the branch flush
    with the bottom / top / left / right end of the trunk; the sizes are chosen so that the branch is often the LARGER
    of the two (create_stog prefers the largest rectangle that can be a trunk, and only the decomposition's trunk
    can).  Every corner, both orientations, every start vertex; sizes from the list (scaled) or random."""
    rows = LSHAPES[idx % 4]
    k = idx // 4
    rev = bool(k % 2)
    k //= 2
    if k < len(LSIZES):
        a, c, b, d = (F(v) for v in LSIZES[k])
    else:
        u = rng.choice([1, 1, 2, 4])
        a, c, b, d = (F(rng.choice([1, 2, 3, 4, 5, 8, 13, 21]), u) for _ in range(4))
    if rows[0][0] == "0" or rows[1][0] == "0":      # the notch in the west column
        ws = [c, a]
    else:
        ws = [a, c]
    hs = [b, d] if "0" in rows[0] else [d, b]
    ox, oy = F(rng.randrange(0, 40)), F(rng.randrange(0, 40))
    xs = [ox, ox + ws[0], ox + ws[0] + ws[1]]
    ys = [oy + hs[0] + hs[1], oy + hs[1], oy]            # row 0 is the top row
    allint = all(v.denominator == 1 for v in xs + ys)
    forms = list(FORMS_ANY) + FORMS_F32 + (FORMS_INT if allint else [])
    return {"kind": "gpoly", "gen": "lshape", "mode": "int" if allint else "dyadic", "place": "positive", "rows": list(rows),
            "xs": xs, "ys": ys, "rev": rev, "anchor": None, "where": "any", "rot": rng.randrange(0, 6), "closed": False,
            "repr": rng.choice(forms), "twice": False}


def gen_probe_cases(rng, npoly):
    """Systematic part of the polygon stream: for npoly small integer polygons, EVERY corner in turn is put
    exactly on a padding-like point ((-1,-1), (0,0), (-1,0), (0,-1)) and listed last or first, the vertices
    given as a 2-D array (the form FloorSet uses, where rows of -1 are padding) or in another form."""
    for _ in range(npoly):
        while True:
            R, C = rng.randrange(1, 5), rng.randrange(1, 5)
            m = gen_strop_matrix(rng, R, C)
            pts = outline(m)
            if pts is not None and len(pts) <= 12:
                break
        ws, hs = _widths(rng, C, "int"), _widths(rng, R, "int")
        xs0, ys0 = [F(0)], [F(0)]
        for w in ws:
            xs0.append(xs0[-1] + w)
        for h in hs:
            ys0.append(ys0[-1] + h)
        ys0.reverse()
        rev = rng.random() < 0.5
        for k in range(len(pts)):
            for tx, ty in ((-1, -1), (0, 0), (-1, 0), (0, -1)):
                dx, dy = xs0[pts[k][0]] - tx, ys0[pts[k][1]] - ty
                for where in ("last", "first"):
                    yield {"kind": "gpoly", "gen": "probe", "mode": "int", "place": "anchor", "rows": to_rows(m),
                           "xs": [x - dx for x in xs0], "ys": [y - dy for y in ys0], "rev": rev, "anchor": [F(tx), F(ty)],
                           "where": where, "rot": 0, "closed": False, "twice": False,
                           "repr": rng.choice(["array_f64", "array_i64", "array_f32", "array_i32", "rows", "point_int"])}


def gpoly_vertices(c):
    m = [[ch == "1" for ch in row] for row in c["rows"]]
    idx = outline(m)
    pts = [(c["xs"][a], c["ys"][b]) for a, b in idx]
    anchor = tuple(c["anchor"]) if c.get("anchor") is not None else None      # a corner, by its coordinates
    if c.get("rev"):
        pts.reverse()
    k = c.get("rot", 0) % len(pts)
    if anchor in pts and c.get("where") in ("first", "last"):
        k = pts.index(anchor) + (1 if c["where"] == "last" else 0)
    pts = pts[k:] + pts[:k]
    if c.get("closed"):
        pts.append(pts[0])
    return pts


def make_vertices(pts, form):
    """The vertex list in the requested input form (pts: pairs of Fractions)."""
    import numpy as np
    from frame.geometry.geometry import Point
    fl = [[float(x), float(y)] for x, y in pts]
    if form == "point":
        return [Point(x, y) for x, y in fl]
    if form == "point_int":
        return [Point(int(x), int(y)) for x, y in pts]
    if form == "rows":
        return list(np.array(fl))
    if form == "rows_f32":
        return list(np.array(fl, dtype=np.float32))
    if form == "rows_i64":
        return list(np.array([[int(x), int(y)] for x, y in pts], dtype=np.int64))
    if form == "mixed":
        return [Point(x, y) if k % 2 else np.array([x, y]) for k, (x, y) in enumerate(fl)]
    if form == "array_f64":
        return np.array(fl)
    if form == "array_f32":
        return np.array(fl, dtype=np.float32)
    if form == "array_i64":
        return np.array([[int(x), int(y)] for x, y in pts], dtype=np.int64)
    if form == "array_i32":
        return np.array([[int(x), int(y)] for x, y in pts], dtype=np.int32)
    if form == "ndarray":             # older corpus / replay files
        return list(np.array(fl))
    raise ValueError(form)


def cell_centres(pts):
    xs = sorted(set(x for x, _ in pts))
    ys = sorted(set(y for _, y in pts))
    return [((a + b) / 2, (c + d) / 2) for a, b in zip(xs, xs[1:]) for c, d in zip(ys, ys[1:])]


def gen_inside_case(rng):
    """A vertex list and points for is_point_inside_polygon.  'ortho': a single-trunk orthogonal
    polygon; 'slant': any closed polyline whose vertices lie on three y levels a, a+h, a+2h (h a
    power of two), so that the division in the crossing formula is exact in binary64."""
    if rng.random() < 0.5:
        c = gen_poly_case(rng)
        vs = poly_vertices(c)
        sub = "ortho"
    else:
        h = rng.choice([F(1, 2), F(1), F(2), F(4)])
        a = F(rng.randrange(0, 32), 4)
        n = rng.choice([3, 4, 5, 6, 8, 10])
        vs = [(F(rng.randrange(0, 64), 4), a + h * rng.randrange(0, 3)) for _ in range(n)]
        sub = "slant"
    xs = [x for x, _ in vs]
    ys = [y for _, y in vs]
    pts = []
    if sub == "ortho":
        cc = cell_centres(vs)
        rng.shuffle(cc)
        pts += cc[:16]
    for _ in range(6):      # vertices and points on the vertex lines (boundary rules <= / <)
        pts.append((rng.choice(xs), rng.choice(ys)))
    for _ in range(6):      # coarse points, often on edges
        pts.append((F(rng.randrange(int(min(xs) * 8) - 8, int(max(xs) * 8) + 9), 8),
                    F(rng.randrange(int(min(ys) * 8) - 8, int(max(ys) * 8) + 9), 8)))
    for _ in range(10):     # generic points: odd multiples of 1/64, never on a vertex line
        pts.append((F(2 * rng.randrange(int(min(xs) * 32) - 16, int(max(xs) * 32) + 16) + 1, 64),
                    F(2 * rng.randrange(int(min(ys) * 32) - 16, int(max(ys) * 32) + 16) + 1, 64)))
    return {"kind": "inside", "sub": sub, "vs": [list(v) for v in vs], "pts": [list(p) for p in pts],
            "repr": rng.choice(FORMS_ANY + FORMS_F32)}


def parity_up(p, vs):
    """Even-odd rule with a ray going UP from p (the code shoots its ray to the right); None when p
    lies on the polyline or the ray meets a vertex (no demand there)."""
    px, py = p
    n = len(vs)
    inside = False
    for i in range(n):
        (x1, y1), (x2, y2) = vs[i], vs[(i + 1) % n]
        if px in (x1, x2):
            if x1 == x2 == px and min(y1, y2) <= py <= max(y1, y2):
                return None
            if (px, py) in ((x1, y1), (x2, y2)):
                return None
            return None     # the ray may touch a vertex
        if min(x1, x2) < px < max(x1, x2):
            yi = y1 + (px - x1) * (y2 - y1) / (x2 - x1)
            if yi == py:
                return None
            if yi > py:
                inside = not inside
    return inside


def shoelace(pts):
    s = F(0)
    for (a, b), (c, d) in zip(pts, pts[1:] + pts[:1]):
        s += a * d - c * b
    return abs(s) / 2


# --------------------------------------------------------------------------
# running the implementation
# --------------------------------------------------------------------------
def run_impl(case):
    from frame.geometry.geometry import Rectangle
    Rectangle.undefine_epsilon()
    if case["kind"] in ("m", "t"):
        from tools.floorset_parser.floor_set_manager.strop import Strop
        try:
            s = Strop(" ".join(case["rows"]) if case["kind"] == "m" else "".join(chr(c) for c in case["text"]))
        except AssertionError as e:
            return {"v": None, "why": str(e)}
        def listing():
            inst = [[[r.rows.low, r.rows.high, r.columns.low, r.columns.high] for r in t.rectangles()]
                    for t in s.instances()]
            inst.sort(key=lambda rs: rs[0] if rs else [])
            return inst
        obs = {}
        if case.get("hist"):      # pre-exercised object: list, print every instance, list again
            obs["v0"] = listing()
            for t in s.instances():
                str(t)
                list(t.rectangles("B"))
        obs["v"] = listing()
        obs["is"] = bool(s.is_strop)
        return obs
    import numpy as np
    from frame.geometry.geometry import Point
    from tools.floorset_parser.floor_set_manager.utils.utils import strop_decomposition, is_point_inside_polygon
    if case["kind"] == "inside":
        verts = make_vertices(case["vs"], case["repr"])
        return {"in": [bool(is_point_inside_polygon(Point(float(x), float(y)), verts)) for x, y in case["pts"]]}
    if case["kind"] == "gpoly":
        pts = gpoly_vertices(case)
    else:
        pts = poly_vertices(case)
    verts = make_vertices(pts, case["repr"])
    try:
        rects = strop_decomposition(verts)
    except AssertionError as e:
        return {"rects": None, "why": str(e)[:200]}
    rects = [[float(v) for v in r] for r in rects]
    obs = {"rects": rects}
    if case.get("twice"):     # the same vertex object once more: the answer may not depend on an earlier call
        try:
            obs["again"] = [[float(v) for v in r] for r in strop_decomposition(verts)]
        except AssertionError as e:
            obs["again"] = None
    obs.update(load_as_module(rects))
    return obs


def load_as_module(rects):
    """"loaded as a module": through the netlist reader, which defines the tolerances from the smallest
    side, refuses overlapping rectangles of a hard module and calls create_stog.  The reader refuses
    negative numbers, so a decomposition reaching below 0 is first moved by a whole number of units
    (exact in binary64 for the coordinates generated here; if it were not, the load test is skipped)."""
    from frame.netlist.netlist import Netlist
    fx = [[F(*v.as_integer_ratio()) for v in r] for r in rects]
    lowx = min([r[0] - r[2] / 2 for r in fx] + [0])
    lowy = min([r[1] - r[3] / 2 for r in fx] + [0])
    dx, dy = -(lowx.numerator // lowx.denominator), -(lowy.numerator // lowy.denominator)
    moved = [[float(r[0] + dx), float(r[1] + dy), float(r[2]), float(r[3])] for r in fx]
    if any(F(*m[0].as_integer_ratio()) != r[0] + dx or F(*m[1].as_integer_ratio()) != r[1] + dy
           for m, r in zip(moved, fx)):
        return {"stog": None, "locs": [], "skipped": "translation not exact"}
    if any(v < 0 for r in moved for v in r):
        return {"stog": None, "locs": [], "skipped": "negative extent"}
    txt = "Modules: {M0: {rectangles: [" + ", ".join("[" + ", ".join(repr(v) for v in r) + "]" for r in moved) + \
          "], hard: true}}\nNets: []\n"
    try:
        m = Netlist(txt).get_module("M0")
    except AssertionError as e:
        return {"stog": False, "locs": [], "load_error": str(e)[:200]}
    ok = m.create_stog()
    from frame.geometry.geometry import Rectangle
    eps = Rectangle.distance_epsilon()
    sides = [v for r in moved for v in (r[0] - r[2] / 2, r[0] + r[2] / 2, r[1] - r[3] / 2, r[1] + r[3] / 2)]
    return {"stog": bool(ok) and bool(m.has_stog), "locs": [r.location.name for r in m.rectangles],
            "after": [[r.center.x, r.center.y, r.shape.w, r.shape.h] for r in m.rectangles], "moved": [int(dx), int(dy)],
            "eps": eps, "absorbed": any(v - eps == v or v + eps == v for v in sides)}


def gqq(x):
    f = x if isinstance(x, F) else F(*float(x).as_integer_ratio())
    n, d = f.numerator, f.denominator
    return f"(q ({n}) {d})" if n < 0 else f"(q {n} {d})"


def gpts(pts):
    return glist([f"({gqq(x)}, {gqq(y)})" for x, y in pts])


def grects(rects):
    return glist(['(' + ', '.join(gqq(v) for v in r) + ')' for r in rects])


def to_coq(case, obs):
    if case["kind"] in ("poly", "gpoly"):
        pts = gpoly_vertices(case) if case["kind"] == "gpoly" else poly_vertices(case)
        form = case.get("repr", "point")
        isp = lambda k: form in ("point", "point_int") or (form == "mixed" and k % 2 == 1)
        vs = glist([f"{'vp' if isp(k) else 'vr'} {gqq(fexact(x))} {gqq(fexact(y))}" for k, (x, y) in enumerate(pts)])
        # decimal coordinates: the model computes with the exact values of the binary64 inputs; the cells, the
        # instances and the order of the rectangles are not affected by rounding, the four numbers of a
        # rectangle are (a sum or a difference of two inputs), so they are compared up to 2^-40
        ck = "ckf" if case.get("mode") != "decimal" else "ckfc (q 1 1099511627776)"
        out = []
        for which in ("rects", "again"):
            if which in obs:
                out.append(f"{ck} {vs} " + ("None" if obs[which] is None else f"(Some {grects(obs[which])})"))
        return " && ".join(f"({e})" for e in out)
    if case["kind"] == "inside":
        pbs = glist([f"(({gqq(x)}, {gqq(y)}), {gbool(b)})" for (x, y), b in zip(case["pts"], obs["in"])])
        return f"cki {gpts(case['vs'])} {pbs}"
    if case["kind"] == "t":
        ck, rows = "ckt", glist([str(int(c)) for c in case["text"]]) + "%N"
    else:
        ck, rows = "ck", glist([gstr(r) for r in case["rows"]])
    if obs["v"] is None:
        return f"{ck} {rows} None false"
    exp = glist([glist([f"r {a} {b} {c} {d}" for a, b, c, d in rs]) for rs in obs["v"]])
    return f"{ck} {rows} (Some {exp}) {gbool(obs['is'])}"


def oracle(case, obs):
    if case["kind"] == "t":
        rows = text_rows(case["text"])
        if rows is None:
            return None       # not a 0/1 grid: outside the property (the model still says what the code does)
        return oracle({"kind": "m", "rows": rows}, obs)
    if case["kind"] == "m":
        rows = case["rows"]
        wellformed = len(rows) > 0 and len(rows[0]) > 0 and all(len(r) == len(rows[0]) for r in rows)
        if not wellformed:
            return None if obs["v"] is None else "a ragged matrix was accepted"
        if obs["v"] is None:
            return f"a well-formed matrix was refused: {obs.get('why')}"
        t = has_decomp_fast(rows)
        if len(rows) * len(rows[0]) <= 36 and (has_decomp(rows) is None) != (t is None):
            raise RuntimeError("the two existence oracles disagree")      # a defect of the harness, not of the code
        if obs["is"] and t is None:
            return "is_strop is True but no single-trunk decomposition exists"
        if not obs["is"] and t is not None:
            return f"is_strop is False but a single-trunk decomposition exists (trunk rows {t[0]}..{t[1]}, columns {t[2]}..{t[3]})"
        if obs["is"] != (len(obs["v"]) > 0):
            return "is_strop disagrees with the list of instances"
        for rs in obs["v"] + (obs["v0"] if obs.get("v0", obs["v"]) != obs["v"] else []):
            p = check_instance(rows, [tuple(x) for x in rs])
            if p:
                return f"offered instance with trunk {rs[0] if rs else None}: {p}"
        return None
    if case["kind"] == "inside":
        vs = [tuple(v) for v in case["vs"]]
        for p, got in zip(case["pts"], obs["in"]):
            want = parity_up(tuple(p), vs)
            if want is not None and want != got:
                return f"point {tuple(map(str, p))}: is_point_inside_polygon says {got}, an upward ray crosses the outline an {'odd' if want else 'even'} number of times"
        return None
    return polygon_oracle(case, obs)


def fexact(v):
    """The exact value of the binary64 number the implementation receives for coordinate v."""
    return F(*float(v).as_integer_ratio())


def raster(pts):
    """Grid lines and 0/1 rows (top row first) of a polygon, by an upward ray from every cell centre of
    the grid of its vertex coordinates (the code shoots its ray to the right)."""
    xs = sorted(set(x for x, _ in pts))
    ys = sorted(set(y for _, y in pts), reverse=True)
    rows = ["".join("1" if parity_up(((a + b) / 2, (c + d) / 2), pts) else "0" for a, b in zip(xs, xs[1:]))
            for c, d in zip(ys, ys[1:])]
    return xs, ys, rows


def polygon_oracle(case, obs):
    exact = case.get("mode") != "decimal"
    pts = gpoly_vertices(case) if case["kind"] == "gpoly" else poly_vertices(case)
    if case.get("closed"):
        pts = pts[:-1]
    pts = [(fexact(x), fexact(y)) for x, y in pts]
    if case["kind"] == "gpoly":       # the shape the polygon was traced from tells which cells are inside
        X, Y, rows = [fexact(x) for x in case["xs"]], [fexact(y) for y in case["ys"]], case["rows"]
    else:
        X, Y, rows = raster(pts)
    exists = has_decomp_fast(rows)
    scale = max([1] + [abs(v) for v in X + Y])
    tol = 0 if exact else scale * F(1, 10 ** 9)

    def line(lines, v):
        k = min(range(len(lines)), key=lambda i: abs(lines[i] - v))
        return k if abs(lines[k] - v) <= tol else None
    for which in ("rects", "again"):
        if which not in obs:
            continue
        rects = obs[which]
        tag = "" if which == "rects" else " (second call with the same vertex object)"
        if rects is None:
            if exists is not None:
                return f"a single-trunk polygon was not decomposed{tag}: {obs.get('why')}"
            continue
        if not rects:
            return f"empty decomposition{tag}"
        if any(r[2] <= 0 or r[3] <= 0 for r in rects):
            return f"a rectangle of the decomposition has no extent{tag}"
        area = sum(fexact(r[2]) * fexact(r[3]) for r in rects)
        want = shoelace(pts)
        if abs(area - want) > tol * scale:
            return f"rectangles have area {float(area)}, the polygon has area {float(want)}{tag}"
        idx = []
        for r in rects:
            cx, cy, w, h = (fexact(v) for v in r)
            c0, c1, r1, r0 = line(X, cx - w / 2), line(X, cx + w / 2), line(Y, cy - h / 2), line(Y, cy + h / 2)
            if None in (c0, c1, r0, r1):
                return f"rectangle {r} has a side that is not on a coordinate of the polygon's vertices{tag}"
            idx.append((r0, r1 - 1, c0, c1 - 1))
        p = check_instance(rows, idx)
        if p:
            return f"decomposition {rects}{tag}: in grid cells (row 0 on top) {p}"
    if obs["rects"] is None:
        return None
    if obs.get("load_error"):
        return f"the decomposition cannot be loaded as a module: {obs['load_error']}"
    if obs["stog"] is None:
        return None                   # not loadable through the reader for a reason outside the property (see load_as_module)
    if not obs["stog"]:
        if obs.get("absorbed"):
            return ("create_stog does not recognise the decomposition as a single-trunk orthogon " + ABSORBED +
                    f" (tolerance {obs['eps']!r}, rectangles {obs['rects']})")
        return "create_stog does not recognise the decomposition as a single-trunk orthogon"
    if obs["locs"][0] != "TRUNK" or any(x not in ("NORTH", "SOUTH", "EAST", "WEST") for x in obs["locs"][1:]):
        return f"create_stog locations {obs['locs']}: trunk not first or a rectangle without a side"
    if case.get("gen") == "lshape" and len(obs["rects"]) == 2:
        t, b = obs["rects"]
        key = obs["locs"][1] + (" branch larger than the trunk" if b[2] * b[3] > t[2] * t[3] else " branch not larger")
        LSHAPE_COV[key] = LSHAPE_COV.get(key, 0) + 1
    return trunk_first(obs, scale)


LSHAPE_COV = {}


def trunk_first(obs, scale):
    """'recognised ... with the trunk first', on the rectangles the loaded module holds after create_stog: the first one
    is a trunk - every other rectangle abuts it on the side it is labelled with, within the trunk's extent on that side
    (1e-9 of the largest coordinate allowed).  Only the decomposition's own trunk can be that rectangle: another
    rectangle of the decomposition in front is reported together with the rectangle that does not fit it."""
    if "after" not in obs or len(obs["after"]) != len(obs["locs"]):
        return None
    tol = F(1, 10 ** 9) * max(1, scale)
    box = lambda r: (fexact(r[0]) - fexact(r[2]) / 2, fexact(r[0]) + fexact(r[2]) / 2,
                     fexact(r[1]) - fexact(r[3]) / 2, fexact(r[1]) + fexact(r[3]) / 2)
    tx0, tx1, ty0, ty1 = box(obs["after"][0])
    for r, loc in list(zip(obs["after"], obs["locs"]))[1:]:
        x0, x1, y0, y1 = box(r)
        abuts = {"NORTH": abs(y0 - ty1), "SOUTH": abs(y1 - ty0), "EAST": abs(x0 - tx1), "WEST": abs(x1 - tx0)}[loc] <= tol
        if loc in ("NORTH", "SOUTH"):
            within = x0 >= tx0 - tol and x1 <= tx1 + tol
        else:
            within = y0 >= ty0 - tol and y1 <= ty1 + tol
        if not (abuts and within):
            dx, dy = obs.get("moved", [0, 0])
            moved = [[r0[0] + dx, r0[1] + dy, r0[2], r0[3]] for r0 in obs["rects"]]
            swapped = ("" if obs["after"][0] == moved[0] else
                       f"; the decomposition's trunk {obs['rects'][0]} is no longer the first rectangle")
            return (f"loaded as a module, the first rectangle {obs['after'][0]} is not a trunk: rectangle {r} labelled {loc} "
                    f"does not abut that side of it within its extent (decomposition {obs['rects']}, moved by {dx}, {dy}){swapped}")
    return None


ABSORBED = "[tolerance absorbed: 1e-12 x smallest side is below half an ulp of a side coordinate]"


def failure_key(case, why):
    if case["kind"] in ("poly", "gpoly") and why and ABSORBED in why:
        return "C15/stog-tolerance-absorbed"
    return {"m": "C15/grid", "t": "C15/grid-text", "inside": "C15/point-inside"}.get(case["kind"], "C15/polygon")


def shrink(case):
    if case["kind"] == "t":
        text = case["text"]
        for k in range(len(text)):
            yield dict(case, text=text[:k] + text[k + 1:], gen="shrunk")
        for k, c in enumerate(text):
            if c in SPACES and c != 32:
                yield dict(case, text=text[:k] + [32] + text[k + 1:], gen="shrunk")
        return
    if case["kind"] == "m":
        rows = case["rows"]
        if len(rows) > 1:
            for k in range(len(rows)):
                yield dict(case, rows=rows[:k] + rows[k + 1:], gen="shrunk")
        if min(len(r) for r in rows) > 1 and len(set(len(r) for r in rows)) == 1:
            for k in range(len(rows[0])):
                yield dict(case, rows=[r[:k] + r[k + 1:] for r in rows], gen="shrunk")
        for i, r in enumerate(rows):
            for j, ch in enumerate(r):
                if ch == "1":
                    yield dict(case, rows=rows[:i] + [r[:j] + "0" + r[j + 1:]] + rows[i + 1:], gen="shrunk")
        return
    if case["kind"] == "inside":
        for k in range(len(case["pts"])):
            if len(case["pts"]) > 1:
                yield dict(case, pts=case["pts"][:k] + case["pts"][k + 1:])
        for k in range(len(case["vs"])):
            if len(case["vs"]) > 3:
                yield dict(case, vs=case["vs"][:k] + case["vs"][k + 1:])
        if case.get("repr") != "point":
            yield dict(case, repr="point")
        return
    if case["kind"] == "gpoly":
        rows, xs, ys = case["rows"], case["xs"], case["ys"]
        cands = []
        if len(rows) > 1:       # drop a row / a column together with one of its two grid lines
            for k in range(len(rows)):
                for d in (0, 1):
                    cands.append(dict(case, rows=rows[:k] + rows[k + 1:], ys=ys[:k + d] + ys[k + d + 1:], gen="shrunk"))
        if len(rows[0]) > 1:
            for k in range(len(rows[0])):
                for d in (0, 1):
                    cands.append(dict(case, rows=[r[:k] + r[k + 1:] for r in rows], xs=xs[:k + d] + xs[k + d + 1:], gen="shrunk"))
        for c in cands:         # only shapes whose outline is still one simple polygon
            if outline([[ch == "1" for ch in r] for r in c["rows"]]) is not None:
                yield c
        for flag in ("rev", "closed", "twice"):
            if case.get(flag):
                yield dict(case, **{flag: False})
        if case.get("anchor") is None and case.get("rot"):
            yield dict(case, rot=0)
        return
    for s in "NSEW":
        for k in range(len(case[s])):
            yield dict(case, **{s: case[s][:k] + case[s][k + 1:]})
    if case.get("rev"):
        yield dict(case, rev=False)
    if case.get("closed"):
        yield dict(case, closed=False)
    if case.get("rot"):
        yield dict(case, rot=0)
    if case.get("repr") != "point":
        yield dict(case, repr="point")


def nontrivial(case):
    if case["kind"] == "t":
        return case["text"].count(49) >= 2
    if case["kind"] == "m":
        return sum(r.count("1") for r in case["rows"]) >= 2
    if case["kind"] == "inside":
        return len(case["vs"]) >= 3
    if case["kind"] == "gpoly":
        return sum(r.count("1") for r in case["rows"]) >= 2
    return any(case[s] for s in "NSEW")


def dist_key(case):
    if case["kind"] == "t":
        return "text/" + case.get("gen", "?")
    if case["kind"] == "m":
        g = case.get("gen", "?")
        if g.startswith("large/"):
            g = "large/" + g.split("/")[2]
        return "grid/" + ("exhaustive" if g.startswith("all") else "sampled" if g.startswith("some") else g)
    if case["kind"] == "inside":
        return "point-inside/" + case.get("sub", "?")
    if case["kind"] == "gpoly":
        if case.get("gen") == "lshape":
            return "polygon/lshape/" + "+".join(case["rows"]) + ("/cw" if case.get("rev") else "/ccw")
        return "polygon/" + case.get("repr", "?") + "/" + ("decimal" if case.get("mode") == "decimal" else case.get("place", "?"))
    return "polygon/" + ("cw" if case.get("rev") else "ccw") + "/" + case.get("repr", "?")


def sampled_cases(rng, n, lo, hi):
    """n matrices drawn uniformly from the shapes with lo < R*C <= hi cells (each shape as often as it has matrices)."""
    shapes = [(R, C) for R in range(1, hi + 1) for C in range(1, hi + 1) if lo < R * C <= hi]
    weights = [2 ** (R * C) for R, C in shapes]
    for _ in range(n):
        R, C = rng.choices(shapes, weights)[0]
        s = format(rng.getrandbits(R * C), f"0{R * C}b")
        yield {"kind": "m", "gen": f"some{R}x{C}", "rows": [s[i * C:(i + 1) * C] for i in range(R)]}


def spread(cheap, heavy):
    """One list with the heavy cases spread evenly among the cheap ones, so that every Coq shard
    (consecutive cases) costs about the same."""
    if not heavy:
        return list(cheap)
    out, k, step = [], 0, max(1, len(cheap) // len(heavy))
    for i, h in enumerate(heavy):
        out.append(h)
        out += cheap[i * step:(i + 1) * step]
        k = (i + 1) * step
    return out + cheap[k:]


def run(ctx, out, replay=None):
    quick = ctx.quick()
    out.rule = ("all 0/1 matrices of every shape with at most 12 cells plus a uniform sample of the shapes with 13-16 cells "
                "(quick) / every shape with at most 16 cells (thorough); random matrices up to 10x10: single-trunk "
                "shapes, the same with 1-3 flipped cells, holes, disconnected pieces, staircases, iid noise at four "
                "densities, full/empty, ragged rows; LARGE grids with sides up to 40 built as trunk + four side profiles "
                "(branch lengths 9, 10, 15, 16, 17, 31, 32, 33 and short ones; combs with teeth of distinct heights, ramps, "
                "blocks up to 33 wide, single arms = long L/T/plus shapes, full sides) then left alone or perturbed (hole "
                "in a branch, tip removed, cell in a corner quadrant, cell beside a branch, trunk cell removed, random "
                "flips, far cell), half of them transposed; the same with sides up to 70 and branch lengths 63, 64, 65; thin shapes "
                "with one arm of 63, 64, 65, 100, 127, 128, 129, 255, 256, 257 cells (tip / inner cell removed, cell beside) in the "
                "four orientations; part of the large and random grids on a pre-exercised object (instances listed, printed, "
                "listed again); matrices as TEXT with every separator str.split accepts, "
                "leading/trailing/multiple separators, non-binary characters; random simple orthogonal single-trunk "
                "polygons and polygons traced from grid shapes (also not single-trunk: refusal expected), up to 24x24 "
                "cells, in every input form (Point with floats / ints, list of ndarray rows, 2-D ndarray of float64 / "
                "float32 / int64 / int32, mixed), both orientations, every start vertex, open or closed, coordinates "
                "dyadic / integer / decimal, positive / negative / straddling 0 / a corner exactly at (-1,-1), (0,0), ... "
                "listed last or first / offsets up to 2^20 and 10^6, some decomposed twice from the same object; "
                "L-SHAPES (own generator): a box with a notch in each of the four corners, both orientations, any start "
                "vertex, arm sizes such that the branch - flush with one end of the trunk - is often the larger rectangle "
                "(coverage.lshapes counts them by side); loaded as a module the first rectangle must be a trunk for all "
                "the others (abutting on the labelled side within its extent); "
                "is_point_inside_polygon on such polygons and on slanted / self-intersecting vertex lists (three y "
                "levels) at cell centres, vertices, edge points and generic points; non-trivial = at least two true "
                "cells / at least one branch / at least three vertices; distinct by hash")
    head = []
    if replay and "case" in replay:
        head.append(fr.unjson(replay["case"]))
    head += fr.load_corpus("C15")
    rng = ctx.rng
    if quick:
        cheap = list(exhaustive_cases(12, 12)) + list(sampled_cases(rng, 6000, 12, 16))
        nrand, npoly, ngpoly, nbig, nprobe, ninside, nlarge, ntext, nhuge, nlong = 3000, 300, 500, 40, 8, 200, 400, 400, 16, 12
        nlshape = 8 * len(LSIZES)
    else:
        cheap = list(exhaustive_cases(16, 16))
        nrand, npoly, ngpoly, nbig, nprobe, ninside, nlarge, ntext, nhuge, nlong = 40000, 3000, 3000, 200, 60, 3000, 3000, 3000, 100, 60
        nlshape = 8 * len(LSIZES) + 600
    cheap += [gen_matrix_case(rng) for _ in range(nrand)]
    cheap += [gen_text_case(rng) for _ in range(ntext)]
    heavy = [gen_large_case(rng) for _ in range(nlarge)]
    heavy += [gen_huge_case(rng) for _ in range(nhuge)] + [gen_long_case(rng) for _ in range(nlong)]
    heavy += [gen_poly_case(rng) for _ in range(npoly)]
    heavy += [gen_gpoly_case(rng) for _ in range(ngpoly)]
    heavy += [gen_gpoly_case(rng, big=True) for _ in range(nbig)]
    heavy += list(gen_probe_cases(rng, nprobe))
    # its own generator: the cases of the other streams stay what they were
    import random
    rng_l = random.Random(f"C15-lshape-{ctx.seed}")
    lcases = [gen_lshape_case(rng_l, k) for k in range(nlshape)]
    heavy += [gen_inside_case(rng) for _ in range(ninside)]
    rng.shuffle(heavy)
    heavy = spread(heavy, lcases)
    cases = head + spread(cheap, heavy)
    fr.run_cases(ctx, out, cases, run_impl, to_coq, oracle, failure_key, HEADER,
                 dist_key=dist_key, nontrivial=nontrivial, shard=1000, shrink=shrink)
    out.extra["lshapes"] = {"cases": len(lcases), "two_rectangle_decompositions_by_branch_side": dict(sorted(LSHAPE_COV.items())),
                            "note": "evidence that the L-shape stream reaches decompositions whose branch (listed second, flush "
                                    "with one end of the trunk) has the larger area, on each side; not an oracle"}
