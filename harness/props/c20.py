"""C20 - results do not depend on what the process did before.

Every case is (history, probe): the probe operation is executed (A) as the first thing done in a process and
(B) after a history of 1-12 operations on unrelated designs of comparable scale, both in processes forked from
the pristine import-time state of a fresh interpreter (harness/props/c20_worker.py; a sample is cross-checked
against truly fresh interpreters).  Two families of histories: UNRELATED designs (gen_group) and NEAR-DUPLICATES of
the probed design, the probe itself included (gen_related_group, harness/props/c20_related.py) - a memo table keyed
too coarsely only collides on the latter.  The direct oracle demands equal canonical digests of the observable result.
The model side (coq/History/State.v): the first-writer-wins tolerance trace of the history, the prediction of
WHERE a dependence on the tolerance appears (model output under the tolerance the history installed vs under the
probe's own), the robustness predicate of the eps_insensitive theorems, and the C07 posting model started from
the diagram store the history left behind."""
import copy
import json
import math
import os
import subprocess
import sys
from fractions import Fraction as F

from harness import core, fr
from harness.core import gq, gbool, gstr, glist, gnat
from harness.props import alloc_common as ac
from harness.props import c01, c06, c07, c15
from harness.props import c20_related as rel
from harness.props import c20_worker as c20w
from harness.props import netlist_common as nc

HEADER = """From Coq Require Import ZArith List Bool String.
From FrameModel Require Import Num.QcTac Geometry.Rect Cases.Cmp Cases.CmpAlloc Stog.CreateStog Alloc.Alloc
  Die.Boundaries Die.Cells Die.Cover Die.DieModel
  PB.Expr PB.Cnf PB.Amo PB.Robdd PB.Codify PB.Sat Cases.CmpC07 History.State Cases.CmpC20.
Import ListNotations.
Open Scope Qc_scope."""

ASSUMPTIONS = [
    "history designs have every dimension (die sides, rectangle sides, square roots of module areas) within "
    "[min/1000, max*1000] of the probed design's dimensions; the generator enforces and records this",
    "a probe is run from the pristine import-time state of an interpreter by fork(); a sample of cases per run is "
    "re-executed in truly fresh interpreters (subprocess, PYTHONHASHSEED=0) and must give the same digests",
    "orthogon recognition is probed through the netlist reader (a hard module holding the rectangles), the path by "
    "which FRAME reaches create_stog; calling create_stog on loose rectangles before any design was loaded raises "
    "'Undefined epsilon' and is not an operation on a design",
    "binary64: exact-stream probes use dyadic coordinates scaled by powers of two, so model (Qc) and implementation "
    "agree exactly; decimal probes go to the direct oracle only",
    "the tolerance trace is compared with the model's first-writer-wins formulas within 4 roundings (the product by "
    "1e-12) and 16 roundings (the square root, checked by squaring)",
    "the model of Netlist._create_rectangles mirrors fixes/C20-infinite-epsilon.diff (a netlist without any "
    "dimension leaves the tolerances undefined instead of installing an infinite one)",
    "the legaliser probes are compared by digest only (the model's builder is a Section variable); Strop and "
    "default-argument probes are compared with the model evaluated from the import-time default objects",
    "related histories: an operation whose candidate tolerance the harness does not predict (documents with "
    "region-wise areas, YAML texts) is placed after a first writer whose candidate is predicted",
    "BDD node ids are renamed by the structure of the node (variable, canonical names of the children)",
    "a diagram store of more than 600 nodes is not handed to vm_compute (cost): the C07 model is then run from the "
    "empty store and the semantic part of c07_check decides (statuses, the set of user assignments observed to extend "
    "against the set the theorem predicts; C20_memory_independent); every SAT probe over <= 10 variables observes "
    "that projection (PySAT, a solver of the harness' own) and it is part of the digest",
    "YAML-read allocations taken through initial_allocation / refine / re-read (kind allocflow) and netlists changed "
    "in place after loading are compared by digest only; the tolerance candidate of an allocflow operation is that of "
    "its Allocation (constructed before its netlist)",
    "pattern families (same index pattern, other line coordinates) on grids of more than 20 cells / hard modules "
    "of more than 8 rectangles are compared by digest only (stream exact-large)",
]

WORKER_TIMEOUT = 600


# --------------------------------------------------------------------------
# running the worker
# --------------------------------------------------------------------------
def worker_env():
    env = dict(os.environ)
    env["PYTHONPATH"] = f"{core.REPO}:{core.VERIF}"
    env["PYTHONHASHSEED"] = "0"
    env["PYTHONDONTWRITEBYTECODE"] = "1"
    return env


def call_worker(jobs, fork=True):
    req = json.dumps({"jobs": jobs, "fork": fork})
    p = subprocess.run(["timeout", str(WORKER_TIMEOUT), "/venv/bin/python", "-m", "harness.props.c20_worker"],
                       input=req, cwd=str(core.VERIF), env=worker_env(), stdout=subprocess.PIPE,
                       stderr=subprocess.PIPE, text=True, timeout=WORKER_TIMEOUT + 30)
    if p.returncode != 0:
        raise RuntimeError(f"worker failed rc={p.returncode}: {p.stderr[-800:]}")
    return json.loads(p.stdout)


def call_workers_parallel(batches, fork=True, par=8):
    """batches: list of job lists; one worker process per batch"""
    procs, outs = [], [None] * len(batches)
    pending = list(enumerate(batches))
    running = []
    while pending or running:
        while pending and len(running) < par:
            i, jobs = pending.pop(0)
            p = subprocess.Popen(["timeout", str(WORKER_TIMEOUT), "/venv/bin/python", "-m",
                                  "harness.props.c20_worker"], cwd=str(core.VERIF), env=worker_env(),
                                 stdin=subprocess.PIPE, stdout=subprocess.PIPE, stderr=subprocess.PIPE, text=True)
            p.stdin.write(json.dumps({"jobs": jobs, "fork": fork}))
            p.stdin.close()
            running.append((i, p))
        i, p = running.pop(0)
        so = p.stdout.read()
        se = p.stderr.read()
        p.wait()
        try:
            outs[i] = json.loads(so)
        except Exception:
            outs[i] = [{"worker_error": f"rc={p.returncode} {se[-500:]}"}] * len(batches[i])
    return outs


# --------------------------------------------------------------------------
# numbers
# --------------------------------------------------------------------------
def fl(x):
    """the float handed to FRAME for a generated rational; exactness is asserted by the caller where needed"""
    return float(x)


def exact(x: F) -> bool:
    return F(float(x)) == x


def pow2(k):
    return F(2) ** k


# --------------------------------------------------------------------------
# designs (all generators work at unit scale and multiply by the scale P)
# --------------------------------------------------------------------------
def rect4(b, P):
    return [(b[0] + b[2]) / 2 * P, (b[1] + b[3]) / 2 * P, (b[2] - b[0]) * P, (b[3] - b[1]) * P]


def dims_of_rects(rs):
    ds = [r[2] for r in rs] + [r[3] for r in rs]
    return [min(ds), max(ds)] if ds else None


def gen_stog(rng, P, variant="robust", decimal=False):
    for _ in range(50):
        c = c06.gen_case(rng)
        if len(c["rects"]) >= 2 and c["kind"] not in ("degenerate",):
            break
    rects = [[F(r["cx"]) * P, F(r["cy"]) * P, F(r["w"]) * P, F(r["h"]) * P] for r in c["rects"]]
    if decimal:
        rects = [[F(round(float(v / P) * 10), 10) * P for v in r] for r in rects]
        rects = [[r[0], r[1], max(r[2], P / 10), max(r[3], P / 10)] for r in rects]
    note = c["kind"]
    dmin = min(min(r[2], r[3]) for r in rects)
    if variant == "nonrobust":
        own = F(10) ** -12 * dmin
        i = rng.randrange(len(rects))
        if rng.random() < 0.6:
            j = rng.choice([-5, -3, -2, -2, -1, -1, 1, 1, 2, 2, 3, 5, 7])
            delta = pow2(math.floor(math.log2(own)) + j)          # a gap / shift inside the distance band
            note += "/dist"
        else:
            ln = max(min(r[2], r[3]) for r in rects)
            aown = F(math.sqrt(float(own)))
            j = rng.choice([-3, -2, -1, -1, 1, 1, 2, 3])
            delta = pow2(math.floor(math.log2(aown / ln)) + j)    # an overlap sliver inside the area band
            note += "/area"
        # both axes: whichever side the rectangle is attached by gets the gap / the overlap
        rects[i][0] += rng.choice([-1, 1]) * delta
        rects[i][1] += rng.choice([-1, 1]) * delta
    ok = all(exact(v) for r in rects for v in r) and all(
        exact(r[0] - r[2] / 2) and exact(r[0] + r[2] / 2) and exact(r[1] - r[3] / 2) and exact(r[1] + r[3] / 2)
        for r in rects)
    op = {"k": "stog", "rects": [[fl(v) for v in r] for r in rects]}
    return {"op": op, "kind": "stog", "stream": "exact" if ok and not decimal else "decimal", "variant": variant,
            "dims": dims_of_rects(rects), "note": note,
            "cand": [["N", min(min(r[2], r[3]) for r in rects)]]}


def gen_alloc(rng, P, variant="robust"):
    kind, cells = ac.gen_alloc(rng)
    for c in cells:
        if c["depth"] > 2:
            c["depth"] = 0
    ops = []
    for _ in range(rng.choice([1, 1, 2, 2, 3])):
        o = rng.choice(["refine", "refine", "griddify", "uniform"])
        if o == "refine":
            ops.append(["refine", rng.choice([F(0), F(1, 4), F(1, 2), F(15, 16), F(1)]), rng.choice([1, 1, 2])])
        else:
            ops.append([o])
    cs = []
    for c in cells:
        r = c["rect"]
        cs.append([[F(r["cx"]) * P, F(r["cy"]) * P, F(r["w"]) * P, F(r["h"]) * P, r["fixed"], r["hard"],
                    r["region"]], [[m, F(q)] for m, q in c["alloc"]], c["depth"]])
    def bbox():
        x0 = min(c[0][0] - c[0][2] / 2 for c in cs)
        x1 = max(c[0][0] + c[0][2] / 2 for c in cs)
        y0 = min(c[0][1] - c[0][3] / 2 for c in cs)
        y1 = max(c[0][1] + c[0][3] / 2 for c in cs)
        return [x1 - x0, y1 - y0]
    bb = bbox()
    note = kind
    if variant == "nonrobust" and len(cs) >= 2:
        own = F(10) ** -12 * min(bb)
        i = rng.randrange(len(cs))
        axis = rng.randrange(2)
        sign = rng.choice([-1, 1])
        if rng.random() < 0.4:
            j = rng.choice([-5, -3, -2, -1, 1, 2, 3, 5, 7])
            delta = pow2(math.floor(math.log2(own)) + j)
            note += "/dist"
        else:
            ln = max(min(c[0][2], c[0][3]) for c in cs)
            aown = F(math.sqrt(float(own)))
            j = rng.choice([-3, -2, -1, -1, 1, 1, 2, 3])
            delta = pow2(math.floor(math.log2(aown / ln)) + j)
            note += "/area"
        cs[i][0][axis] += sign * delta
        if cs[i][0][axis] - cs[i][0][2 + axis] / 2 < 0:
            cs[i][0][axis] += 2 * abs(delta)
        bb = bbox()
    ok = all(exact(v) for c in cs for v in c[0][:4]) and all(
        exact(c[0][0] - c[0][2] / 2) and exact(c[0][0] + c[0][2] / 2) and exact(c[0][1] - c[0][3] / 2) and
        exact(c[0][1] + c[0][3] / 2) for c in cs)
    op = {"k": "alloc", "cells": [[[fl(v) for v in c[0][:4]] + c[0][4:], [[m, fl(q)] for m, q in c[1]], c[2]]
                                  for c in cs],
          "ops": [[o[0]] + ([fl(o[1]), o[2]] if o[0] == "refine" else []) for o in ops]}
    ds = [c[0][2] for c in cs] + [c[0][3] for c in cs] + bb
    return {"op": op, "kind": "alloc", "stream": "exact" if ok else "decimal", "variant": variant,
            "dims": [min(ds), max(ds)], "note": note, "cand": [["A", bb[0], bb[1]]]}


def scale_tree(tree, P):
    out = {}
    for k, v in tree.items():
        if k in ("width", "height"):
            out[k] = v * P if isinstance(v, F) else v
        elif k == "regions":
            if v and not isinstance(v[0], list):
                out[k] = [x * P if isinstance(x, F) else x for x in v]
            else:
                out[k] = [[x * P if isinstance(x, F) else x for x in r] for r in v]
        else:
            out[k] = v
    return out


def gen_die(rng, P, variant="robust", decimal=False):
    for _ in range(100):
        c = c01.gen_case(rng, "decimal" if decimal else "exact")
        if c["form"] != "string":
            break
    tree = scale_tree(c["tree"], P)
    fixed = [[v * P for v in r] for r in c["fixed"]]
    note = "+".join(c["stats"][:3])
    W, H = tree["width"], tree["height"]
    regs = tree.get("regions", [])
    nested = bool(regs) and isinstance(regs[0], list)
    boxes = (regs if nested else ([regs] if regs else [])) + fixed
    if variant == "nonrobust" and boxes:
        own = F(10) ** -11 * min(W, H)
        b = rng.choice(boxes)
        axis = rng.randrange(2)
        sign = rng.choice([-1, 1])
        if rng.random() < 0.5:
            j = rng.choice([-7, -5, -3, -2, -1, -1, 1, 1, 2, 3])
            delta = pow2(math.floor(math.log2(own)) + j)
            note += "/dist"
        else:
            ln = max(min(x[2], x[3]) for x in boxes)
            aown = F(math.sqrt(float(own)))
            j = rng.choice([-4, -3, -2, -1, -1, 1, 1, 2])
            delta = pow2(math.floor(math.log2(aown / ln)) + j)
            note += "/area"
        if rng.random() < 0.5:
            b[axis] += sign * delta                 # shift
        else:
            b[2 + axis] += 2 * delta                # widen on both sides
    nums = [W, H] + [v for b in boxes for v in b[:4]]
    ok = (not decimal) and all(exact(v) for v in nums) and all(
        exact(b[0] - b[2] / 2) and exact(b[0] + b[2] / 2) and exact(b[1] - b[3] / 2) and exact(b[1] + b[3] / 2)
        for b in boxes)

    def pv(x):
        return fl(x) if isinstance(x, F) else x
    doc = {k: ([[pv(x) for x in r] for r in v] if (k == "regions" and nested) else
               ([pv(x) for x in v] if k == "regions" else pv(v))) for k, v in tree.items()}
    op = {"k": "die", "doc": doc, "netlist": None}
    if rng.random() < 0.25 and rel.refine_safe(W, H, [b[:4] for b in boxes]):
        op["refine"] = [rng.choice([1.5, 2.0, 3.0]), rng.choice([1, 4, 9, 16])]      # split_refinable_regions
    cand = []
    ds = [W, H] + [b[2] for b in boxes] + [b[3] for b in boxes]
    if fixed:
        mods = {f"M{i}": {"fixed": True, "rectangles": [[fl(v) for v in r]]} for i, r in enumerate(fixed)}
        side = min(W, H) / 4
        mods["S"] = {"area": fl(side * side)}
        op["netlist"] = {"Modules": mods, "Nets": []}
        cand.append(["N", min([min(r[2], r[3]) for r in fixed] + [side])])
        ds.append(side)
    cand.append(["D", W, H])
    return {"op": op, "kind": "die", "stream": "exact" if ok else "decimal", "variant": variant,
            "dims": [min(ds), max(ds)], "note": note, "cand": cand, "fixed": [[fl(v) for v in r] for r in fixed]}


def gen_simple_netlist(rng, P, decimal=False):
    """a well-formed netlist whose smallest distance is known: soft modules with an area (some with rectangles),
    hard modules with rectangles, terminals"""
    q = F(1, 10) if decimal else F(1, 4)
    mods, small = {}, []
    n = rng.randrange(1, 5)
    for i in range(n):
        name = f"H{i}"
        t = rng.random()
        x0, y0 = F(rng.randrange(0, 200)) * q * P, F(rng.randrange(0, 200)) * q * P
        w, h = F(rng.randrange(1, 60)) * q * P, F(rng.randrange(1, 60)) * q * P
        if t < 0.35:
            a = w * h
            mods[name] = {"area": fl(a)}
            small.append(F(math.sqrt(fl(a))))
            if rng.random() < 0.4:
                mods[name]["rectangles"] = [[fl(x0 + w / 2), fl(y0 + h / 2), fl(w), fl(h)]]
                small += [w, h]
        elif t < 0.8:
            rs = [[fl(x0 + w / 2), fl(y0 + h / 2), fl(w), fl(h)]]
            small += [w, h]
            if rng.random() < 0.5:
                w2, h2 = F(rng.randrange(1, 30)) * q * P, h
                rs.append([fl(x0 + w + w2 / 2), fl(y0 + h2 / 2), fl(w2), fl(h2)])
                small += [w2, h2]
            mods[name] = {"hard": True, "rectangles": rs}
            if rng.random() < 0.3:
                mods[name] = {"fixed": True, "rectangles": rs}
            small.append(F(math.sqrt(sum(r[2] * r[3] for r in rs))))
        else:
            mods[name] = {"terminal": True, "center": [fl(x0), fl(y0)]}
    names = list(mods)
    nets = [[rng.choice(names), rng.choice(names)] for _ in range(rng.randrange(0, 3))]
    nets = [e for e in nets if e[0] != e[1]]
    return {"Modules": mods, "Nets": nets}, (min(small) if small else None), small


def gen_terminals_only(rng):
    """a netlist without any dimension: nothing from which a tolerance could be derived"""
    mods = {f"T{i}": {"terminal": True, "center": [float(rng.randrange(0, 50)), float(rng.randrange(0, 50))]}
            for i in range(rng.randrange(1, 4))}
    names = list(mods)
    nets = [names[:2]] if len(names) >= 2 else []
    return {"op": {"k": "netlist", "doc": {"Modules": mods, "Nets": nets}}, "kind": "netlist", "stream": "logic",
            "dims": None, "cand": [["N", None]], "note": "terminals-only"}


def gen_netlist_hist(rng, P, decimal=False):
    doc, smallest, small = gen_simple_netlist(rng, P, decimal)
    return {"op": {"k": "netlist", "doc": doc}, "kind": "netlist", "stream": "decimal",
            "dims": [min(small), max(small)] if small else None, "cand": [["N", smallest]], "note": "simple"}


def gen_netlist_probe(rng, decimal):
    doc = nc.gen_doc(rng, decimal=decimal, quirks=False)
    py = nc.to_py(doc)
    ds = []
    for info in nc.mods_of(doc).values():
        if isinstance(info, dict):
            for r in info.get("rectangles", []) if isinstance(info.get("rectangles"), list) else []:
                if isinstance(r, list) and len(r) >= 4 and all(nc.is_num(v) for v in r[:4]):
                    ds += [nc.val(r[2]), nc.val(r[3])]
                elif nc.is_num(r):
                    pass
            a = info.get("area")
            if nc.is_num(a) and nc.val(a) > 0:
                ds.append(F(math.sqrt(float(nc.val(a)))))
    ds = [d for d in ds if d > 0]
    return {"op": {"k": "netlist", "doc": py}, "kind": "netlist", "stream": "decimal", "variant": None,
            "dims": [min(ds), max(ds)] if ds else [F(1), F(1)], "note": "doc", "cand": None}


def gen_yaml_text_probe(rng):
    """a netlist document given as TEXT whose scalars are read differently by YAML 1.1 and 1.2 (octal-looking
    integers, yes/no/on/off): the result must not depend on documents parsed earlier in the process"""
    a = rng.choice(["0100", "010", "100", "0o17", "1_000", "64"])
    cx, cy = rng.choice(["010", "8", "020", "1.5"]), rng.choice(["020", "16", "07", "2.5"])
    flag = rng.choice(["", ", fixed: yes", ", fixed: no", ", flip: on", ", terminal: off", ""])
    txt = ("Modules:\n"
           f"  A: {{area: {a}, center: [{cx}, {cy}]}}\n"
           f"  B: {{rectangles: [[4, 4, 2, 2]], hard: true{flag}}}\n"
           "  C: {area: 9}\n"
           "Nets: [[A, B], [A, B, C, 2]]\n")
    return {"op": {"k": "netlist", "text": txt}, "kind": "netlist", "stream": "decimal", "variant": None,
            "dims": [F(1), F(100)], "note": "yaml-text", "cand": None}


def gen_long_text_probe(rng):
    """a netlist given as YAML text of more than 4096 characters (one module per line): near-duplicates differ far
    behind the beginning of the text"""
    n = rng.choice([100, 130, 170])
    lines, small = ["Modules:"], []
    for i in range(n):
        w, h = F(rng.randrange(4, 60), 4), F(rng.randrange(4, 60), 4)
        x0, y0 = F(rng.randrange(0, 400), 4), F(rng.randrange(0, 400), 4)
        if rng.random() < 0.3:
            lines.append(f"  H{i:03d}: {{area: {fl(w * h)!r}}}")
            small.append(F(math.sqrt(fl(w * h))))
        else:
            lines.append(f"  H{i:03d}: {{rectangles: [[{fl(x0 + w / 2)!r}, {fl(y0 + h / 2)!r}, {fl(w)!r}, {fl(h)!r}]], "
                         f"hard: true}}")
            small += [w, h]
    nets = [f"[H{rng.randrange(n):03d}, H{rng.randrange(n):03d}, {rng.randrange(1, 9)}]" for _ in range(6)]
    lines.append("Nets: [" + ", ".join(nets) + "]")
    txt = "\n".join(lines) + "\n"
    return {"op": {"k": "netlist", "text": txt}, "kind": "netlist", "stream": "decimal", "variant": None,
            "dims": [min(small), max(small)], "note": "long-text", "cand": None}


def gen_sat(rng):
    c = c07.gen_case(rng)
    probe = {"op": {"k": "sat", "posts": c["posts"], "solve": rng.random() < 0.3}, "kind": "sat", "stream": "logic",
             "variant": None, "dims": None, "note": "posts", "cand": []}
    hist = None
    if c["history"]:
        hp = [p for p in c["posts"] if p["k"] == "newvar"] + c["history"]
        hist = {"op": {"k": "sat", "posts": hp}, "kind": "sat", "stream": "logic", "dims": None, "cand": [],
                "note": "related"}
    return probe, hist


def gen_legal(rng, P):
    doc, smallest, small = None, None, None
    for _ in range(50):
        doc, smallest, small = gen_simple_netlist(rng, P)
        mods = doc["Modules"]
        keep = {k: v for k, v in mods.items() if "rectangles" in v}
        if keep:
            break
    small = []
    for v in keep.values():
        for r in v["rectangles"]:
            small += [F(r[2]), F(r[3])]
        a = v.get("area", sum(r[2] * r[3] for r in v["rectangles"]))
        small.append(F(math.sqrt(a)))
    names = list(keep)
    nets = [[a, b] for a in names for b in names if a < b][:3]
    doc = {"Modules": keep, "Nets": nets}
    W = max(F(r[0]) + F(r[2]) for v in keep.values() for r in v["rectangles"]) * 2
    H = max(F(r[1]) + F(r[3]) for v in keep.values() for r in v["rectangles"]) * 2
    op = {"k": "legal", "doc": doc, "W": fl(W), "H": fl(H), "t0": rng.choice([0.9, 0.8, 0.5]),
          "dt": rng.choice([0.3, 0.1, 1.0])}
    return {"op": op, "kind": "legal", "stream": "decimal", "variant": None,
            "dims": [min(small + [W, H]), max(small + [W, H])], "note": "model", "cand": [["N", min(small)]]}


def gen_strop(rng):
    R, C = rng.randrange(1, 5), rng.randrange(1, 5)
    m = c15.gen_strop_matrix(rng, R, C)
    rows = ["".join("1" if v else "0" for v in row) for row in m]
    op = {"k": "strop", "matrix": " ".join(rows), "height": None, "width": None}
    r = rng.random()
    if r < 0.3:
        op["height"] = [fl(F(rng.randrange(1, 9), 2)) for _ in range(R)]
        op["width"] = [fl(F(rng.randrange(1, 9), 2)) for _ in range(C)]
    elif r < 0.4:
        op["height"] = [fl(F(rng.randrange(1, 9), 2)) for _ in range(R)]
    return {"op": op, "kind": "strop", "stream": "logic", "variant": None, "dims": None, "note": f"{R}x{C}",
            "cand": []}


def gen_defaults(rng):
    steps = []
    for _ in range(rng.randrange(1, 6)):
        k = rng.choice(["ineq0", "ineq0", "ineq_l", "ineq_r", "ineq_op", "expr0", "expr0x", "use"])
        if k in ("ineq_l", "ineq_r"):
            ts = [[rng.choice("abc"), rng.random() < 0.7, rng.randrange(-4, 5)] for _ in range(rng.randrange(0, 3))]
            steps.append([k, ts, rng.randrange(-3, 4)])
        elif k == "ineq_op":
            steps.append([k, rng.choice([">=", "<=", ">", "<", "=", "=="])])
        elif k == "expr0x":
            steps.append(["expr0", rng.choice("xyz")])
        else:
            steps.append([k])
    return {"op": {"k": "defaults", "steps": steps}, "kind": "defaults", "stream": "logic", "variant": None,
            "dims": None, "note": "defaults", "cand": []}


# --------------------------------------------------------------------------
# cases
# --------------------------------------------------------------------------
def clamp_factor(dims_p, dims_h_unit, k):
    """largest |k'| <= |k| such that the history design scaled by 2^k' stays within a factor 1000"""
    lo, hi = dims_p
    while True:
        f = pow2(k)
        if dims_h_unit is None or (dims_h_unit[0] * f * 1000 >= lo and dims_h_unit[1] * f <= hi * 1000):
            return k
        if k == 0:
            return None
        k += -1 if k > 0 else 1


def gen_history_op(rng, probe, base):
    """one operation on an unrelated design; geometric designs are generated at unit scale `base` and rescaled by
    a power of two so that their dimensions stay within a factor 1000 of the probe's"""
    kind = rng.choice(["netlist", "netlist", "die", "die", "alloc", "alloc", "stog", "sat", "legal", "strop",
                       "defaults", "sat"])
    if kind == "netlist" and rng.random() < 0.02:
        return gen_terminals_only(rng)
    if kind == "sat":
        p, h = gen_sat(rng)
        return h if (h is not None and rng.random() < 0.5) else p
    if kind == "strop":
        return gen_strop(rng)
    if kind == "defaults":
        return gen_defaults(rng)
    k = rng.choice([-9, -8, -6, -4, -2, 0, 0, 2, 4, 6, 8, 9])
    state = rng.getstate()
    for _ in range(12):
        rng.setstate(state)
        P = base * pow2(k)
        if kind == "netlist":
            h = gen_netlist_hist(rng, P, decimal=rng.random() < 0.3)
            if rng.random() < 0.5:
                # the same design given as YAML text (flow style = JSON), half of the time with a version directive:
                # a parser object that survives the call would carry the directive over to later documents
                import json as _json
                txt = _json.dumps(h["op"]["doc"])
                if rng.random() < 0.6:
                    txt = "%YAML 1.1\n---\n" + txt
                h["op"] = {"k": "netlist", "text": txt}
                h["note"] = "yaml-text"
        elif kind == "die":
            h = gen_die(rng, P, "robust", decimal=rng.random() < 0.2)
        elif kind == "alloc":
            h = gen_alloc(rng, P, "robust")
        elif kind == "stog":
            h = gen_stog(rng, P, "robust")
        else:
            h = gen_legal(rng, P)
        dp = probe["dims"]
        if dp is None or h["dims"] is None:
            return h
        if h["dims"][0] * 1000 >= dp[0] and h["dims"][1] <= dp[1] * 1000:
            return h
        # out of the admitted range: move the scale towards the probe's
        mid_p = math.log2(float(dp[0] * dp[1])) / 2
        mid_h = math.log2(float(h["dims"][0] * h["dims"][1])) / 2
        k += 1 if mid_h < mid_p else -1
        if abs(mid_h - mid_p) > 3:
            k += 2 if mid_h < mid_p else -2
    return None


def gen_probe(rng, quick=True, kind=None):
    if kind is None:
        kind = rng.choices(["stog", "alloc", "die", "netlist", "sat", "legal", "strop", "defaults", "die-decimal",
                            "stog-decimal"], [18, 16, 16, 12, 14, 7, 6, 6, 6, 3])[0]
    base = pow2(rng.choice([-6, -3, 0, 0, 0, 2, 5, 9]))
    variant = "nonrobust" if rng.random() < 0.3 else "robust"
    if kind == "stog":
        return gen_stog(rng, base, variant), base
    if kind == "alloc":
        return gen_alloc(rng, base, variant), base
    if kind == "die":
        return gen_die(rng, base, variant), base
    if kind == "netlist":
        if rng.random() < 0.5:
            return gen_yaml_text_probe(rng), F(1)
        return gen_netlist_probe(rng, decimal=rng.random() < 0.6), F(1)
    if kind == "sat":
        return gen_sat(rng)[0], F(1)
    if kind == "legal":
        return gen_legal(rng, base), base
    if kind == "strop":
        return gen_strop(rng), F(1)
    if kind == "defaults":
        return gen_defaults(rng), F(1)
    if kind == "die-decimal":
        dbase = F(10) ** rng.choice([-2, 0, 0, 1, 2, 3])
        return gen_die(rng, dbase, "robust", decimal=True), dbase
    dbase = F(10) ** rng.choice([-1, 0, 1, 3])
    return gen_stog(rng, dbase, "robust", decimal=True), dbase


def strip(d):
    """what is stored in a case: the operation and the meta data needed by the model side"""
    return {"op": d["op"], "kind": d["kind"], "stream": d.get("stream"), "variant": d.get("variant"),
            "dims": d.get("dims"), "cand": d.get("cand"), "note": d.get("note", ""), "fixed": d.get("fixed"),
            "needs_installer": bool(d.get("needs_installer"))}


def gen_group(rng, nprobes):
    """a history and several probes executed (each in its own fork) at its end"""
    probes = []
    for _ in range(nprobes):
        p, base = gen_probe(rng)
        probes.append((p, base))
    # the history is generated against the first geometric probe's scale; the others must admit it as well
    hist = []
    n = rng.choice([1, 1, 2, 2, 3, 4, 5, 6, 8, 12])
    lead = next(((p, b) for p, b in probes if p["dims"] is not None), (probes[0][0], F(1)))
    for _ in range(n):
        h = gen_history_op(rng, lead[0], lead[1])
        if h is not None:
            hist.append(strip(h))
    # related SAT history (same variables, neighbouring inequalities) when a SAT probe is present
    for p, _ in probes:
        if p["kind"] == "sat" and rng.random() < 0.7:
            c = {"posts": p["op"]["posts"]}
            vs = [q for q in p["op"]["posts"] if q["k"] == "newvar"]
            rel = []
            for q in p["op"]["posts"]:
                if q["k"] == "ineq":
                    # the same inequality under the other diagram construction (same serialised data, another
                    # diagram), and now and then a neighbour
                    rel.append(dict(q, decomp=not q["decomp"]))
                    if rng.random() < 0.4:
                        rel.append(dict(q, b=q["b"] + rng.choice([-1, 1]), decomp=rng.random() < 0.5))
            if rel:
                hist.insert(rng.randrange(len(hist) + 1),
                            strip({"op": {"k": "sat", "posts": vs + rel}, "kind": "sat", "stream": "logic",
                                   "dims": None, "cand": [], "note": "related"}))
    # a document given as text is probed after another TEXT document that carries a YAML version directive
    for p, _ in probes:
        if p.get("note") == "yaml-text" and rng.random() < 0.85:
            import json as _json
            h = gen_netlist_hist(rng, F(1), decimal=False)
            h["op"] = {"k": "netlist", "text": "%YAML 1.1\n---\n" + _json.dumps(h["op"]["doc"])}
            h["note"] = "yaml-text"
            hist.insert(rng.randrange(len(hist) + 1), strip(h))
    # objects built from default arguments: an earlier caller that used (and modified) what it was handed
    for p, _ in probes:
        if p["kind"] == "defaults" and rng.random() < 0.7:
            steps = [rng.choice([["use"], ["ineq0"], ["expr0", "x"], ["ineq_l", [["a", True, 2]], 1]])
                     for _ in range(rng.randrange(1, 4))] + [["use"]]
            hist.insert(rng.randrange(len(hist) + 1),
                        strip({"op": {"k": "defaults", "steps": steps}, "kind": "defaults", "stream": "logic",
                               "dims": None, "cand": [], "note": "related"}))
        if p["kind"] == "strop" and rng.random() < 0.7:
            h = gen_strop(rng)
            hist.insert(rng.randrange(len(hist) + 1), strip(h))
    cases = []
    for p, _ in probes:
        hs = [h for h in hist if admissible(p, h)]
        if not hs:
            continue
        cases.append({"history": hs, "probe": strip(p)})
    return cases


def admissible(p, h):
    if p["dims"] is None or h["dims"] is None:
        return True
    return F(h["dims"][0]) * 1000 >= F(p["dims"][0]) and F(h["dims"][1]) <= F(p["dims"][1]) * 1000


# --------------------------------------------------------------------------
# histories of RELATED designs: near-duplicates of the probe (harness/props/c20_related.py), the probe itself,
# and a few unrelated operations in between
# --------------------------------------------------------------------------
REL_KINDS = ["die-grid", "die", "alloc", "stog", "netlist", "sat", "die-grid", "die", "legal", "alloc", "strop",
             "netlist", "stog", "sat", "die-grid", "defaults", "die", "netlist-simple", "die-grid-large",
             "netlist-long", "die-pattern-64", "alloc-pattern", "stog-pattern", "die-pattern"]


# near-duplicates of a die are probed only while the grid of cut coordinates stays small: the cost of evaluating the
# die model in Coq grows steeply with the number of cells, and every near-duplicate of a large die is large
MAX_REL_CELLS = 20


def installs(h):
    """an operation whose candidate tolerance is known and defined: it installs the tolerances when none are"""
    return (not h.get("needs_installer")) and any(c[1] is not None for c in (h.get("cand") or []))


def fix_installer(rng, hist, probe):
    """operations whose candidate tolerance is not predicted (documents with region-wise areas, texts) must come
    after a first writer whose candidate is: the tolerance trace of the history stays fully predicted by the model"""
    if not any(h.get("needs_installer") for h in hist):
        return hist
    first = next((i for i, h in enumerate(hist) if installs(h)), None)
    if first is None:
        inst = None
        for P in (F(1), F(4), F(1, 4), F(16), F(1, 16), F(64), F(256)):
            for _ in range(4):
                h = strip(gen_netlist_hist(rng, P, decimal=False))
                if installs(h) and admissible(probe, h):
                    inst = h
                    break
            if inst is not None:
                break
        if inst is None:
            return [h for h in hist if not h.get("needs_installer")]
        return [inst] + hist
    early = [h for h in hist[:first] if h.get("needs_installer")]
    return [h for h in hist[:first] if not h.get("needs_installer")] + [hist[first]] + early + hist[first + 1:]


def installer_rule_ok(hist):
    seen = False
    for h in hist:
        if installs(h):
            seen = True
        elif h.get("needs_installer") and not seen:
            return False
    return True


def gen_related_group(rng, kind):
    """one history made of near-duplicates of the probed designs; the probe and some of its near-duplicates are each
    executed (in their own fork) at its end, so every probed design has itself and its neighbours in the history"""
    if kind in ("die-grid", "die-grid-large"):
        base = pow2(rng.choice([-6, -3, 0, 0, 0, 2, 5, 9]))
        fam = [strip(m) for m in rel.die_grid_family(rng, base, large=kind == "die-grid-large")]
        lead = fam[0]
        probes = [fam[0]] + rng.sample(fam[1:], min(3, len(fam) - 1))
        chosen = list(fam)
        chosen += [copy_of(m) for m in probes if rng.random() < 0.5]              # executed twice
    elif "-pattern" in kind:
        # ONE index pattern (occupancy matrix, regions / cells / rectangles by line numbers) over other coordinates
        base = pow2(rng.choice([-6, -3, 0, 0, 0, 2, 5, 9]))
        shape = rng.choice([sh for sh in rel.PATTERN_SHAPES if sh[0] * sh[1] >= 64]) if kind.endswith("-64") else None
        fam = [strip(m) for m in rel.pattern_family(rng, base, kind.split("-")[0], shape)]
        lead = fam[0]
        probes = rng.sample(fam, min(4, len(fam)))
        chosen = list(fam) + [copy_of(m) for m in probes if rng.random() < 0.3]
    else:
        pk = {"netlist-simple": "netlist", "netlist-long": "netlist"}.get(kind, kind)
        p, base = gen_probe(rng, kind=pk)
        for _ in range(20):
            if pk != "die" or rel.die_cells(p) <= MAX_REL_CELLS:
                break
            p, base = gen_probe(rng, kind=pk)          # a die whose model evaluates quickly (see MAX_REL_CELLS)
        if kind == "netlist-simple":
            base = pow2(rng.choice([-6, -3, 0, 0, 2, 5]))
            p = gen_netlist_hist(rng, base)
            p["variant"] = None
        if kind == "netlist-long":
            p, base = gen_long_text_probe(rng), F(1)
        if pk == "die" and "refine" not in p["op"] and rng.random() < 0.5:
            W_, H_, bx_, fx_, _ = rel.die_parts(dict(p, fixed=p.get("fixed")))
            if rel.refine_safe(W_, H_, [b[:4] for b in bx_] + fx_):
                p["op"]["refine"] = [rng.choice([1.5, 2.0, 3.0]), rng.choice([1, 4, 9, 16])]
        if pk == "alloc":
            # the probed run exercises every operation of the class at least once
            have = {o[0] for o in p["op"]["ops"]}
            if "refine" not in have:
                p["op"]["ops"].append(["refine", rng.choice([0.25, 0.5, 0.9375]), rng.choice([1, 2])])
            if "griddify" not in have and "uniform" not in have and len(p["op"]["ops"]) < 3:
                p["op"]["ops"].insert(rng.randrange(len(p["op"]["ops"]) + 1), [rng.choice(["griddify", "uniform"])])
        lead = strip(p)
        fam = [strip(m) for m in rel.relatives(rng, lead)]
        selfs = [m for m in fam if m["note"] == "rel:self"]
        others = [m for m in fam if m["note"] != "rel:self"]
        # every near-duplicate, or a handful of them
        chosen = list(others) if rng.random() < 0.5 else rng.sample(others, min(len(others), rng.randrange(3, 10)))
        chosen += [copy_of(selfs[0]) for _ in range(rng.choice([0, 1, 1, 2, 3]))] if selfs else []
        cheap = [m for m in others if m["kind"] != "die" or rel.die_cells(m) <= MAX_REL_CELLS]
        probes = [lead] + rng.sample(cheap, min(len(cheap), 2))
    rng.shuffle(chosen)
    for _ in range(rng.choice([0, 0, 1, 2, 3])):
        h = gen_history_op(rng, lead, base)
        if h is not None:
            chosen.insert(rng.randrange(len(chosen) + 1), strip(h))
    cases = []
    for p in probes:
        hs = fix_installer(rng, [h for h in chosen if admissible(p, h)], p)
        if hs and installer_rule_ok(hs):
            cases.append({"history": hs, "probe": dict(p, needs_installer=False)})
    return cases


def copy_of(d):
    return copy.deepcopy(d)


# --------------------------------------------------------------------------
# designs READ FROM YAML and then CHANGED IN PLACE by the library's own operations (initial_allocation tags the cells
# covered by fixed modules, refine / griddify hand Rectangle objects on, create_squares / create_stogs / recenter
# rewrite the rectangles of a netlist) before the probe loads a textually / cell-wise identical design
# --------------------------------------------------------------------------
def num_txt(x):
    x = F(x)
    return str(int(x)) if x.denominator == 1 else repr(float(x))


def num_val(x):
    x = F(x)
    return int(x) if x.denominator == 1 else float(x)


def allocflow_design(cells, mods, steps, form, note):
    """cells: [[cx, cy, w, h] (Fractions), [[module, ratio]], depth]; mods: [name, 'fixed', [rects]] | [name, 'soft',
    area, [x, y]]; form: 'text' | 'tree' (the same numbers, integers written as integers)"""
    if form == "text":
        lines = []
        for r, al, dp in cells:
            body = "{" + ", ".join(f"{m}: {q!r}" for m, q in al) + "}"
            lines.append(f"- [[{', '.join(num_txt(v) for v in r)}], {body}" + (f", {dp}]" if dp else "]"))
        alloc = "\n".join(lines) + "\n"
    else:
        alloc = [[[num_val(v) for v in r], {m: q for m, q in al}] + ([dp] if dp else []) for r, al, dp in cells]
    ml = []
    for m in mods:
        if m[1] == "fixed":
            rs = ", ".join("[" + ", ".join(num_txt(v) for v in r) + "]" for r in m[2])
            ml.append(f"  {m[0]}: {{fixed: true, rectangles: [{rs}]}}")
        else:
            ml.append(f"  {m[0]}: {{area: {num_txt(m[2])}, center: [{num_txt(m[3][0])}, {num_txt(m[3][1])}]}}")
    names = [m[0] for m in mods]
    nets = f"  - [{', '.join(names)}]" if len(names) >= 2 else ""
    netlist = "Modules:\n" + "\n".join(ml) + "\nNets:" + ("\n" + nets if nets else " []") + "\n"
    x0 = min(r[0] - r[2] / 2 for r, _, _ in cells)
    x1 = max(r[0] + r[2] / 2 for r, _, _ in cells)
    y0 = min(r[1] - r[3] / 2 for r, _, _ in cells)
    y1 = max(r[1] + r[3] / 2 for r, _, _ in cells)
    bb = [x1 - x0, y1 - y0]
    ds = [v for r, _, _ in cells for v in r[2:4]] + bb
    for m in mods:
        ds += [v for r in m[2] for v in r[2:4]] if m[1] == "fixed" else [F(math.sqrt(float(m[2])))]
    return {"op": {"k": "allocflow", "alloc": alloc, "netlist": netlist, "steps": steps}, "kind": "allocflow",
            "stream": "flow", "variant": None, "dims": [min(ds), max(ds)], "note": "rel:" + note,
            "cand": [["A", bb[0], bb[1]]], "fixed": None, "needs_installer": False}


def allocflow_family(rng, P):
    nx, ny = rng.choice([(2, 1), (2, 2), (3, 1), (3, 2), (4, 2), (3, 3), (4, 1)])
    w, h = F(rng.choice([1, 2, 2, 3, 4])) * P, F(rng.choice([1, 2, 2, 3])) * P
    grid = [[(i + F(1, 2)) * w, (j + F(1, 2)) * h, w, h] for j in range(ny) for i in range(nx)]
    names = ["M1", "M2", "M3"][:rng.choice([1, 2, 2, 3])]
    ratios = [0.125, 0.25, 0.4, 0.4, 0.5, 0.9, 1.0]

    def contents():
        out = []
        for _ in grid:
            ms = [m for m in names if rng.random() < 0.6]
            out.append([[m, rng.choice(ratios)] for m in ms])
        return out
    base = contents()
    if not any(base):
        base[0] = [[names[0], 0.4]]
    cells = [[r, al, 0] for r, al in zip(grid, base)]
    empty = [[r, [], 0] for r in grid]
    A = w * h

    def soft(k):
        return [[m, "soft", A * rng.choice([F(1, 2), F(1), F(3, 2), F(2)]),
                 [rng.randrange(1, 2 * nx) * w / 2, rng.randrange(1, 2 * ny) * h / 2]] for m in names[:k]]
    n0 = soft(len(names))
    thr = rng.choice([0.25, 0.5, 0.5, 0.9375])
    lead_steps = [["mbr", thr], ["refine", thr, rng.choice([1, 1, 2])], ["initial", False, rng.random() < 0.5]]
    if rng.random() < 0.5:
        lead_steps.append(rng.choice([["griddify"], ["uniform"], ["mbr", thr], ["reread"]]))
    fam = [allocflow_design(cells, n0, lead_steps, "text", "self")]
    covered = rng.sample(range(len(grid)), min(len(grid), rng.choice([1, 2, 3])))
    for i in covered:
        fx = [["FX", "fixed", [grid[i]]]]
        if len(grid) > 2 and rng.random() < 0.3:
            j = (i + 1) % len(grid)
            fx = [["FX", "fixed", [grid[i], grid[j]]]] if rng.random() < 0.5 else fx + [["FY", "fixed", [grid[j]]]]
        nl = fx + soft(rng.randrange(0, len(names) + 1))
        go = rng.random() < 0.5
        # the history design: the same cells (empty, or with the probe's contents) with a fixed module on cell i
        fam.append(allocflow_design(empty, nl, [["initial", False, go], ["mbr", thr], ["refine", thr, 1]], "text",
                                    "fixed-cover"))
        fam.append(allocflow_design(cells, nl, [["initial", rng.random() < 0.3, go], ["refine", thr, 1]],
                                    rng.choice(["text", "tree"]), "fixed-cover"))
    fam.append(allocflow_design(cells, n0, lead_steps, "tree", "form"))
    fam.append(allocflow_design(cells, n0, [["refine", thr, 1], ["reread"], ["initial", False, True], ["griddify"],
                                            ["uniform"], ["reread"], ["mbr", thr]], "text", "loop"))
    c2 = [[r, al, 0] for r, al in zip(grid, contents())]
    fam.append(allocflow_design(c2, n0, lead_steps, "text", "onefield"))
    if nx > 2:
        keep = [k for k in range(len(grid)) if k % nx != nx - 1]
        fam.append(allocflow_design([cells[k] for k in keep], n0, lead_steps, "text", "drop"))
    fam.append(allocflow_design(cells[::-1], n0, [["initial", False, False]] + lead_steps[:2], "text", "reorder"))
    return fam


NETFLOW = ["squares", "stogs", "recenter", "fixall"]


def netflow_family(rng, P):
    """one netlist text (soft modules with centres, a hard module made of a trunk and a branch, a fixed module) loaded
    and then changed in place by create_squares / create_stogs / recenter_rectangles / fixed flags; the probe loads
    the same text"""
    u = F(rng.choice([1, 2, 4])) * P
    tr = [4 * u, 3 * u, 4 * u, 2 * u]
    br = [4 * u, 5 * u, 2 * u, 2 * u] if rng.random() < 0.7 else [7 * u, 3 * u, 2 * u, 2 * u]
    fx = [10 * u, 2 * u, 2 * u, 4 * u]

    def rtxt(r):
        return "[" + ", ".join(num_txt(v) for v in r) + "]"
    lines = ["Modules:",
             f"  H1: {{hard: true, rectangles: [{rtxt(tr)}, {rtxt(br)}]}}",
             f"  S1: {{area: {num_txt(4 * u * u)}, center: [{num_txt(2 * u)}, {num_txt(8 * u)}]}}",
             f"  S2: {{area: {num_txt(9 * u * u)}, center: [{num_txt(8 * u)}, {num_txt(8 * u)}]}}",
             f"  F1: {{fixed: true, rectangles: [{rtxt(fx)}]}}",
             "Nets:", "  - [H1, S1, S2]", "  - [S2, F1, 2]"]
    txt = "\n".join(lines) + "\n"
    dims = [2 * u, 4 * u]

    def mk(mut, note):
        return {"op": {"k": "netlist", "text": txt, "mutate": mut}, "kind": "netlist", "stream": "decimal",
                "variant": None, "dims": dims, "note": "rel:" + note, "cand": None, "fixed": None,
                "needs_installer": True}
    fam = [mk([], "self")]
    for _ in range(4):
        mut = [rng.choice(NETFLOW) for _ in range(rng.choice([1, 2, 3]))]
        fam.append(mk(mut, "mutate"))
    fam.append(mk(list(NETFLOW), "mutate"))
    return fam


def gen_flow_group(rng, kind):
    base = pow2(rng.choice([-3, -2, 0, 0, 0, 1, 3]))
    fam = [strip(m) for m in (allocflow_family(rng, base) if kind == "allocflow" else netflow_family(rng, base))]
    lead = fam[0]
    probes = [lead] + rng.sample(fam[1:], min(2, len(fam) - 1))
    chosen = [copy_of(m) for m in fam[1:]] + [copy_of(lead) for _ in range(rng.choice([0, 1]))]
    rng.shuffle(chosen)
    if kind == "allocflow" and rng.random() < 0.5:
        # the netlist of one of the designs loaded (and changed in place) on its own
        m = rng.choice(fam)
        chosen.insert(rng.randrange(len(chosen) + 1),
                      strip({"op": {"k": "netlist", "text": m["op"]["netlist"], "mutate": ["squares", "stogs"]},
                             "kind": "netlist", "stream": "decimal", "variant": None, "dims": m["dims"],
                             "note": "rel:mutate", "cand": None, "needs_installer": True}))
    for _ in range(rng.choice([0, 0, 1, 2])):
        h = gen_history_op(rng, lead, base)
        if h is not None:
            chosen.insert(rng.randrange(len(chosen) + 1), strip(h))
    cases = []
    for p in probes:
        hs = fix_installer(rng, [h for h in chosen if admissible(p, h)], p)
        if hs and installer_rule_ok(hs):
            cases.append({"history": hs, "probe": dict(copy_of(p), needs_installer=False)})
    return cases


def with_sat_api(case):
    """the SAT operations of a history also call the public methods of SATManager that post nothing (the deprecated
    prioritize with negated literals, setflipped, isflipped, newaux, printclauses, tocnf, solve, value, evalexpr,
    newvar with another prefix) on their variables - whose names the probed manager registers as well.  Derived
    from the content of the operation (equal histories stay equal; the objects are not modified: a near-duplicate
    in a history may be the very object that is probed)"""
    if case.get("threshold") or case.get("tail"):
        return case
    import random
    import zlib
    hs = []
    for h in case["history"]:
        op = h["op"]
        if op.get("k") == "sat" and not any(q["k"] == "api" for q in op["posts"]):
            r = random.Random(zlib.crc32(json.dumps(fr.tojson(op["posts"]), sort_keys=True).encode()))
            names = [q["v"] for q in op["posts"] if q["k"] == "newvar"]
            if names and r.random() < 0.7:
                posts = list(op["posts"])
                first = max(i for i, q in enumerate(posts) if q["k"] == "newvar") + 1
                for _ in range(r.choice([1, 1, 2, 3])):
                    posts.insert(r.randint(first, len(posts)), c07.gen_api_call(r, names))
                h = dict(h, op=dict(op, posts=posts))
        hs.append(h)
    return dict(case, history=hs)


# --------------------------------------------------------------------------
# the SIZE of the process-wide diagram store: a history that leaves 10^4 .. 2^21 nodes behind
# --------------------------------------------------------------------------
def gen_sat_ext_probe(rng):
    """a fresh manager posting one to three NON-CLAUSE inequalities (their diagrams go through the store); the
    observation includes the projection of the CNF on the registered variables"""
    nv = rng.choice([3, 4, 5, 6])
    names = c07.NAMES[:nv]
    posts = [{"k": "newvar", "v": v} for v in names]
    for _ in range(rng.choice([1, 1, 2, 3])):
        vs = rng.sample(names, rng.randrange(3, nv + 1))
        cs = [rng.choice([1, 2, 2, 3, 4, 5]) for _ in vs]
        if sum(cs) <= max(cs) + 1:
            cs = [2] * len(vs)
        posts.append({"k": "ineq", "lt": [[v, rng.random() < 0.75, c] for v, c in zip(vs, cs)], "rt": [],
                      "b": rng.randint(max(cs) + 1, sum(cs) - 1), "op": "GE", "decomp": rng.random() < 0.3,
                      "via": "ctor"})
    if rng.random() < 0.4:
        posts.append(c07.gen_post(rng, names))
    return {"op": {"k": "sat", "posts": posts, "solve": rng.random() < 0.5}, "kind": "sat",
            "stream": "logic", "variant": None, "dims": None, "note": "posts/ext", "cand": []}


def gen_bigstore_group(rng, nodes):
    """history: (now and then a few small encodings, then) `nodes` diagram nodes of unrelated inequalities; probes:
    fresh managers posting non-clause inequalities, and two operations of other kinds"""
    hist = []
    for _ in range(rng.choice([0, 0, 1, 2])):
        hist.append(strip(gen_sat(rng)[0]))
    hist.append(strip({"op": {"k": "satgrow", "nodes": int(nodes), "pyseed": rng.randrange(1 << 30), "tag": "g"},
                       "kind": "satgrow", "stream": "logic", "dims": None, "cand": [], "note": f"bigstore:{nodes}"}))
    probes = [gen_sat_ext_probe(rng) for _ in range(3)]
    probes.append(gen_sat(rng)[0])
    for k in ("strop", "defaults"):
        probes.append(gen_probe(rng, kind=k)[0])
    return [{"history": copy_of(hist), "probe": strip(p)} for p in probes]


# --------------------------------------------------------------------------
# the store JUST BELOW a size threshold, crossed in the middle of ONE manager's posting sequence
# --------------------------------------------------------------------------
THRESHOLDS_QUICK = [1 << 10, 10 ** 3, 1 << 12, 10 ** 4, 1 << 16, 10 ** 5, 1 << 17, 1 << 18]
THRESHOLDS_ALL = sorted([1 << k for k in range(10, 22)] + [10 ** k for k in range(3, 7)])


def gen_threshold_probe(rng):
    """(early, probe): `early` is a small design encoded as the very first thing of the process (its nodes get the
    smallest ids); the probe is ONE manager posting four non-clause inequalities: P1 has the early inequality as the
    cofactor by its heaviest literal (new root nodes over the early, small-id nodes), P2 is unrelated, P3 is the early
    inequality itself (no new node at all after the history), P4 is unrelated again."""
    nv = rng.choice([5, 5, 6])
    names = c07.NAMES[:nv]
    newvars = [{"k": "newvar", "v": v} for v in names]
    while True:
        vs = rng.sample(names[1:], rng.choice([3, 4, 4, nv - 1]))
        cs = sorted([rng.choice([1, 1, 2, 2, 3, 4, 5]) for _ in vs], reverse=True)
        if sum(cs) - max(cs) >= 2 and len(vs) >= 3:
            break
    eb = rng.randint(max(cs) + 1, sum(cs) - 1) if sum(cs) - 1 >= max(cs) + 1 else sum(cs)
    elt = [[v, rng.random() < 0.8, c] for v, c in zip(vs, cs)]
    early = {"k": "ineq", "lt": elt, "rt": [], "b": eb, "op": "GE", "decomp": False, "via": "ctor"}
    c0 = max(cs) + rng.choice([1, 2, 4])
    pol = rng.random() < 0.8
    # positive heavy literal: the cofactor "literal true" is (rest >= b - c0); negative: the cofactor "literal false"
    p1 = {"k": "ineq", "lt": [[names[0], pol, c0]] + elt, "rt": [], "b": eb + c0, "op": "GE", "decomp": False,
          "via": "ctor"}

    def other():
        ws = rng.sample(names, rng.randrange(3, nv + 1))
        ds = [rng.choice([1, 2, 2, 3, 4, 5]) for _ in ws]
        if sum(ds) <= max(ds) + 1:
            ds = [2] * len(ws)
        return {"k": "ineq", "lt": [[v, rng.random() < 0.75, c] for v, c in zip(ws, ds)], "rt": [],
                "b": rng.randint(max(ds) + 1, sum(ds) - 1), "op": "GE", "decomp": rng.random() < 0.3, "via": "ctor"}
    posts = newvars + [p1, other(), dict(early), other()]
    early_op = strip({"op": {"k": "sat", "posts": newvars + [early], "solve": True}, "kind": "sat", "stream": "logic",
                      "dims": None, "cand": [], "note": "early"})
    probe = {"op": {"k": "sat", "posts": posts, "solve": rng.random() < 0.5}, "kind": "sat", "stream": "logic",
             "variant": None, "dims": None, "note": "posts/threshold", "cand": []}
    return early_op, strip(probe)


def measure_threshold_probes(pairs):
    """new diagram nodes after each post of every probe, executed after its early design (on the checked tree, one worker
    call for all of them): cumulative counts c_1 = 0 <= c_2 <= ... (c_j = nodes the posts before the j-th inequality
    created).  None when the worker could not tell"""
    jobs = [{"id": f"m{i}", "history": [wj(e["op"])], "probes": [wj(p["op"])]} for i, (e, p) in enumerate(pairs)]
    outs = call_workers_parallel([jobs], fork=True, par=1)[0] if jobs else []
    res = []
    for (e, p), o in zip(pairs, outs):
        try:
            raw = unwj(o["probes"][0]["raw"])
            ineq = [i for i, q in enumerate(p["op"]["posts"]) if q["k"] == "ineq"]
            lens = [raw["memlen0"]] + list(raw["memlens"])
            res.append([lens[i] - raw["memlen0"] for i in ineq] + [lens[-1] - raw["memlen0"]])
        except Exception:
            res.append(None)
    return res


def threshold_offsets(cum, quick):
    """store sizes (as T - d) at the start of the probe so that the size T is passed / reached exactly at the start of
    the j-th inequality, in the middle of the second one, and at the start of the probe"""
    ds = []
    c = cum or [0, 3, 8, 8, 12]
    for j in range(1, len(c) - 1):
        ds += [c[j] - 1, c[j]]            # T + 1 (just passed) / exactly T nodes when the (j+1)-th conversion starts
    ds += [(c[1] + c[2]) // 2, 0, -1]     # passed while the second diagram is built; T / T + 1 at the probe's start
    out = []
    for d in ds:
        if d not in out:
            out.append(d)
    return out[:5] if quick else out


def gen_threshold_group(rng, T, early, probe, cum, quick):
    """history: the early design, then unrelated encodings up to a store of T - D nodes (D above every offset); the last
    step of each history - growth to exactly T - d - is executed in the probe's own fork (case field `tail`)"""
    ds = threshold_offsets(cum, quick)
    D = max(ds) + 1
    hist = [copy_of(early),
            strip({"op": {"k": "satgrow", "nodes": 0, "upto": int(T - D), "pyseed": rng.randrange(1 << 30), "tag": "g"},
                   "kind": "satgrow", "stream": "logic", "dims": None, "cand": [], "note": f"below:{T}"})]
    cases = []
    for d in ds:
        tail = [{"k": "satgrow", "nodes": 0, "upto": int(T - d), "pyseed": rng.randrange(1 << 30), "tag": "h"}]
        cases.append({"history": copy_of(hist), "tail": tail, "probe": copy_of(probe),
                      "threshold": {"T": int(T), "d": int(d), "cum": cum}})
    return cases


# --------------------------------------------------------------------------
# executing cases (batched)
# --------------------------------------------------------------------------
_CACHE = {}


def okey(x) -> str:
    """an ORDER-SENSITIVE hash: two documents that differ only in the order of their modules (dictionary keys) are
    different designs here (core.canon_hash sorts the keys and would identify them)"""
    import hashlib
    return hashlib.sha1(json.dumps(fr.tojson(x), sort_keys=False, default=str).encode()).hexdigest()


def case_key(case):
    return okey(case)


def wj(x):
    """JSON for the worker: floats as hex"""
    if isinstance(x, F):
        x = float(x)
    if isinstance(x, float):
        return {"$f": x.hex()}
    if isinstance(x, dict):
        return {k: wj(v) for k, v in x.items()}
    if isinstance(x, (list, tuple)):
        return [wj(v) for v in x]
    return x


def unwj(x):
    if isinstance(x, dict):
        if set(x) == {"$f"}:
            return float.fromhex(x["$f"])
        return {k: unwj(v) for k, v in x.items()}
    if isinstance(x, list):
        return [unwj(v) for v in x]
    return x


def eps_of(st):
    st = unwj(st)
    e = st.get("eps")
    if e is None or e[0] < 0:
        return None
    return e


def assemble(case, alone, after_job, idx):
    tr = after_job.get("trace", [])
    after = after_job["probes"][idx]
    obs = {"alone": {"digest": alone.get("digest"), "obs": alone.get("obs")},
           "after": {"digest": after.get("digest"), "obs": after.get("obs")},
           "trace": [eps_of(t["after"]) for t in tr],
           "trace_mem": [unwj(t["after"]).get("memlen") for t in tr],
           "eps_own": eps_of(alone["after"]) if "after" in alone else None,
           "eps_hist": eps_of(after["before"]) if "before" in after else None,
           "eps_after": eps_of(after["after"]) if "after" in after else None,
           "raw_alone": alone.get("raw"), "raw_after": after.get("raw"), "attrib": None}
    if case.get("tail"):
        obs["tail_mem"] = [unwj(t["after"]).get("memlen") for t in after.get("tail", [])]
        obs["tail_landed"] = [bool((unwj(t.get("obs")) or {}).get("landed")) for t in after.get("tail", [])]
    if "worker_error" in alone or "worker_error" in after or "worker_error" in after_job:
        obs["crash"] = str(alone.get("worker_error") or after.get("worker_error") or after_job.get("worker_error"))
    return obs


def run_batch(cases, par=8):
    """execute all cases: one job per distinct history (its probes forked at the end), one job with every distinct
    probe alone; then the attribution runs for the pairs that differ"""
    groups, order = {}, []
    for c in cases:
        hk = okey(c["history"])
        if hk not in groups:
            groups[hk] = {"history": c["history"], "cases": []}
            order.append(hk)
        groups[hk]["cases"].append(c)
    probes, pidx = [], {}
    for c in cases:
        pk = okey(c["probe"]["op"])
        if pk not in pidx:
            pidx[pk] = len(probes)
            probes.append(c["probe"]["op"])
    jobs = [{"id": hk, "history": [wj(h["op"]) for h in groups[hk]["history"]],
             "probes": [wj(c["probe"]["op"]) for c in groups[hk]["cases"]],
             "tails": [wj(c.get("tail")) for c in groups[hk]["cases"]]} for hk in order]
    alone_jobs = [{"id": f"alone{i}", "history": [], "probes": [wj(p) for p in probes[i:i + 40]]}
                  for i in range(0, len(probes), 40)]
    # histories that grow the diagram store take 20-40 s: each leads a batch of its own worker
    heavy = [j for j in jobs if any(h.get("k") == "satgrow" and max(h.get("nodes", 0), h.get("upto") or 0) > 200000
                                    for h in j["history"])]
    jobs = heavy + [j for j in jobs if j not in heavy]
    alljobs = (jobs[:len(heavy)] + alone_jobs + jobs[len(heavy):]) if heavy else alone_jobs + jobs
    nb = max(1, min(par, len(alljobs)))
    batches = [alljobs[i::nb] for i in range(nb)]
    outs = call_workers_parallel(batches, fork=True, par=par)
    res = {}
    for b, o in zip(batches, outs):
        for j, r in zip(b, o):
            res[j["id"]] = r
    alone = []
    for j in alone_jobs:
        r = res[j["id"]]
        alone += r.get("probes", [{"worker_error": r.get("worker_error", "?")}] * len(j["probes"]))
    out = {}
    differing = []
    for hk in order:
        r = res[hk]
        for i, c in enumerate(groups[hk]["cases"]):
            pk = okey(c["probe"]["op"])
            a = alone[pidx[pk]]
            if "probes" not in r:
                obs = {"crash": str(r.get("worker_error", "no result"))}
            else:
                obs = assemble(c, a, r, i)
            out[case_key(c)] = obs
            if "crash" not in obs and obs["alone"]["digest"] != obs["after"]["digest"] and obs["eps_hist"]:
                differing.append((c, obs))
    # attribution: the probe alone, with the tolerances the history had installed set beforehand
    if differing:
        ajobs = [{"id": f"att{i}", "history": [], "probes": [wj(c["probe"]["op"])], "preset": wj(o["eps_hist"])}
                 for i, (c, o) in enumerate(differing) if all(math.isfinite(v) for v in o["eps_hist"])]
        if ajobs:
            nb = max(1, min(par, len(ajobs)))
            bs = [ajobs[i::nb] for i in range(nb)]
            os_ = call_workers_parallel(bs, fork=True, par=par)
            ares = {}
            for b, o in zip(bs, os_):
                for j, r in zip(b, o):
                    ares[j["id"]] = r
            for i, (c, o) in enumerate(differing):
                r = ares.get(f"att{i}")
                if r and r.get("probes"):
                    o["attrib"] = r["probes"][0].get("digest")
    return out


def run_impl(case):
    k = case_key(case)
    if k not in _CACHE:
        _CACHE.update(run_batch([case], par=2))
    return _CACHE[k]


# --------------------------------------------------------------------------
# Gallina
# --------------------------------------------------------------------------
def grect7(r, loc="NOPOLY"):
    fixed = r[4] if len(r) > 4 else False
    hard = r[5] if len(r) > 5 else False
    region = r[6] if len(r) > 6 else "_"
    return (f"(mkRect {gq(r[0])} {gq(r[1])} {gq(r[2])} {gq(r[3])} {gbool(fixed)} {gbool(hard)} "
            f"{gstr(region)} {loc})")


def gcand(cands):
    """the candidate tolerances an operation would install, in the order of its constructors"""
    out = []
    for c in cands or []:
        if c[0] == "N":
            out.append("(HNetlist None)" if c[1] is None else f"(HNetlist (Some {gq(F(c[1]))}))")
        elif c[0] == "D":
            out.append(f"(HDie {gq(F(c[1]))} {gq(F(c[2]))})")
        elif c[0] == "A":
            out.append(f"(HAlloc {gq(F(c[1]))} {gq(F(c[2]))})")
    return glist(out)


def gepsopt(e):
    return "None" if e is None else f"(Some ({gq(e[0])}, {gq(e[1])}))"


def band_of(case):
    """the tolerance band the property's quantifier admits for this probe: every first writer whose dimensions are
    within a factor 1000 (netlist/allocation: 1e-12 * smallest, die: 1e-11 * smaller side)"""
    lo_d, hi_d = (F(v) for v in case["probe"]["dims"])
    # (the code computes the candidate as a binary64 product, e.g. 1e-12 * 0.01 = 9.999999999999999e-15: a first writer
    # exactly a factor 1000 away lands a rounding below / above the exact bound, hence the same 1e-9 slack as for the areas)
    lo = F(10) ** -12 * lo_d / 1000 * (1 - F(1, 10 ** 9))
    hi = F(10) ** -11 * hi_d * 1000 * (1 + F(1, 10 ** 9))
    alo = F(math.sqrt(float(lo))) * (1 - F(1, 10 ** 9))
    ahi = F(math.sqrt(float(hi))) * (1 + F(1, 10 ** 9))
    return lo, hi, alo, ahi


def gcells(cells):
    out = []
    for c in cells:
        al = glist([f"({gstr(m)}, {gq(q)})" for m, q in c[1]])
        out.append(f"(mkCell {grect7(c[0])} {al} {gnat(c[2])})")
    return glist(out)


def gops(ops):
    out = []
    for o in ops:
        if o[0] == "refine":
            out.append(f"(OpRefine {gq(o[1])} {gnat(o[2])})")
        elif o[0] == "uniform":
            out.append("OpUniform")
        else:
            out.append("OpGriddify")
    return glist(out)


def gdie(case):
    p = case["probe"]
    doc = p["op"]["doc"]

    def gt(x):
        if isinstance(x, bool):
            return "YOther"
        if isinstance(x, (int, float)):
            return f"(YNum {gq(x)})"
        if isinstance(x, str):
            return f"(YStr {gstr(x)})"
        if isinstance(x, list):
            return "(YList " + glist([gt(v) for v in x]) + ")"
        return "YOther"
    entries = glist([f"({gstr(k)}, {gt(v)})" for k, v in doc.items()])
    fx = glist([grect7([r[0], r[1], r[2], r[3], True, True, "_"]) for r in (p.get("fixed") or [])])
    w, h = doc["width"], doc["height"]
    deps = min(w, h) * 10e-12
    tin = max(w, h) * 10e-12
    return f"(mkDesc {entries} {fx})", gq(deps), gq(tin)


def sat_check(case, raw):
    if raw is None:
        return "true"
    raw = unwj(raw)
    posts = case["probe"]["op"]["posts"]
    if any(s.startswith("X") for s in raw["status"]):
        return "false"
    obs = {"norms": raw["norms"], "newmem": raw["newmem"], "clauses": raw["clauses"], "aux": raw["aux"],
           "codified": raw["codified"], "vtable": raw["vtable"], "status": raw["status"], "mem0": raw["mem0"]}
    if "ext" in raw:
        obs["extendable"], obs["users"] = raw["ext"], raw["users"]
    import re as _re
    ids = [int(i) for i in raw["codified"]] + [int(x) for n in raw["newmem"] for x in n[1:3]] + \
        [int(m.group(1)) for c in raw["clauses"] for l in c for m in [_re.fullmatch(r"robdd_(\d+)", l[0])] if m]
    if raw.get("big") or max(ids + [0]) > 2 * c20w.BIG_STORE:
        # (node ids far beyond the reported store only appear on a tree whose store was emptied behind the manager's
        # back; a nat literal of that size must not reach Coq)
        # a store of 10^4 .. 10^6 nodes is not handed to vm_compute: the model is run from the EMPTY store and only the
        # semantic part of c07_check is used - the posts accepted / refused and the set of user assignments that extend
        # (which by C07_post_exact does not depend on the store the posts started from)
        if "ext" not in raw:
            return "true"
        obs.update(newmem=[], clauses=[], aux=0, codified=[], vtable=[], mem0=[])
    return c07.to_coq({"posts": posts}, obs)


def gtree_expr(terms, const):
    """tools.rect.pseudobool expression built as the worker's build_expr does"""
    t = "TZero"
    for v, sgn, c in terms:
        t = f"(TAddTerm {t} {gstr(c20w.PRE + v)} {gbool(sgn)} ({int(c)})%Z)"
    if const != 0:
        t = f"(TAddInt {t} ({int(const)})%Z)"
    return t


DOP = {">=": "GE", "<=": "LE", ">": "GT", "<": "LT", "=": "EQ", "==": "EQ2"}


def defaults_check(op, o):
    """the model's steps from the import-time default objects against the observed ones"""
    if not isinstance(o, dict) or "steps" not in o:
        return "false"
    steps = []
    for st in op["steps"]:
        k = st[0]
        if k == "ineq0":
            steps.append("DIneq None None GE")
        elif k == "ineq_l":
            steps.append(f"DIneq (Some {gtree_expr(st[1], st[2])}) None GE")
        elif k == "ineq_r":
            steps.append(f"DIneq None (Some {gtree_expr(st[1], st[2])}) GE")
        elif k == "ineq_op":
            steps.append(f"DIneq None None {DOP[st[1]]}")
        elif k == "expr0":
            steps.append("DExpr")
        else:
            steps.append("DUse")
    outs = []
    for x in o["steps"]:
        if isinstance(x, dict):
            return "false"                       # a step raised: the model never does
        if x[0] == "ineq":
            if x[2] != 0 or x[5] is not None:
                return "false"                   # lhs.c is reset to 0, clause starts as None
            ts = glist([f"(mkT {gstr(t[1])} {gbool(t[2])} ({int(t[3])})%Z)" for t in x[1]])
            outs.append(f"DOIneq (mkI {ts} ({int(x[3])})%Z {DOP[x[4]]})")
        else:
            ts = glist([f"(mkT {gstr(t[1])} {gbool(t[2])} ({int(t[3])})%Z)" for t in x[2]])
            outs.append(f"DOExpr (mkE ({int(x[1])})%Z {ts})")
    return f"defaults_ck {glist(steps)} {glist(outs)}"


def strop_check(op, o):
    rows = glist([gstr(r) for r in op["matrix"].split()])

    def gsizes(v):
        return "None" if v is None else f"(Some {glist([gq(F(x)) for x in v])})"
    head = f"strop_ck {rows} {gsizes(op.get('height'))} {gsizes(op.get('width'))}"
    if not isinstance(o, dict) or "instances" not in o:
        return f"{head} None" if isinstance(o, dict) and o.get("raised") == "AssertionError" else "false"
    inst = sorted(o["instances"], key=lambda rs: rs[0] if rs else [])
    e = glist([glist([f"({a}, {b}, {c}, {d})%nat" for a, b, c, d in rs]) for rs in inst])
    return (f"{head} (Some ({e}, {gbool(o['is'])}, {glist([gq(F(x)) for x in o['height']])}, "
            f"{glist([gq(F(x)) for x in o['width']])}))")


def to_coq(case, obs):
    parts = []
    p = case["probe"]
    # 1. the tolerance trace of the history: first writer wins, the code's formulas
    tr = obs["trace"]
    if all(e is None or all(math.isfinite(v) for v in e) for e in tr):
        hs = glist([gcand(h.get("cand")) for h in case["history"]])
        ob = glist([gepsopt(e) for e in tr])
        parts.append(f"trace_ok None {hs} {ob}")
        # ... and of the probe itself, alone and after the history
        if p.get("cand") is not None:
            for side, before, after in (("alone", None, obs["eps_own"]), ("after", obs["eps_hist"], obs["eps_after"])):
                o = unwj(obs[side]["obs"])
                if isinstance(o, dict) and "raised" in o and after == before:
                    continue        # the constructor raised before it reached the guard (ill-formed document)
                if (before is None or all(math.isfinite(v) for v in before)) and \
                        (after is None or all(math.isfinite(v) for v in after)):
                    parts.append(f"trace_ok {gepsopt(before)} {glist([gcand(p['cand'])])} {glist([gepsopt(after)])}")
    # 2. where does the tolerance matter: the model under the two tolerances
    same = obs["alone"]["digest"] == obs["after"]["digest"]
    e1, e2 = obs["eps_own"], obs["eps_hist"] or obs["eps_own"]
    if p["stream"] == "exact" and p["kind"] in ("stog", "alloc", "die") and e1 and e2 and \
            all(math.isfinite(v) for v in e1 + e2):
        lo, hi, alo, ahi = band_of(case)
        band = f"{gq(lo)} {gq(hi)} {gq(alo)} {gq(ahi)}"
        two = f"{gq(e1[0])} {gq(e1[1])} {gq(e2[0])} {gq(e2[1])}"
        if p["kind"] == "stog":
            arg = glist([grect7([r[0], r[1], r[2], r[3], False, True, "_"]) for r in p["op"]["rects"]])
            nm = "stog"
        elif p["kind"] == "alloc":
            arg = f"{gq(ac.RATIO_F)} {gops(p['op']['ops'])} {gcells(p['op']['cells'])}"
            nm = "alloc"
        else:
            d, deps, tin = gdie(case)
            arg = f"{deps} {tin} {d}"
            nm = "die"
        # (the model under the two tolerances is evaluated once)
        parts.append(f"let s := {nm}_same {two} {arg} in Bool.eqb s {gbool(same)} && "
                     f"implb ({nm}_robust {band} {arg}) s")
        parts.append(f"in_band {band} {gq(e1[0])} {gq(e1[1])} && in_band {band} {gq(e2[0])} {gq(e2[1])}")
    # 3. the SAT layer from the store the history left behind
    if p["kind"] == "sat":
        parts.append(sat_check(case, obs.get("raw_after")))
        parts.append(sat_check(case, obs.get("raw_alone")))
    # 4. objects built from default arguments / Strop: the model from the import-time default objects
    if p["kind"] in ("defaults", "strop"):
        chk = defaults_check if p["kind"] == "defaults" else strop_check
        for side in ("alone", "after"):
            parts.append(chk(p["op"], unwj(obs[side]["obs"])))
    return " && ".join(f"({x})" for x in parts) if parts else "true"


def robust_expr(case):
    p = case["probe"]
    if not (p["stream"] == "exact" and p["kind"] in ("stog", "alloc", "die")):
        return None
    lo, hi, alo, ahi = band_of(case)
    band = f"{gq(lo)} {gq(hi)} {gq(alo)} {gq(ahi)}"
    if p["kind"] == "stog":
        arg = glist([grect7([r[0], r[1], r[2], r[3], False, True, "_"]) for r in p["op"]["rects"]])
        return f"stog_robust {band} {arg}"
    if p["kind"] == "alloc":
        return f"alloc_robust {band} {gq(ac.RATIO_F)} {gops(p['op']['ops'])} {gcells(p['op']['cells'])}"
    d, deps, tin = gdie(case)
    return f"die_robust {band} {deps} {tin} {d}"


# --------------------------------------------------------------------------
# direct oracle
# --------------------------------------------------------------------------
EPS_KINDS = ("stog", "alloc", "allocflow", "die", "netlist", "legal")


def oracle(case, obs):
    if any(e is not None and not all(math.isfinite(v) for v in e)
           for e in obs["trace"] + [obs.get("eps_after"), obs.get("eps_own")]):
        return ("epsilon-infinite: an operation of the history installed an infinite tolerance "
                f"(trace {obs['trace']}); every later design is judged with it")
    for side in ("alone", "after"):
        o = unwj(obs[side]["obs"])
        if isinstance(o, dict) and "escaped" in o:
            return f"escaped: the probe raised {o['escaped']}: {o.get('msg')} ({side})"
    if obs["alone"]["digest"] == obs["after"]["digest"]:
        return None
    kind = case["probe"]["kind"]
    if kind in EPS_KINDS and obs.get("attrib") is not None and obs["attrib"] == obs["after"]["digest"] and \
            obs["eps_hist"] != obs["eps_own"]:
        return ("epsilon-first-writer: the result after the history equals the result of the probe alone under the "
                f"tolerances the history had installed {obs['eps_hist']} and differs from the result under the "
                f"probe's own tolerances {obs['eps_own']}")
    tag = {"sat": "robdd-memory", "defaults": "mutable-default", "strop": "mutable-default",
           "legal": "legaliser-state"}.get(kind, "state-leak")
    return f"{tag}: the {kind} probe gives a different result after the history than alone " \
           f"(digest {obs['alone']['digest'][:10]} vs {obs['after']['digest'][:10]})"


def failure_key(case, why):
    head = (why or "").split(":")[0]
    if head in ("epsilon-first-writer", "epsilon-infinite", "robdd-memory", "mutable-default", "legaliser-state",
                "state-leak", "escaped"):
        return "C20/" + head
    return "C20/model-correspondence"


# --------------------------------------------------------------------------
# shrinking: shorten the history
# --------------------------------------------------------------------------
SHRINK_T = [0.0, 0]


def shrink(case):
    h = case["history"]
    if len(h) > 1:
        cands = [h[:len(h) // 2], h[len(h) // 2:]] + [h[:i] + h[i + 1:] for i in range(len(h))]
        # the tolerance trace of the shortened history must stay predicted
        cands = [dict(case, history=c) for c in cands if installer_rule_ok(c)]
        # all candidates of a round are executed in one batch of workers (run_impl then finds them in the cache)
        todo = [c for c in cands if case_key(c) not in _CACHE]
        if todo:
            import time
            t0 = time.time()
            _CACHE.update(run_batch(todo, par=10))
            SHRINK_T[0] += time.time() - t0
            SHRINK_T[1] += 1
        yield from cands


def nontrivial(case):
    return len(case["history"]) >= 1


def dist_key(case):
    p = case["probe"]
    return p["kind"] + "/" + str(p.get("stream")) + ("/" + p["variant"] if p.get("variant") else "")


# --------------------------------------------------------------------------
def fresh_crosscheck(ctx, out, cases, n):
    """re-execute a sample in truly fresh interpreters: same digests as the forked runs"""
    bad = 0
    sample = cases[:n]
    batches = []
    for c in sample:
        batches.append([{"id": "alone", "history": [], "probes": [wj(c["probe"]["op"])]}])
        batches.append([{"id": "after", "history": [wj(h["op"]) for h in c["history"]] + [wj(t) for t in c.get("tail") or []],
                         "probes": [wj(c["probe"]["op"])]}])
    outs = call_workers_parallel(batches, fork=False, par=8)
    for i, c in enumerate(sample):
        obs = _CACHE.get(case_key(c))
        if obs is None or "crash" in obs:
            continue
        try:
            a = outs[2 * i][0]["probes"][0]["digest"]
            b = outs[2 * i + 1][0]["probes"][0]["digest"]
        except Exception:
            ctx.notes.append(f"fresh-interpreter cross-check could not run: {str(outs[2 * i])[:300]}")
            bad += 1
            continue
        if a != obs["alone"]["digest"] or b != obs["after"]["digest"]:
            bad += 1
            out.disagreements.append({"key": "C20/fork-vs-fresh", "case": fr.tojson(c), "explained": False,
                                      "why": "forked and fresh-interpreter executions give different digests",
                                      "fresh": [a, b], "forked": [obs["alone"]["digest"], obs["after"]["digest"]]})
    out.extra["fresh_interpreter_crosscheck"] = {"cases": len(sample), "mismatches": bad}
    _t("fresh cross-check")


def _t(label, t0=[None]):
    import time
    now = time.time()
    if os.environ.get("C20_TIMING") and t0[0] is not None:
        sys.stderr.write(f"[c20 timing] {label}: {now - t0[0]:.1f}s\n")
    t0[0] = now


def audit_state(out):
    """tools-level static audit of module-/class-level mutable state (harness/props/c20_audit.py) against the
    list recorded for the pinned tree (c20_state_sites.json); returns the related-group kinds to add"""
    from harness.props import c20_audit
    try:
        base = json.loads((core.VERIF / "harness" / "props" / "c20_state_sites.json").read_text())
        keys = sorted({c20_audit.site_key(s) for s in c20_audit.audit(str(core.REPO))})
    except Exception as e:          # the audit is an aid, never a verdict
        out.extra["state_audit"] = {"error": f"{type(e).__name__}: {e}"}
        return []
    new = [k for k in keys if k not in base["sites"]]
    kinds = []
    for k in new:
        for pre, ks in base["files_to_kinds"].items():
            if k.split("|")[0].startswith(pre):
                kinds += [x for x in ks if x not in kinds]
    out.extra["state_audit"] = {"sites": len(keys), "new_sites": new, "more_related_groups_for": kinds}
    return kinds


def run(ctx, out, replay=None):
    quick = ctx.quick()
    _t("start")
    ngroups = 45 if quick else 620
    nrelated = 40 if quick else 432
    out.rule = ("(history, probe) pairs: probe = netlist load + verdict / orthogon recognition of a hard module / die "
                "decomposition (with fixed rectangles of a netlist) / allocation + refine, griddify, uniform depth / "
                "SAT posting sequence / legaliser Model construction / Strop / objects built from default arguments; "
                "history = 1-12 such operations on other designs rescaled by 2^-9..2^9 within the factor-1000 rule; "
                "exact-stream geometric probes come in a robust and a non-robust variant (a shift of 2^j times the "
                "probe's own tolerance, distance or area). RELATED histories (harness/props/c20_related.py): "
                "near-duplicates of the probed design - the design itself (0-3 times), the same rectangles / modules "
                "/ nets / cells / terms / variables in another order, one field different (tag, ratio, depth, bound, "
                "polarity, coefficient, one coordinate 2^-20 away), dies over exactly the same cut coordinates with "
                "other occupied cells (every single-cell move / addition / removal of a base pattern, the "
                "complement), transposed / mirrored / rescaled by 2, the same rectangles through another class, the "
                "same document as text or with integers - interleaved with 0-3 unrelated operations; the probe and "
                "up to three of its near-duplicates are each executed at the end of that history. "
                "SAME PATTERN / OTHER COORDINATES (die-pattern, die-pattern-64, alloc-pattern, stog-pattern): one "
                "index pattern (occupancy matrix, regions / cells / rectangles by line numbers) on a grid of 16..100 "
                "cells over line coordinates rescaled non-uniformly, with one very wide column / tall row, "
                "transposed, reversed, one line moved, doubled. BIG STORE: a history operation that grows the "
                "diagram store by 400 / 3*10^4 / 2^20+4096 nodes (thorough: ten sizes up to 2^21), then three fresh "
                "managers posting non-clause inequalities, a random posting sequence, a Strop and a default-argument "
                "probe. JUST BELOW A THRESHOLD (quick: 2^10, 10^3, 2^12, 10^4, 2^16, 10^5, 2^17, 2^18; thorough: "
                "2^10..2^21 and 10^3..10^6): the first operation of the process encodes a small inequality E (smallest "
                "ids); unrelated encodings then bring the store to EXACTLY T - d entries (fillers, then conjunctions of "
                "<= 7 fresh variables, m nodes each); the probe is ONE manager posting four non-clause inequalities - "
                "P1 with E as the cofactor by its heaviest literal, P2 unrelated, P3 = E, P4 unrelated; d is taken "
                "from the measured node counts of the probe so that the store reaches T exactly / passes T at the "
                "start of P2, P3, P4, in the middle of P2, and at the start of the probe. "
                "READ FROM YAML, THEN CHANGED IN PLACE (8 groups quick, 90 thorough): an allocation over a 2..4 x "
                "1..3 grid given as YAML text or tree (cells as number lists) taken through must_be_refined, refine, "
                "initial_allocation with a netlist, griddify, uniform depth, write_yaml + read again; its history holds "
                "the SAME cells (empty, same contents, other contents, one column less, reversed, text / tree) whose "
                "netlist has a fixed module exactly covering one or two cells (initial_allocation tags them fixed) and "
                "the refine / re-read loop; every fourth group is one netlist text (trunk + branch hard module, soft "
                "modules, a fixed one) loaded and changed by create_squares / create_stogs / recenter_rectangles / "
                "fixed flags before the probe loads the same text. The SAT operations of a history also call the public "
                "methods of SATManager that post nothing (prioritize with negated literals, setflipped, isflipped, "
                "newaux, printclauses, tocnf, solve, value, evalexpr, newvar with another prefix) on the variable names "
                "the probed manager registers; a SAT probe also observes tocnf(), isflipped and, when it solves, "
                "value() of every variable in both polarities and evalexpr. "
                "non-trivial = non-empty history; distinct by (order-sensitive) hash")
    cases = []
    if replay and "case" in replay:
        cases.append(fr.unjson(replay["case"]))
    cases += fr.load_corpus("C20")
    ncorpus = len(cases)
    for _ in range(ngroups):
        cases += gen_group(ctx.rng, ctx.rng.choice([3, 4, 5]))
    # the size of the process-wide diagram store (a generator of its own: the groups above do not depend on it)
    import random
    brng = random.Random(ctx.rng.randrange(1 << 30))
    nbig = 0
    for nodes in ([400, 30000, (1 << 20) + 4096] if quick else
                  [200, 400, 1500, 5000, 30000, 70000, 140000, 10 ** 6 + 4096, (1 << 20) + 4096, (1 << 21) + 4096]):
        g = gen_bigstore_group(brng, nodes)
        nbig += len(g)
        cases += g
    # ... and the store JUST BELOW a size threshold (2^k, 10^k), passed in the middle of one manager's posting sequence
    trng = random.Random(brng.randrange(1 << 30))
    ths = THRESHOLDS_QUICK if quick else THRESHOLDS_ALL
    pairs = [gen_threshold_probe(trng) for _ in ths]
    cums = measure_threshold_probes(pairs)
    nthr = 0
    for T, (early, probe), cum in zip(ths, pairs, cums):
        g = gen_threshold_group(trng, T, early, probe, cum, quick)
        nthr += len(g)
        cases += g
    _t("threshold probes measured")
    nrel = 0
    kinds = [REL_KINDS[i % len(REL_KINDS)] for i in range(nrelated)]
    # process-wide state the checked tree has and the pinned tree had not (static audit; informative): more
    # histories of near-duplicates for the operations of the files concerned
    extra = audit_state(out)
    kinds += (extra * 3)[:12 if quick else 120]
    nunrel = len(cases)
    for k in kinds:
        g = gen_related_group(ctx.rng, k)
        nrel += len(g)
        cases += g
    # designs read from YAML and changed in place before the probe reads the same text (a generator of its own)
    frng = random.Random(brng.randrange(1 << 30))
    nflow = 0
    for i in range(8 if quick else 90):
        g = gen_flow_group(frng, "netflow" if i % 4 == 3 else "allocflow")
        nflow += len(g)
        cases += g
    cases = cases[:ncorpus] + [with_sat_api(c) for c in cases[ncorpus:]]
    # JSON round trip so that replayed and generated cases have the same representation
    cases = [fr.unjson(json.loads(json.dumps(fr.tojson(c)))) for c in cases]
    _t("generation")
    _CACHE.update(run_batch(cases, par=10))
    _t("workers")
    stats = {"pairs": len(cases), "digests_differ": 0, "explained_by_first_writer": 0, "histories_installing_eps": 0,
             "probe_eps_differs": 0, "corpus": ncorpus}
    for c in cases:
        o = _CACHE.get(case_key(c), {})
        if "crash" in o:
            continue
        if o["alone"]["digest"] != o["after"]["digest"]:
            stats["digests_differ"] += 1
            if o.get("attrib") == o["after"]["digest"]:
                stats["explained_by_first_writer"] += 1
        if o.get("eps_hist"):
            stats["histories_installing_eps"] += 1
        if o.get("eps_hist") and o.get("eps_own") and o["eps_hist"] != o["eps_own"]:
            stats["probe_eps_differs"] += 1
    fr.run_cases(ctx, out, cases, run_impl, to_coq, oracle, failure_key, HEADER, dist_key=dist_key,
                 nontrivial=nontrivial, shard=24 if quick else 60, shrink=shrink)
    _t(f"run_cases (shrinking {SHRINK_T[0]:.1f}s in {SHRINK_T[1]} batches + model evaluation)")
    # how many exact probes the model calls robust
    rob = [(c, robust_expr(c)) for c in cases]
    rob = [(c, e) for c, e in rob if e is not None and "crash" not in _CACHE.get(case_key(c), {})]
    # a sample: the implication robust -> same is part of every case's model check anyway
    rob = rob[:48] if quick else (rob if len(rob) <= 800 else rob[:400] + rob[-400:])
    vals = core.coq_eval_bools(ctx, HEADER, [e for _, e in rob], shard=12 if quick else 80, tag="robust")
    nrob = sum(1 for v in vals if v is True)
    stats["exact_probes"] = len(rob)
    stats["exact_probes_robust"] = nrob
    stats["robust_probes_that_differ"] = sum(
        1 for (c, _), v in zip(rob, vals)
        if v is True and _CACHE[case_key(c)]["alone"]["digest"] != _CACHE[case_key(c)]["after"]["digest"])
    stats["nonrobust_probes_that_differ"] = sum(
        1 for (c, _), v in zip(rob, vals)
        if v is False and _CACHE[case_key(c)]["alone"]["digest"] != _CACHE[case_key(c)]["after"]["digest"])
    stats["related_pairs"] = nrel
    stats["yaml_flow_pairs"] = nflow
    stats["bigstore_pairs"] = nbig
    thr = [(c, _CACHE.get(case_key(c), {})) for c in cases if c.get("threshold")]
    stats["threshold_pairs"] = nthr
    stats["threshold_measured"] = sum(1 for c in cums if c is not None)
    # the store held exactly T - d entries when the probe started (on a tree that evicts nodes it may not)
    stats["threshold_landed"] = sum(1 for c, o in thr if o.get("tail_landed") and all(o["tail_landed"]) and
                                    o.get("tail_mem") and o["tail_mem"][-1] == c["threshold"]["T"] - c["threshold"]["d"])
    # ... and passed T between the first and the last post of the probed manager
    stats["threshold_crossed_mid_probe"] = sum(
        1 for c, o in thr if o.get("tail_mem") and o.get("raw_after") and
        o["tail_mem"][-1] <= c["threshold"]["T"] < (unwj(o["raw_after"]).get("memlens") or [0])[-1])
    stats["max_store_before_probe"] = max([m for c in cases for m in (_CACHE.get(case_key(c), {}).get("trace_mem") or [])
                                           if m is not None] or [0])
    out.extra["c20_stats"] = stats
    _t("robust count")
    okc = lambda cs: [c for c in cs if "crash" not in _CACHE.get(case_key(c), {})]
    nf = 3 if quick else 20
    fresh_crosscheck(ctx, out, okc(cases[ncorpus:nunrel])[:nf] + okc(cases[nunrel:])[:nf], 2 * nf)
