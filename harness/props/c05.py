"""C05 - Loaded netlist matches its definition; ill-formed designs are rejected.

Correspondence: random netlist documents (well-formed in every attribute combination, and
with one defect of each listed class injected at a random position) are written with the
real write_yaml/ruamel, loaded with the real Netlist(...), and the loaded object (modules
with kind flags, per-region areas, centres, aspect ratios, rectangles with regions and STOG
roles, Netlist.rectangles, epsilons, nets, squared pin distances, the document written
back) or the assertion class is compared with read_netlist / write_netlist of the model on
the same tree by vm_compute.  Direct oracle: the definitions of the property text, computed
in exact Fractions from the source document (wire length in 60-digit decimals)."""
from fractions import Fraction as F

from harness import fr
from harness.props import netlist_common as nc
from harness.props import netlist_boundary as nb
from harness.props.netlist_common import val, close

HEADER = nc.HEADER
ASSUMPTIONS = nc.ASSUMPTIONS + [
    "oracle tolerance: derived numbers within 1e-9 relative of their definition; rectangle lists compared as multisets",
    "a terminal with rectangles (allowed by the reader) has the area of its rectangles; 'zero for terminals' is checked for terminals without rectangles",
]
KNOWN = {"area", "center", "aspect_ratio", "terminal", "hard", "fixed", "flip", "rectangles"}


def region_area_sum(a) -> F:
    if isinstance(a, dict):
        return sum((val(v) for v in a.values()), F(0))
    return val(a)


def expected_module(info):
    rs = nc.rects_of(info)
    if "area" in info:
        area = region_area_sum(info["area"])
    else:
        area = sum((val(r[2]) * val(r[3]) for r in rs), F(0))
    if rs:
        ra = sum((val(r[2]) * val(r[3]) for r in rs), F(0))
        c = (sum((val(r[2]) * val(r[3]) * val(r[0]) for r in rs), F(0)) / ra,
             sum((val(r[2]) * val(r[3]) * val(r[1]) for r in rs), F(0)) / ra)
    elif "center" in info:
        c = (val(info["center"][0]), val(info["center"][1]))
    else:
        c = None
    return area, c, rs


def rkey(x, y, w, h, region, fixed):
    return (val(x), val(y), val(w), val(h), region, bool(fixed))


def strict_wf(doc) -> bool:
    """A restatement of the format for plainly written documents (used for shrunk cases and near misses only)."""
    try:
        return _strict_wf(doc)
    except Exception:
        return False


def _strict_wf(doc) -> bool:
    import re
    if not isinstance(doc, dict) or "Modules" not in doc or set(doc) - {"Modules", "Nets"}:
        return False
    mods = doc["Modules"]
    if not isinstance(mods, dict):
        return False
    num = lambda x: nc.is_num(x)
    for name, i in mods.items():
        if not nc.is_ident(name) or not isinstance(i, dict) or set(i) - KNOWN:
            return False
        rs = i.get("rectangles", [])
        if "rectangles" in i and (not isinstance(rs, list) or not rs or not all(
                isinstance(r, list) and len(r) in (4, 5) and all(num(v) for v in r[:4]) and val(r[0]) >= 0
                and val(r[1]) >= 0 and val(r[2]) > 0 and val(r[3]) > 0 for r in rs)):
            return False
        if "center" in i and not (isinstance(i["center"], list) and len(i["center"]) == 2 and all(num(v) for v in i["center"])):
            return False
        if i.get("terminal") is True:
            if set(i) - {"terminal", "center", "fixed", "hard"} or i.get("fixed", True) is not True \
                    or i.get("hard", True) is not True or ("fixed" in i and "hard" in i) or ("fixed" in i and "center" not in i):
                return False
        elif i.get("hard") is True or i.get("fixed") is True:
            if set(i) - {"hard", "fixed", "flip", "rectangles"} or ("hard" in i and "fixed" in i) or not rs:
                return False
            if "flip" in i and (not isinstance(i["flip"], bool) or (i["flip"] and ("fixed" in i or len(rs) != 1))):
                return False
            if any(len(r) != 4 for r in rs):
                return False
            for a in range(len(rs)):
                for b in range(a + 1, len(rs)):
                    if nc.boxes_overlap_area(nc.box_of(rs[a]), nc.box_of(rs[b])) > 0:
                        return False
        else:
            if set(i) - {"area", "center", "aspect_ratio", "rectangles"} or "area" not in i:
                return False
            a = i["area"]
            if isinstance(a, dict):
                if not a or not all(re.fullmatch(r"[A-Za-z_][A-Za-z0-9_]*", k) and num(v) and val(v) > 0 for k, v in a.items()):
                    return False
            elif not (num(a) and val(a) > 0):
                return False
            if "aspect_ratio" in i:
                r = i["aspect_ratio"]
                if isinstance(r, list):
                    if not (len(r) == 2 and all(num(v) for v in r) and 0 <= val(r[0]) <= 1 <= val(r[1])):
                        return False
                elif not (num(r) and val(r) > 0):
                    return False
            if any(len(r) == 5 and not (isinstance(r[4], str) and re.fullmatch(r"[A-Za-z_][A-Za-z0-9_]*", r[4])) for r in rs):
                return False
    nets = doc.get("Nets", [])
    if not isinstance(nets, list):
        return False
    for n in nets:
        mem = nc.net_members(n)
        if not isinstance(n, list) or len(mem) < 2 or not all(isinstance(b, str) and b in mods for b in mem):
            return False
        if len(n) > len(mem) and not (nc.is_num(n[-1]) and val(n[-1]) > 0):
            return False
    return True


def oracle(case, obs):
    doc, exp = nc.seen(case["doc"]), case.get("expect") or ""
    if exp.startswith("reject:"):
        cls = exp[7:]
        if nc.has_defect(doc, cls):
            if obs["verdict"] == "ok":
                return f"{cls}-accepted: a design with this defect was loaded instead of rejected"
            return None
    elif exp == "accept" and obs["verdict"] != "ok":
        if not case.get("shrunk") or strict_wf(doc):
            return f"well-formed-rejected{scale_suffix(doc, obs)}: {obs['verdict']}: {obs.get('msg', '')[:200]}"
        return None
    if obs["verdict"] != "ok":
        return None
    if exp == "" and not strict_wf(doc):
        return None         # a deviation outside the property's list was loaded: the definitions need not apply
    n1 = obs["n1"]
    mods = nc.mods_of(doc)
    if [m["name"] for m in n1["modules"]] != list(mods):
        return "modules: names or order differ from the document"
    all_rects, fixed_rects, centers = [], [], {}
    for m in n1["modules"]:
        info = mods[m["name"]]
        area, c, rs = expected_module(info)
        if not close(m["area"], area):
            return f"derived-area: module {m['name']} has area {m['area']}, definition gives {area}"
        if "area" in info:
            ar = info["area"] if isinstance(info["area"], dict) else {"_": info["area"]}
            got = {k: v for k, v in m["area_regions"]}
            if set(got) != set(ar) or any(not close(got[k], val(ar[k])) for k in ar):
                return f"derived-area: module {m['name']} region areas {m['area_regions']} differ from the document"
        if (c is None) != (m["center"] is None) or (c is not None and not (close(m["center"][0], c[0]) and close(m["center"][1], c[1]))):
            return f"derived-center: module {m['name']} has centre {m['center']}, definition gives {c}"
        centers[m["name"]] = c
        fx = info.get("fixed") is True
        for r in rs:
            k = rkey(r[0], r[1], r[2], r[3], r[4] if len(r) == 5 else "_", fx)
            all_rects.append(k)
            if fx:
                fixed_rects.append(k)
        mine = sorted(rkey(r["x"], r["y"], r["w"], r["h"], r["region"], r["fixed"]) for r in m["rects"])
        if mine != sorted(rkey(r[0], r[1], r[2], r[3], r[4] if len(r) == 5 else "_", fx) for r in rs):
            return f"derived-rectangles: rectangles of module {m['name']} differ from the document"
    got = sorted(rkey(r["x"], r["y"], r["w"], r["h"], r["region"], r["fixed"]) for r in n1["rects"])
    if got != sorted(all_rects):
        return "derived-rectangles: Netlist.rectangles is not the collection of the modules' rectangles"
    gotf = sorted(rkey(r["x"], r["y"], r["w"], r["h"], r["region"], r["fixed"]) for r in n1["fixed_rects"])
    if gotf != sorted(fixed_rects):
        return "derived-fixed-rectangles: fixed_rectangles() is not the collection of the fixed modules' rectangles"
    # nets and wire length
    nets = nc.nets_of(doc)
    if len(nets) != len(n1["edges"]):
        return "nets: number of nets differs from the document"
    total, defined, total_tol = nc.Decimal(0), True, nc.Decimal(0)
    for net, e in zip(nets, n1["edges"]):
        mem = nc.net_members(net)
        w = val(net[-1]) if len(net) > len(mem) else F(1)
        if e["members"] != mem or not close(e["weight"], w):
            return f"nets: net {net} loaded as {e['members']} weight {e['weight']}"
        cs = [centers[b] for b in mem]
        if any(c is None for c in cs):
            defined = False
            continue
        mx = sum(c[0] for c in cs) / len(cs)
        my = sum(c[1] for c in cs) / len(cs)
        wl = sum((nc.dsqrt((mx - c[0]) ** 2 + (my - c[1]) ** 2) for c in cs), nc.Decimal(0)) * nc.Decimal(w.numerator) / nc.Decimal(w.denominator)
        # tolerance relative to the magnitudes that enter the computation (weight * pins * coordinates)
        mag = max([abs(v) for c in cs for v in c] + [F(1)]) * len(cs) * w
        tol = nc.Decimal("1e-9") * max(wl, nc.Decimal(mag.numerator) / nc.Decimal(mag.denominator))
        total_tol += tol
        if e["wl"] is None or abs(nc.Decimal(e["wl"]) - wl) > tol:
            return f"wire-length: net {net} has wire length {e['wl']}, definition gives {wl:.15g}"
        total += wl
    if defined and nets:
        if n1["wl"] is None or abs(nc.Decimal(n1["wl"]) - total) > total_tol:
            return f"wire-length: total {n1['wl']}, definition gives {total:.15g}"
    return None


def scale_suffix(doc, obs) -> str:
    """names the class of the finding C05/well-formed-rejected-small-scale (repaired by 6ca12a9): 'Not all flip modules have a STOG'
    on a document whose smallest dimension is so far below its coordinates that the distance tolerance derived from
    it (1e-12 times that dimension) is absorbed when added to a coordinate"""
    if "Not all flip modules have a STOG" not in obs.get("msg", ""):
        return ""
    e = nb.eps_of(doc)
    coords = [float(val(v)) for i in nc.mods_of(doc).values() if isinstance(i, dict) for r in nc.rects_of(i)
              if isinstance(r, list) for v in r[:4] if nc.numlike(v)]
    if e is None or not coords:
        return ""
    big = max(abs(c) for c in coords)
    return "-small-scale" if big - e[0] == big or big + e[0] == big else ""


def failure_key(case, why):
    head = (why or "").split(":")[0].strip()
    if " " in head or not head:
        head = "disagree"
    return "C05/" + head


def shrink(case):
    for c in nc.shrink(case):
        c["shrunk"] = True
        yield c


def valid_boundary(rng):
    """a well-formed document rewritten into an equally well-formed one on some boundary (stream name, document)"""
    doc = nc.gen_doc(rng)
    r = rng.random()
    if r < 0.4:
        return "exact-boundary", nb.decorate(rng, doc)[0]
    if r < 0.55:
        return "exact-names", nb.family_names(rng, doc)
    if r < 0.75:
        return "exact-order", nb.reorder(rng, doc)[0]
    return "exact-coincidence", nb.coincide(rng, doc)[0]


def gen_case(rng, quick=True):
    r = rng.random()
    if r < 0.25:
        return {"stream": "exact", "expect": "accept", "exact": True, "doc": nc.gen_doc(rng)}
    if r < 0.50:
        stream, doc = valid_boundary(rng)
        return with_form(rng, {"stream": stream, "expect": "accept", "exact": True, "doc": doc})
    if r < 0.57:
        return {"stream": "decimal", "expect": "accept", "exact": False, "doc": nc.gen_doc(rng, decimal=True)}
    if r < 0.65:
        vs = list(nb.near_misses(rng, nc.gen_doc(rng, quirks=False)))
        tag, d = rng.choice(vs)
        return with_form(rng, {"stream": "near-miss", "tag": tag, "expect": "", "exact": True, "doc": d})
    for _ in range(50):
        cls = rng.choice(nc.CLASSES)
        base = nc.gen_doc(rng, quirks=False)
        if rng.random() < 0.5:
            d = nc.inject(rng, base, cls)
            if d is not None:
                return {"stream": "malformed", "expect": "reject:" + cls, "exact": True, "doc": d}
        else:
            vs = list(nb.variants(rng, base, cls, per_kind=8))
            if vs:
                tag, d = rng.choice(vs)
                return with_form(rng, {"stream": "boundary", "tag": cls + "/" + tag, "expect": "reject:" + cls,
                                       "exact": True, "doc": d})
    return {"stream": "exact", "expect": "accept", "exact": True, "doc": nc.gen_doc(rng)}


def with_form(rng, case, p_history=0.15):
    """the input form (the document written by the real write_yaml - default -, the tree itself, a hand-spelled text,
    the name of a file or an open text stream holding either text) and what the process did before (other loads, the same source twice)"""
    r = rng.random()
    if r < 0.18:
        case["via"] = "tree"
    elif r < 0.28:
        case["via"] = rng.choice(["file", "file", "stream"])
    elif r < 0.50:
        t = nb.spell(rng, nc.to_py(case["doc"]))
        if t is not None:
            case["text"] = t
            if rng.random() < 0.35:
                case["via"] = rng.choice(["file", "file", "stream"])
    if rng.random() < p_history:
        try:
            case["history"] = nb.histories(rng, case["doc"])
        except Exception:
            case["history"] = [{"doc": nc.gen_doc(rng, quirks=False), "via": "text", "write": True}]
    if rng.random() < 0.08:
        case["twice"] = True
    return case


def catalogue(rng, quick):
    """every boundary instance of every listed class (and every near miss) on documents that have all module kinds;
    documents of every size around the usual thresholds"""
    cases = []
    for b in range(1 if quick else 8):
        doc = nb.rich_doc(rng)
        for cls in nc.CLASSES:
            for tag, d in nb.variants(rng, doc, cls, per_kind=(24 if quick else None)):
                cases.append(with_form(rng, {"stream": "boundary", "tag": cls + "/" + tag, "expect": "reject:" + cls,
                                             "exact": True, "doc": d}, p_history=0.05))
        for tag, d in nb.near_misses(rng, doc):
            # an abutting / detached extra rectangle on a hard module is a well-formed design
            # (provided the extra rectangle does not run into a third one)
            exp = "accept" if tag in ("overlap-touching", "overlap-gap") and nb.hard_overlap_free(nc.seen(d)) else ""
            cases.append(with_form(rng, {"stream": "near-miss", "tag": tag, "expect": exp, "exact": True, "doc": d},
                                   p_history=0.05))
    for cfg in (nb.SIZES_QUICK if quick else nb.SIZES_THOROUGH):
        cases.append(with_form(rng, {"stream": "size", "tag": " ".join(f"{k}={v}" for k, v in cfg.items()), "expect": "accept",
                                     "exact": True, "doc": nb.sized_doc(rng, **cfg)}, p_history=0.0))
    return cases


def nontrivial(case):
    nm, nn, nr = nc.doc_stats(case["doc"])
    return nm >= 2 and (nn >= 1 or nr >= 2)


def dist_key(c):
    k = c.get("stream", "?")
    if (c.get("expect") or "").startswith("reject:"):
        k += "/" + c["expect"][7:]
    return k


def run(ctx, out, replay=None):
    n = 1200 if ctx.quick() else 8000
    out.rule = ("(a) catalogue: on documents holding every kind of module, every boundary instance of every listed defect "
                "class (harness/props/netlist_boundary.py: zeros of every spelling, False, the smallest negative floats, an "
                "area equal to the rectangles' on a hard module - number, ground mapping, split over regions, one ulp-ish "
                "off -, almost-identifiers by suffix / prefix / look-alike (newline, blank, tab, NUL, U+0085, Unicode letters "
                "and digits, empty, 1e3, ~) for module names, area regions and rectangle regions, keys that are not strings "
                "(YAML null / true / 12 / 1e3), near-attributes by case / blank / plural, overlaps by a sliver, `rectangles: []`, "
                "nets whose only other entry is the weight) and every near miss outside the list (verdict left to the model); "
                "(b) random netlist documents: 1-8 modules over every attribute combination, nets of arity 2-6, dyadic numbers; "
                "25% rewritten into an equally valid document on a boundary (names null / true / on / _ / area / Modules, names that "
                "are prefixes of each other - H1, H1_0, H1_io -, extreme weights and areas, ints for floats, modules / nets / "
                "rectangles / attributes reversed or sorted, rectangles of equal area, a centre equal to the centroid, a soft area "
                "equal to its rectangles, weight 1 / 1.0 / True); 35% carry one injected defect of a listed class at a random "
                "position (half of them boundary instances); 8% near misses; 7% decimal (oracle only); (c) sizes: documents with "
                "9..257 (thorough 1001) modules, nets of 9..65 (257) members, 33..101 (1001) nets, 9..65 (161) rectangles in a "
                "module, names of 32..4097 (8193) characters, 9..33 (101) regions; (d) input forms: half of the new streams are "
                "given as the tree itself, as hand-spelled YAML text (1e3, +2, .5, 0x1F, quoted names, ~), as the name of a "
                "file or as an open text stream; 15% after a history (other designs with the same module names, the design scaled, a rejected variant, the "
                "design itself - loaded and written in the same process before) and 8% with the same source loaded twice; "
                "non-trivial = at least two modules and a net or two rectangles; distinct by hash")
    cases = []
    if replay and "case" in replay:
        cases.append(fr.unjson(replay["case"]))
    cases += fr.load_corpus("C05")
    cases += catalogue(ctx.rng, ctx.quick())
    while len(cases) < n:
        cases.append(gen_case(ctx.rng))
    tags = sorted({c["tag"] for c in cases if c.get("stream") == "boundary"})
    out.extra["boundary_instances"] = len(tags)
    out.extra["boundary_tags"] = tags
    out.extra["near_miss_tags"] = sorted({c["tag"] for c in cases if c.get("stream") == "near-miss"})
    forms, seen_pairs = {}, []

    def run_impl(case):
        obs = nc.run_impl(case)
        forms[obs.get("via", "?")] = forms.get(obs.get("via", "?"), 0) + 1
        seen_pairs.append((case, obs))
        return obs
    fr.run_cases(ctx, out, cases, run_impl, nc.to_coq, oracle, failure_key, HEADER,
                 dist_key=dist_key, nontrivial=nontrivial, shard=100, shrink=shrink)
    out.extra["input_forms"] = forms
    nc.reason_stat(ctx, out, seen_pairs[:len(cases)])
    for f in out.failures:      # a shrunk input is filed under the failure it shows
        f["key"] = failure_key(None, f.get("why"))
