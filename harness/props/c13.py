"""C13 - force-directed relocation (tools/force/fruchterman_reingold.py:
fruchterman_reingold_layout, force_algorithm, total_intersection_area)."""
import math
import os
from fractions import Fraction as F

os.environ.setdefault("MPLBACKEND", "Agg")          # the force module imports the plotting code: stay headless

from harness import core, fr
from harness.core import gq, gbool, glist, gopt, gnat

HEADER = """From FrameModel Require Import Num.QcTac Cases.Cmp Force.FR Cases.CmpC13.
Open Scope Qc_scope."""

ASSUMPTIONS = [
    "the theorems are about the logical shell for an ARBITRARY force law (Section variable `force`): f_att, f_rep, "
    "die_repelling, the norms, sqrt, and the cost (acos/sqrt/pi) are not modelled; the correspondence feeds the "
    "displacements and norms recorded by the FRAME_VERIF=1 hook into the model's step / fr_layout",
    "exact rational arithmetic in the model; model-vs-implementation positions are compared within 1e-9 * max(W, H)",
    "finiteness is a float notion: explored by the oracle (math.isfinite on every returned centre), not proved",
    "fixed modules: the code returns (c - D/2) + D/2, equal to c in exact arithmetic (theorem) but up to an ulp away "
    "in binary64 (e.g. 0.1 -> 0.10000000000000009 on a die of width 8); the oracle accepts 4 ulp of max(W, H, |c|)",
    "centres inside the die are only promised for inputs whose centres are inside the die (fixed modules are never "
    "moved; with max_iter = 0 nothing is clamped): the generator only produces such inputs; theorem C13_fr_all_in_die "
    "states the hypothesis",
    "cost = total_intersection_area + wire_length / 2 where the overlap term ranges over ORDERED pairs of distinct "
    "modules (each unordered pair counted twice), as the anchored total_intersection_area does",
    "the argmin oracle recomputes every candidate layout with the public fruchterman_reingold_layout and its own cost "
    "function; ties are broken towards the first constant (theorem C13_fa_argmin); tolerance 1e-9 relative",
]

KAPPAS = [i / 10 for i in range(4, 16)]
WEIGHTS = [1, 1, 2, 0.5, 2.5, 10, 3]


# ---------------------------------------------------------------- generation
def q(rng, lo, hi, den):
    """a dyadic rational k/den in [lo, hi]"""
    return F(rng.randrange(int(lo * den), int(hi * den) + 1), den)


def gen_case(rng, force_mode=None):
    decimal = rng.random() < 0.25
    if decimal:
        W = F(rng.randrange(10, 200), 10)
        H = F(rng.randrange(10, 200), 10)
    else:
        W = q(rng, 1, 48, 4)
        H = q(rng, 1, 48, 4)
        if rng.random() < 0.2:
            H = W

    def point(kind=None):
        kind = kind or rng.choice(["in", "in", "in", "border", "corner", "centre"])
        if decimal:
            x = F(rng.randrange(0, int(W * 10) + 1), 10)
            y = F(rng.randrange(0, int(H * 10) + 1), 10)
        else:
            x, y = q(rng, 0, W, 8), q(rng, 0, H, 8)
        if kind == "border":
            if rng.random() < 0.5:
                x = rng.choice([F(0), W])
            else:
                y = rng.choice([F(0), H])
        elif kind == "corner":
            x, y = rng.choice([F(0), W]), rng.choice([F(0), H])
        elif kind == "centre":
            x, y = W / 2, H / 2
        return [x, y]

    n = rng.choice([1, 2, 3, 3, 4, 4, 5, 5, 6, 7])
    mods = []
    slots = [(i, j) for i in range(4) for j in range(4)]
    rng.shuffle(slots)
    coincide = point() if rng.random() < 0.3 else None
    for i in range(n):
        kinds = ["soft", "soft", "soft", "hard", "term", "termfixed", "termnoc"]
        if not decimal:
            kinds += ["fixed", "fixed"]
        if i == 0:
            # a netlist of terminals only has no length scale: Netlist sets the rectangle tolerance to
            # inf and Die() refuses it - not an input of this tool
            kinds = ["soft", "soft", "hard"] + ([] if decimal else ["fixed"])
        kind = rng.choice(kinds)
        m = {"name": f"M{i}", "kind": kind}
        if kind == "soft":
            m["area"] = q(rng, F(1, 4), max(F(1, 2), W * H / 4), 4) if not decimal else F(rng.randrange(1, 100), 10)
            m["center"] = list(coincide) if coincide and rng.random() < 0.6 else point()
        elif kind in ("hard", "fixed"):
            if kind == "fixed":
                si, sj = slots.pop()
                cw, ch = W / 4, H / 4
                cx, cy = cw * si + cw / 2, ch * sj + ch / 2
                w, h = cw / rng.choice([2, 4]), ch / rng.choice([2, 4])
                rects = [[cx, cy, w, h]]
                if rng.random() < 0.4:               # an east branch inside the same cell
                    rects.append([cx + w / 2 + w / 4, cy, w / 2, h / 2])
            else:
                w, h = q(rng, F(1, 4), max(F(1, 4), W / 2), 4), q(rng, F(1, 4), max(F(1, 4), H / 2), 4)
                cx, cy = q(rng, 0, W, 8), q(rng, 0, H, 8)
                cx = min(max(cx, w / 2), W - w / 2)
                cy = min(max(cy, h / 2), H - h / 2)
                rects = [[cx, cy, w, h]]
            m["rects"] = rects
        elif kind in ("term", "termfixed"):
            m["center"] = list(coincide) if coincide and rng.random() < 0.4 else point(rng.choice(["border", "corner", "in"]))
        mods.append(m)
    nets = []
    if n >= 2:
        for _ in range(rng.choice([0, 1, 1, 2, 3, 4])):
            ar = min(n, rng.choice([2, 2, 3, 4, 5]))
            names = [mods[i]["name"] for i in rng.sample(range(n), ar)]
            nets.append({"mods": names, "w": float(rng.choice(WEIGHTS))})
    mode = force_mode or ("algo" if rng.random() < 0.08 else "layout")
    case = {"mode": mode, "decimal": decimal, "W": W, "H": H, "mods": mods, "nets": nets,
            "kappa": rng.choice(KAPPAS + KAPPAS + [0.01, 10.0, 1.0]),
            "max_iter": rng.choice([0, 0, 1, 1, 2, 3, 5, 8, 13, 20])}
    if mode == "algo":
        case["max_iter"] = rng.choice([0, 1, 2, 3, 5, 8])
    return case


def num(x):
    return repr(float(x))


def netlist_yaml(case):
    lines = []
    for m in case["mods"]:
        k = m["kind"]
        if k == "soft":
            lines.append(f"  {m['name']}: {{area: {num(m['area'])}, center: [{num(m['center'][0])}, {num(m['center'][1])}]}}")
        elif k in ("hard", "fixed"):
            rs = ", ".join("[" + ", ".join(num(v) for v in r) + "]" for r in m["rects"])
            lines.append(f"  {m['name']}: {{rectangles: [{rs}], {'fixed' if k == 'fixed' else 'hard'}: true}}")
        elif k == "term":
            lines.append(f"  {m['name']}: {{terminal: true, center: [{num(m['center'][0])}, {num(m['center'][1])}]}}")
        elif k == "termfixed":
            lines.append(f"  {m['name']}: {{terminal: true, fixed: true, center: [{num(m['center'][0])}, {num(m['center'][1])}]}}")
        else:
            lines.append(f"  {m['name']}: {{terminal: true}}")
    nets = ", ".join("[" + ", ".join(e["mods"]) + (f", {num(e['w'])}" if e["w"] != 1 else "") + "]" for e in case["nets"])
    return "Modules: {\n" + ",\n".join(lines) + "\n}\nNets: [" + nets + "]\n"


# ---------------------------------------------------------------- running the implementation
def build(case):
    from frame.geometry.geometry import Rectangle
    from frame.netlist.netlist import Netlist
    from frame.die.die import Die
    Rectangle.undefine_epsilon()
    nl = Netlist(netlist_yaml(case))
    return Die(f"{num(case['W'])}x{num(case['H'])}", nl)


def snapshot(nl):
    ms = []
    for m in nl.modules:
        ms.append({"name": m.name, "area": m.area(), "regions": sorted(m.area_regions.items()),
                   "flags": [m.is_fixed, m.is_hard, m.is_terminal, m.flip],
                   "ar": None if m.aspect_ratio is None else [m.aspect_ratio.min_wh, m.aspect_ratio.max_wh],
                   "rects": [[r.center.x, r.center.y, r.shape.w, r.shape.h, r.fixed, r.hard, r.region, r.location.name]
                             for r in m.rectangles]})
    es = [[[b.name for b in e.modules], e.weight] for e in nl.edges]
    return {"mods": ms, "nets": es}


def centres(nl):
    return [None if m.center is None else [m.center.x, m.center.y] for m in nl.modules]


def call(case, die):
    import tools.force.fruchterman_reingold as M
    if M.VERIF_TRACE is None:
        raise RuntimeError("FRAME_VERIF=1 is not set: the trace hook is off")
    M.VERIF_TRACE.clear()
    files_before = set(os.listdir("."))
    if case["mode"] == "layout":
        d2, imgs = M.fruchterman_reingold_layout(die, float(case["kappa"]), False, None, int(case["max_iter"]))
    else:
        d2, imgs = M.force_algorithm(die, False, None, int(case["max_iter"]))
    trace = list(M.VERIF_TRACE)
    M.VERIF_TRACE.clear()
    return d2, trace, len(imgs), sorted(set(os.listdir(".")) - files_before)


def split_trace(trace):
    runs, costs, cur = [], [], {"iters": []}
    for rec in trace:
        if rec[0] == "iter":
            _, kappa, i, t, pos, disp, nrm = rec
            cur["iters"].append({"i": i, "t": t, "pos": [list(p) for p in pos], "disp": [list(d) for d in disp],
                                 "nrm": list(nrm)})
            cur["kappa"] = kappa
        elif rec[0] == "final":
            cur["kappa"] = rec[1]
            cur["final"] = [list(p) for p in rec[2]]
            runs.append(cur)
            cur = {"iters": []}
        elif rec[0] == "cost":
            costs.append([rec[1], rec[2]])
    return runs, costs


def lens(d, r1, r2):
    if d > r1 + r2:
        return 0.0
    if d <= abs(r1 - r2):
        return math.pi * min(r1, r2) ** 2
    a = math.acos(max(-1.0, min(1.0, (r1 * r1 + d * d - r2 * r2) / (2 * r1 * d))))
    b = math.acos(max(-1.0, min(1.0, (r2 * r2 + d * d - r1 * r1) / (2 * r2 * d))))
    return max(0.0, min(r1 * r1 * a + r2 * r2 * b - d * r1 * math.sin(a), math.pi * min(r1, r2) ** 2))


def own_cost(areas, names, cs, nets):
    """overlap over ordered pairs of distinct modules + (sum over nets of weight * distances to the pin centroid) / 2"""
    n = len(areas)
    rad = [math.sqrt(a / math.pi) for a in areas]
    ov = 0.0
    for i in range(n):
        for j in range(n):
            if i != j:
                ov += lens(math.hypot(cs[i][0] - cs[j][0], cs[i][1] - cs[j][1]), rad[i], rad[j])
    idx = {nm: i for i, nm in enumerate(names)}
    wl = 0.0
    for ms, w in nets:
        pts = [cs[idx[nm]] for nm in ms]
        gx = sum(p[0] for p in pts) / len(pts)
        gy = sum(p[1] for p in pts) / len(pts)
        wl += w * sum(math.hypot(gx - p[0], gy - p[1]) for p in pts)
    return ov + wl / 2


def run_impl(case):
    die = build(case)
    nl = die.netlist
    obs = {"cs": centres(nl), "fx": [m.is_fixed for m in nl.modules], "before": snapshot(nl)}
    d2, trace, nimgs, newfiles = call(case, die)
    obs["same_object"] = d2 is die
    obs["after"] = snapshot(d2.netlist)
    obs["out"] = centres(d2.netlist)
    obs["runs"], obs["costs"] = split_trace(trace)
    obs["imgs"], obs["files"] = nimgs, newfiles
    # determinism: a second, freshly built, identical input
    d3, trace2, _, _ = call(case, build(case))
    obs["out2"] = centres(d3.netlist)
    obs["trace_equal"] = (split_trace(trace2) == (obs["runs"], obs["costs"]))
    if case["mode"] == "algo":
        # independent candidates: each spring constant on its own fresh die, public function, own cost
        areas = [m["area"] for m in obs["before"]["mods"]]
        names = [m["name"] for m in obs["before"]["mods"]]
        import tools.force.fruchterman_reingold as M
        cand = []
        for k in KAPPAS:
            dk, _ = M.fruchterman_reingold_layout(build(case), k, False, None, int(case["max_iter"]))
            M.VERIF_TRACE.clear()
            ck = centres(dk.netlist)
            cand.append([k, own_cost(areas, names, ck, obs["before"]["nets"]), ck])
        obs["cand"] = cand
        if all(c is not None for c in obs["out"]):
            obs["ret_cost"] = own_cost(areas, names, obs["out"], obs["before"]["nets"])
    return obs


# ---------------------------------------------------------------- the model side
def gvec(p):
    return f"({gq(p[0])}, {gq(p[1])})"


def grec(it):
    return (f"(mkRec {gq(it['t'])} {glist([gvec(p) for p in it['pos']])} {glist([gvec(p) for p in it['disp']])} "
            f"{glist([gq(x) for x in it['nrm']])})")


def to_coq(case, obs):
    W, H = gq(case["W"] if not case["decimal"] else float(case["W"])), gq(case["H"] if not case["decimal"] else float(case["H"]))
    size = max(float(case["W"]), float(case["H"]))
    tol = gq(F(1, 10 ** 9) * core.frac(size))
    cs = glist([gopt(None if c is None else gvec(c)) for c in obs["cs"]])
    fx = glist([gbool(b) for b in obs["fx"]])
    mi = gnat(int(case["max_iter"]))
    if any(c is None for c in obs["out"]):
        raise ValueError("a module came back without a centre")
    out = glist([gvec(c) for c in obs["out"]])
    runs = obs["runs"]
    parts = []
    for r in runs[:-1]:
        parts.append(f"trace_ok {W} {H} {tol} {mi} {cs} {fx} {glist([grec(it) for it in r['iters']])} "
                     f"{glist([gvec(p) for p in r['final']])}")
    last = runs[-1]
    parts.append(f"run_ok {W} {H} {tol} {mi} {cs} {fx} {glist([grec(it) for it in last['iters']])} "
                 f"{glist([gvec(p) for p in last['final']])} {out}")
    if case["mode"] == "layout":
        if len(runs) != 1 or obs["costs"]:
            raise ValueError("unexpected trace shape for a single layout")
        parts.append(gbool(last["kappa"] == float(case["kappa"])))
    else:
        if len(runs) != 13 or len(obs["costs"]) != 12:
            raise ValueError(f"unexpected trace shape for force_algorithm: {len(runs)} runs, {len(obs['costs'])} costs")
        parts.append(gbool([r["kappa"] for r in runs[:12]] == [k for k, _ in obs["costs"]]))
        kcs = glist([f"({gq(k)}, {gq(c)})" for k, c in obs["costs"]])
        parts.append(f"select_ok (qc 1 1000000000000000) {kcs} {gq(last['kappa'])}")
    return " && ".join(f"({p})" for p in parts)


# ---------------------------------------------------------------- the direct oracle
def ulp_tol(*mags):
    return 4 * F(2) ** -52 * max(core.frac(abs(m)) for m in mags)


def oracle(case, obs):
    W, H = core.frac(float(case["W"])), core.frac(float(case["H"]))
    if obs["files"] or obs["imgs"]:
        return f"the run produced files or images: {obs['files']} {obs['imgs']}"
    # nothing but centres changed
    if obs["before"] != obs["after"]:
        b, a = obs["before"], obs["after"]
        if [m["name"] for m in b["mods"]] != [m["name"] for m in a["mods"]]:
            return "the set or order of modules changed"
        if b["nets"] != a["nets"]:
            return "the nets changed"
        for mb, ma in zip(b["mods"], a["mods"]):
            if mb != ma:
                what = [k for k in mb if mb[k] != ma[k]]
                return f"module {mb['name']}: {', '.join(what)} changed"
    for i, c in enumerate(obs["out"]):
        name = obs["before"]["mods"][i]["name"]
        if c is None:
            return f"module {name} has no centre in the returned netlist"
        if not (math.isfinite(c[0]) and math.isfinite(c[1])):
            return f"module {name}: centre {c} is not finite"
        x, y = core.frac(c[0]), core.frac(c[1])
        tx, ty = ulp_tol(W), ulp_tol(H)
        if not (-tx <= x <= W + tx and -ty <= y <= H + ty):
            return f"module {name}: centre {c} is outside the die {float(W)} x {float(H)}"
        if obs["fx"][i]:
            c0 = obs["cs"][i]
            if c0 is None:
                continue
            if abs(x - core.frac(c0[0])) > ulp_tol(W, c0[0]) or abs(y - core.frac(c0[1])) > ulp_tol(H, c0[1]):
                return f"fixed module {name} moved from {c0} to {c}"
    if obs["out"] != obs["out2"] or not obs["trace_equal"]:
        return "two runs on identical inputs returned different layouts"
    if case["mode"] == "algo":
        if "ret_cost" not in obs:
            return "returned layout has no cost"
        best = min(c for _, c, _ in obs["cand"])
        slack = 1e-9 * max(1.0, abs(best))
        if not obs["ret_cost"] <= best + slack:
            kb = [k for k, c, _ in obs["cand"] if c == best][0]
            return (f"returned layout costs {obs['ret_cost']!r} but the layout of spring constant {kb} costs {best!r} "
                    f"(candidates {[(k, c) for k, c, _ in obs['cand']]})")
        # and it must be one of the candidate layouts
        if not any(ck == obs["out"] for _, _, ck in obs["cand"]):
            return "returned layout is none of the layouts of the spring constants 0.4 .. 1.5"
    return None


def failure_key(case, why):
    return f"C13/{case['mode']}"


def shrink(case):
    ms = case["mods"]
    for i in range(len(ms)):
        if len(ms) > 1:
            nm = ms[i]["name"]
            nets = [dict(e, mods=[x for x in e["mods"] if x != nm]) for e in case["nets"]]
            nets = [e for e in nets if len(e["mods"]) >= 2]
            yield dict(case, mods=ms[:i] + ms[i + 1:], nets=nets)
    for i in range(len(case["nets"])):
        yield dict(case, nets=case["nets"][:i] + case["nets"][i + 1:])
    if case["max_iter"] > 1:
        yield dict(case, max_iter=case["max_iter"] // 2)
        yield dict(case, max_iter=case["max_iter"] - 1)


def nontrivial(case):
    kinds = {m["kind"] for m in case["mods"]}
    return case["max_iter"] >= 1 and len(case["mods"]) >= 2 and "soft" in kinds


def run(ctx, out, replay=None):
    n = 130 if ctx.quick() else 2600
    out.rule = ("dies k/4 (25% decimal k/10), 1-7 modules mixing soft / hard / fixed (rectangles in separate die cells) / "
                "terminal with, without and with fixed centre; centres inside, on the border, in the corners, at the die "
                "centre, coincident; 0-4 nets of arity 2-5, weights {0.5,1,2,2.5,3,10}; kappa in 0.4..1.5, 0.01, 10; "
                "max_iter 0..20; 8% of the cases run force_algorithm (13 layouts each). non-trivial = at least one "
                "iteration, two modules, one of them soft; distinct by canonical hash")
    cases = []
    if replay and "case" in replay:
        cases.append(fr.unjson(replay["case"]))
    cases += fr.load_corpus("C13")
    k = 0
    while len(cases) < n:
        k += 1
        cases.append(gen_case(ctx.rng, "algo" if k % 12 == 0 else "layout"))
    fr.run_cases(ctx, out, cases, run_impl, to_coq, oracle, failure_key, HEADER,
                 dist_key=lambda c: f"{c['mode']}/iter{min(c['max_iter'], 3)}{'+' if c['max_iter'] > 3 else ''}",
                 nontrivial=nontrivial, shard=12, shrink=shrink)
