"""C13 - force-directed relocation (tools/force/fruchterman_reingold.py:
fruchterman_reingold_layout, force_algorithm, total_intersection_area).

A case is a netlist + die and a HISTORY: a list of steps applied to ONE object graph (the Die and its Netlist),
  {"op": "layout", "kappa", "max_iter"} / {"op": "algo", "max_iter"}   the relocation calls, on the die as it is
  {"op": "squares"}     Netlist.create_squares()            (the default squares SHARE the centre Points)
  {"op": "alloc"}       create_initial_allocation(die)      (what the tool chain does before/after relocating)
  {"op": "set", "how": "inplace" | "assign", "mod", "c"}    the caller writes a centre (on the Point / a new Point)
  {"op": "deepcopy"} / {"op": "newdie"}                     deepcopy(die) / a new Die object on the same netlist
  {"op": "reread"}      Netlist(netlist.write_yaml()) in a new Die: what the next tool of the chain starts from
Every relocation call of the history is judged on its own: from the VALUES the objects hold when it starts."""
import copy
import math
import os
from fractions import Fraction as F

os.environ.setdefault("MPLBACKEND", "Agg")          # the force module imports the plotting code: stay headless

from harness import core, fr
from harness.core import gq, gbool, glist, gopt, gnat

HEADER = """From FrameModel Require Import Num.QcTac Cases.Cmp Force.FR Force.FRSeq Cases.CmpC13.
Open Scope Qc_scope."""

ASSUMPTIONS = [
    "the theorems are about the logical shell for an ARBITRARY force law (Section variable `force`): f_att, f_rep, "
    "die_repelling, the norms, sqrt, and the cost (acos/sqrt/pi) are not modelled; the correspondence feeds the "
    "displacements and norms recorded by the FRAME_VERIF=1 hook into the model's step / fr_layout",
    "exact rational arithmetic in the model; model-vs-implementation positions are compared within 1e-9 * max(W, H)",
    "finiteness is a float notion: explored by the oracle (math.isfinite on every returned centre), not proved",
    "fixed modules: the code returns (c - D/2) + D/2, equal to c in exact arithmetic (theorem) but up to an ulp away "
    "in binary64 (e.g. 0.1 -> 0.10000000000000009 on a die of width 8); the oracle accepts 4 ulp of max(W, H, |c|)",
    "centres inside the die are only promised for inputs whose centres are inside the die (fixed modules are never "
    "moved; with max_iter = 0 nothing is clamped): the generator only produces such inputs; theorem C13_fr_all_in_die "
    "states the hypothesis",
    "cost = total_intersection_area + wire_length / 2 where the overlap term ranges over ORDERED pairs of distinct "
    "modules (each unordered pair counted twice), as the anchored total_intersection_area does",
    "the argmin oracle recomputes every candidate layout with the public fruchterman_reingold_layout and its own cost "
    "function; ties are broken towards the first constant (theorem C13_fa_argmin); tolerance 1e-9 relative",
    "histories: every relocation call is judged from the values its die holds when the call starts (snapshot by value "
    "through the public getters, independent of which objects are shared); determinism = the same call on (a) a deep copy "
    "of the die taken just before the call and (b) a die rebuilt from the YAML text with the same values written into "
    "fresh objects must return exactly the same centres and leave the same values; the candidates of the argmin clause "
    "are computed on such rebuilt dies; what callers do between calls (create_squares, Allocation, writing centres) is "
    "not judged, only followed (the model gets the payload values observed after such a step)",
    "nets may list a module more than once ([A, A, B], [A, A]: the reader takes any list of two or more names): such nets are "
    "generated (own stream) and must come back with the same pins in the same order; the model carries the nets as opaque "
    "lists of module indices (theorem C13_fr_only_centres: nets unchanged, for any type of nets), forces are not modelled, so a repeated pin needs no model change",
    "iteration counts: the replayed stream runs at most 33 iterations (the exact Coq replay is quadratic in the iteration count); "
    "max_iter in {100, 101, 128, 150, 200} (thorough: also 255, 256, 257, 1000) is covered by an ORACLE-ONLY stream on small "
    "netlists - these cases are not compared with the model (theorems C13_* hold for every max_iter; the correspondence does "
    "not sample it above 33)",
    "the correspondence carries the MODEL state through the history (Cases/CmpC13.v hist_ok): the trace of every call is "
    "replayed from the values the model has reached, never from the centres read back from the objects",
    "leaving through a corner: theorem C13_fr_last_step_corner (a last step past both borders ends exactly on the corner) "
    "is about the unclamped target recomputed in exact arithmetic from the recorded displacement and norm; the exit stream "
    "is generated so that such steps happen (counted in coverage.steps_past_the_die from the recorded trace in binary64), "
    "the oracle stays 'every returned centre in [0,W]x[0,H]' and the replay stays the model's step on the recorded forces",
]

KAPPAS = [i / 10 for i in range(4, 16)]
WEIGHTS = [1, 1, 2, 0.5, 2.5, 10, 3]


# ---------------------------------------------------------------- generation
def q(rng, lo, hi, den):
    """a dyadic rational k/den in [lo, hi]"""
    return F(rng.randrange(int(lo * den), int(hi * den) + 1), den)


NAMES = ["H1", "H1_0", "H1_io", "H10", "H", "H_1", "h1", "H1_", "_H1", "H1_0_0", "H100", "_", "H01", "H1__0"]
ITERS = [0, 0, 1, 1, 2, 2, 3, 3, 5, 5, 8, 8, 9, 10, 13, 16, 17, 20]


def gen_case(rng, force_mode=None, no_term=False, n=None):
    decimal = rng.random() < 0.25
    if decimal:
        W = F(rng.randrange(10, 200), 10)
        H = F(rng.randrange(10, 200), 10)
    else:
        W = q(rng, 1, 48, 4)
        H = q(rng, 1, 48, 4)
        if rng.random() < 0.2:
            H = W
    # ties: every generated centre on one vertical / horizontal line (the displacement is 0 in one axis)
    align = rng.choice(["x", "y"]) if rng.random() < 0.12 else None
    line = None

    def point(kind=None):
        nonlocal line
        kind = kind or rng.choice(["in", "in", "in", "border", "corner", "centre"])
        if decimal:
            x = F(rng.randrange(0, int(W * 10) + 1), 10)
            y = F(rng.randrange(0, int(H * 10) + 1), 10)
        else:
            x, y = q(rng, 0, W, 8), q(rng, 0, H, 8)
        if kind == "border":
            if rng.random() < 0.5:
                x = rng.choice([F(0), W])
            else:
                y = rng.choice([F(0), H])
        elif kind == "corner":
            x, y = rng.choice([F(0), W]), rng.choice([F(0), H])
        elif kind == "centre":
            x, y = W / 2, H / 2
        if align:
            if line is None:
                line = x if align == "x" else y
            x, y = (line, y) if align == "x" else (x, line)
        return [x, y]

    big = n is not None
    n = n or rng.choice([1, 2, 3, 3, 4, 4, 5, 5, 6, 7])
    # names: M0, M1 .. (M1 / M10 / M11 when there are many) or names that are prefixes / suffixes of each other
    if not big and rng.random() < 0.2:
        pool = rng.sample(NAMES, n)
    else:
        pool = [f"M{i}" for i in range(n)]
    mods = []
    slots = [(i, j) for i in range(4) for j in range(4)]
    rng.shuffle(slots)
    coincide = point() if rng.random() < 0.3 else None
    same_area = rng.random() < 0.2
    the_area = None
    # a netlist of terminals only has no length scale (Netlist sets the rectangle tolerance to inf and Die()
    # refuses it - not an input of this tool): one module, anywhere in the list, has an area
    anchor = rng.randrange(n)
    for i in range(n):
        kinds = ["soft", "soft", "soft", "hard", "term", "termfixed", "termnoc"]
        if no_term:
            kinds = ["soft", "soft", "soft", "hard"]
        if not decimal and slots:
            kinds += ["fixed", "fixed"] if not big else ["fixed"]
        if i == anchor:
            kinds = ["soft", "soft", "hard"] + ([] if decimal else ["fixed"])
        kind = rng.choice(kinds)
        m = {"name": pool[i], "kind": kind}
        if kind == "soft":
            m["area"] = q(rng, F(1, 4), max(F(1, 2), W * H / 4), 4) if not decimal else F(rng.randrange(1, 100), 10)
            if same_area:
                the_area = the_area or m["area"]
                m["area"] = the_area
            m["center"] = list(coincide) if coincide and rng.random() < 0.6 else point()
        elif kind in ("hard", "fixed"):
            if kind == "fixed":
                si, sj = slots.pop()
                cw, ch = W / 4, H / 4
                cx, cy = cw * si + cw / 2, ch * sj + ch / 2
                w, h = cw / rng.choice([2, 4]), ch / rng.choice([2, 4])
                rects = [[cx, cy, w, h]]
                if rng.random() < 0.4:               # an east branch inside the same cell
                    rects.append([cx + w / 2 + w / 4, cy, w / 2, h / 2])
            else:
                w, h = q(rng, F(1, 4), max(F(1, 4), W / 2), 4), q(rng, F(1, 4), max(F(1, 4), H / 2), 4)
                cx, cy = q(rng, 0, W, 8), q(rng, 0, H, 8)
                cx = min(max(cx, w / 2), W - w / 2)
                cy = min(max(cy, h / 2), H - h / 2)
                rects = [[cx, cy, w, h]]
            m["rects"] = rects
        elif kind in ("term", "termfixed"):
            m["center"] = list(coincide) if coincide and rng.random() < 0.4 else point(rng.choice(["border", "corner", "in"]))
        mods.append(m)
    nets = []
    if n >= 2:
        for _ in range(rng.choice([0, 1, 1, 2, 3, 4])):
            ar = min(n, rng.choice([2, 2, 3, 4, 5]))
            names = [mods[i]["name"] for i in rng.sample(range(n), ar)]
            nets.append({"mods": names, "w": float(rng.choice(WEIGHTS))})
        if nets and rng.random() < 0.15:            # equal keys: the same net twice (maybe listed in another order)
            e = rng.choice(nets)
            ms = list(e["mods"])
            if rng.random() < 0.5:
                ms.reverse()
            nets.append({"mods": ms, "w": e["w"] if rng.random() < 0.5 else float(rng.choice(WEIGHTS))})
    mode = force_mode or ("algo" if rng.random() < 0.08 else "layout")
    case = {"mode": mode, "decimal": decimal, "W": W, "H": H, "mods": mods, "nets": nets,
            "kappa": rng.choice(KAPPAS + KAPPAS + [0.01, 10.0, 1.0, 1.0]),
            "max_iter": rng.choice(ITERS), "style": rng.choice(["pos", "pos", "kw"]),
            # input form: whole numbers written as YAML integers (2 instead of 2.0), also in the die string
            "ints": rng.random() < 0.3}
    if mode == "algo":
        case["max_iter"] = rng.choice([0, 1, 2, 3, 5, 8])
    if big:
        case["max_iter"] = rng.choice([1, 1, 2])
    return case


def gen_tie_case(rng):
    """discs in the positions where the overlap formula changes branch or hits an exact value: tangent from outside
    (d = r1 + r2), from inside (d = |r1 - r2|), chord through a centre (d^2 + r1^2 = r2^2, 3-4-5), the centre of one
    on the border of the other (d = r2), concentric; areas pi * r^2 with whole r, centres on whole coordinates.
    With 0 iterations the cost is evaluated on exactly these centres; with 1-2 the layout starts from them."""
    r1, r2, d = rng.choice([(3, 5, 4), (3, 5, 8), (3, 5, 2), (3, 4, 5), (5, 5, 5), (3, 5, 0), (5, 12, 13), (3, 3, 6),
                            (4, 5, 3), (6, 10, 8)])
    vx, vy = rng.choice([(d, 0), (0, d)] + ([(3 * d // 5, 4 * d // 5)] if d % 5 == 0 else []))
    S = F(2 * (r1 + r2) + d + 4)
    W, H = S, S if rng.random() < 0.5 else S + rng.choice([1, 2, 8])
    c1 = [F(r2 + 2), F(r2 + 2)]
    c2 = [c1[0] + vx, c1[1] + vy]
    mods = [{"name": "A", "kind": "soft", "area": F(math.pi * r1 * r1), "center": c1},
            {"name": "B", "kind": "soft", "area": F(math.pi * r2 * r2), "center": c2}]
    if rng.random() < 0.5:
        mods.append({"name": "T", "kind": rng.choice(["term", "termfixed"]), "center": [F(0), H / 2]})
    if rng.random() < 0.3:
        mods.reverse()
    nets = [{"mods": [m["name"] for m in mods], "w": float(rng.choice(WEIGHTS))}] if rng.random() < 0.7 else []
    mode = rng.choice(["algo", "algo", "layout"])
    return {"mode": mode, "decimal": True, "W": W, "H": H, "mods": mods, "nets": nets, "kappa": rng.choice(KAPPAS),
            "max_iter": rng.choice([0, 0, 1, 2]), "style": rng.choice(["pos", "kw"]), "ints": rng.random() < 0.5}


PIN_FORMS = ["double", "only", "apart", "triple", "every", "copy"]


def gen_pins_case(rng, idx):
    """nets with REPEATED pins (a module listed more than once in a net - the reader takes any list of two or more names):
      double  [A, A, B]        only   [A, A] (one module, twice: nothing else on the net)     apart  [A, B, A] / [A, B, C, A]
      triple  [A, A, A, B]     every  each net of the netlist gets one of its pins again       copy   [A, B, A, B]
    next to the ordinary nets of the general generator; weights as there (the weight follows the pins in the YAML list).
    One call, the same call twice, or call / reread (write_yaml and back) / call; 1 in 5 force_algorithm."""
    form = PIN_FORMS[idx % len(PIN_FORMS)]
    op = "algo" if idx % 5 == 4 else "layout"
    while True:
        c = gen_case(rng, op)
        if 2 <= len(c["mods"]) <= 5:
            break
    names = [m["name"] for m in c["mods"]]
    a, b = rng.sample(names, 2)
    rest = [x for x in names if x not in (a, b)]
    w = float(rng.choice(WEIGHTS))
    nets = list(c["nets"])
    if form == "double":
        new = [{"mods": rng.choice([[a, a, b], [b, a, a]]), "w": w}]
    elif form == "only":
        new = [{"mods": [a, a], "w": w}]
        if rng.random() < 0.5:
            new.append({"mods": [a, b], "w": float(rng.choice(WEIGHTS))})
    elif form == "apart":
        new = [{"mods": [a, b] + (rest[:1] if rest and rng.random() < 0.5 else []) + [a], "w": w}]
    elif form == "triple":
        new = [{"mods": [a, a, a, b], "w": w}]
    elif form == "copy":
        new = [{"mods": [a, b, a, b], "w": w}]
    else:
        nets = nets or [{"mods": [a, b], "w": w}]
        new = []
        for e in nets:
            ms = list(e["mods"])
            ms.insert(rng.randrange(len(ms) + 1), rng.choice(ms))
            new.append({"mods": ms, "w": e["w"]})
        nets = []
    at = rng.randrange(len(nets) + 1)
    c["nets"] = nets[:at] + new + nets[at:]
    if op == "algo":
        c["max_iter"] = rng.choice([1, 2, 3])
    else:
        c["max_iter"] = rng.choice([0, 1, 2, 3, 5, 8])
    c = normalise(c)
    shape = idx % 3
    if shape == 1:
        c["hist"] = c["hist"] + [dict(c["hist"][0])]
    elif shape == 2 and op == "layout":
        c["hist"] = c["hist"] + [{"op": "reread"}, dict(c["hist"][0])]
    c["stream"] = "pins"
    c["tag"] = form
    return c


HEAVY = [10, 30, 100, 100, 300, 1000]
DIRS = [(F(3, 5), F(4, 5)), (F(5, 13), F(12, 13)), (F(8, 17), F(15, 17)), (F(7, 25), F(24, 25)), (F(5, 7), F(5, 7)),
        (F(20, 29), F(21, 29))]
# the LAST iteration is the one nothing repairs: its temperature is t0 * 2 / (max_iter + 1)
EXIT_ITERS = [1, 1, 2, 3, 1, 2, 3, 1, 5, 2, 1, 8, 3, 4, 1, 2]
# where the module is driven to: each of the four corners three times as often as each of the four borders
EXIT_SITES = [(0, 0), (1, 0), (0, 1), (1, 1), (0, None), (1, 1), (0, 1), (None, 0), (1, 0), (0, 0), (1, 1), (1, None),
              (0, 1), (0, 0), (1, 0), (None, 1)]


def gen_exit_case(rng, idx):
    """a module driven OUT of the die in the last iteration - through a corner (both coordinates overshoot in the same
    step) or through a border (one does): within one last-iteration step of the site, and
      pull   heavy nets (weights 10 .. 1000) to anchors on the site: a fixed terminal exactly on the corner / on the two
             borders next to it / a movable terminal or module there; the movers are zero-area terminals (no repulsion at
             all) or small soft modules
      push   big soft modules almost on top of each other next to the site (the repulsion of the inner one throws the
             outer one out; long thin dies: the step is a tenth of the LONG side)
    max_iter 1, 2, 3 (a few 4, 5, 8), every spring constant incl. 0.01 and 10; 1 in 12 force_algorithm, 1 in 7 the call twice."""
    decimal = rng.random() < 0.25
    shape = rng.choice(["square", "wide", "tall", "any", "any"])
    if decimal:
        W = F(rng.randrange(20, 200), 10)
        H = W if shape == "square" else F(rng.randrange(20, 200), 10)
    else:
        W = q(rng, 2, 48, 4)
        H = W if shape == "square" else q(rng, 2, 48, 4)
    if shape == "wide":
        W, H = max(W, H) , max(F(1), min(W, H) / rng.choice([2, 4]))
    elif shape == "tall":
        W, H = max(F(1), min(W, H) / rng.choice([2, 4])), max(W, H)
    variant = "push" if rng.random() < 0.25 else "pull"
    max_iter = EXIT_ITERS[(idx // 12 + idx) % len(EXIT_ITERS)] if variant == "pull" else rng.choice([1, 1, 1, 1, 2, 3])
    sx, sy = EXIT_SITES[idx % len(EXIT_SITES)]
    corner = sx is not None and sy is not None
    t_last = max(W, H) / 10 * 2 / (max_iter + 1)
    den = 10 if decimal else 8
    while t_last * den < 2:
        den *= 10 if decimal else 8

    def grid(lo, hi):
        return F(rng.randrange(int(lo * den), int(hi * den) + 1), den)

    # the site: a corner, or a point of a border away from the corners
    cx = sx * W if sx is not None else grid(W / 4, 3 * W / 4)
    cy = sy * H if sy is not None else grid(H / 4, 3 * H / 4)
    ix = 0 if sx is None else (1 if sx == 0 else -1)        # the inward direction
    iy = 0 if sy is None else (1 if sy == 0 else -1)

    def away(dx, dy):
        """the point (dx, dy) inwards from the site (a border site: dx inwards, dy along the border), on the grid"""
        dx, dy = F(round(dx * den), den), F(round(dy * den), den)
        if ix and iy:
            x, y = cx + ix * dx, cy + iy * dy
        elif ix:
            x, y = cx + ix * dx, cy + rng.choice([-1, 1]) * dy
        else:
            x, y = cx + rng.choice([-1, 1]) * dy, cy + iy * dx
        return [min(max(x, F(0)), W), min(max(y, F(0)), H)]

    def near(reach, zero_ok=True):
        """a point within `reach` (per axis) of the site, inside the die"""
        lo = 0 if zero_ok else F(1, den)
        return away(grid(lo, max(reach, F(1, den))), grid(lo, max(reach, F(1, den))))

    # distances covered by a module that is pulled with full strength in the first max_iter - 1 / max_iter iterations
    t0 = max(W, H) / 10
    lo_d = sum(t0 * (1 - F(i, max_iter + 1)) for i in range(max_iter - 1))
    hi_d = lo_d + t_last

    def inner():
        return [grid(W / 4, 3 * W / 4), grid(H / 4, 3 * H / 4)]

    mods, nets = [], []
    if variant == "pull":
        how = rng.choice(["on", "on", "on", "on", "on", "beside", "beside", "two", "movable", "soft"]) if corner else \
            rng.choice(["on", "on", "beside", "movable"])
        anchors = []
        if how == "on":
            anchors.append({"kind": "termfixed", "center": [cx, cy]})
        elif how == "beside":       # on a border, a little off the site
            a = [cx, cy]
            if corner:
                k = rng.choice([0, 1])
                a[k] = a[k] + (ix, iy)[k] * grid(0, t_last / 2)
            else:
                k = 1 if ix else 0              # along the border
                a[k] = a[k] + rng.choice([-1, 1]) * grid(0, t_last / 2)
            a[k] = min(max(a[k], F(0)), (W, H)[k])
            anchors.append({"kind": "termfixed", "center": a})
        elif how == "two":          # one on each border next to the corner: the pulls add up diagonally
            anchors.append({"kind": "termfixed", "center": [min(max(cx + ix * grid(0, t_last), F(0)), W), cy]})
            anchors.append({"kind": "termfixed", "center": [cx, min(max(cy + iy * grid(0, t_last), F(0)), H)]})
        elif how == "movable":
            anchors.append({"kind": "term", "center": [cx, cy]})
        else:
            anchors.append({"kind": "soft", "area": grid(F(1, 4), 2), "center": [cx, cy]})
        movers = []
        for _ in range(rng.choice([1, 1, 2, 3])):
            # a module pulled all the way moves t_0, t_1, .. towards the anchor: it passes the site in the LAST
            # iteration when it starts between the distances covered in max_iter - 1 and in max_iter iterations
            r = rng.random()
            dist = lo_d + (hi_d - lo_d) * F(rng.randrange(1, 16), 16) if r < 0.8 else hi_d * F(rng.randrange(0, 21), 16)
            a, b = rng.choice(DIRS) if r < 0.9 else (1, 0)
            if rng.random() < 0.5:
                a, b = b, a
            c = away(dist * a, dist * b)
            if rng.random() < 0.7:
                movers.append({"kind": "term", "center": c})
            else:
                movers.append({"kind": "soft", "area": grid(F(1, den), 1) + F(1, den), "center": c})
        filler = [{"kind": "soft", "area": grid(F(1, 4), max(F(1, 2), W * H / 8)), "center": inner()}]
        if rng.random() < 0.4:
            filler.append({"kind": rng.choice(["soft", "term", "termnoc"]), "area": grid(F(1, 4), 2), "center": inner()})
        mods = anchors + movers + filler
        rng.shuffle(mods)
        for i, m in enumerate(mods):
            m["name"] = f"M{i}"
            if m["kind"] != "soft":
                m.pop("area", None)
            if m["kind"] == "termnoc":
                m.pop("center", None)
        an, mv, fl = [m["name"] for m in anchors], [m["name"] for m in movers], [m["name"] for m in filler]
        if rng.random() < 0.3:      # one heavy net of everything at the site
            nets.append({"mods": an + mv, "w": float(rng.choice(HEAVY))})
        else:
            for m in mv:
                for a in (an if rng.random() < 0.7 else an[:1]):
                    nets.append({"mods": [a, m] if rng.random() < 0.5 else [m, a], "w": float(rng.choice(HEAVY))})
        if rng.random() < 0.5:      # and a light one to the inside
            nets.append({"mods": [rng.choice(mv), rng.choice(fl)], "w": float(rng.choice(WEIGHTS))})
    else:
        n = rng.choice([2, 2, 3])
        while t_last * den < 16:
            den *= 10 if decimal else 8
        # the outer module well inside the last step (per axis) but several times further from the borders than from
        # the inner module behind it (the borders repel like modules do: with k^2 / distance)
        e = max(F(1, den), F(round(t_last * den / rng.choice([16, 32, 64])), den))
        reach = max(4 * e, t_last * rng.choice([F(1, 4), F(1, 2), F(1, 2), F(5, 8), 1]))
        first = away(grid(3 * e, reach), grid(3 * e, reach))
        amax = max(F(1), W * H / 4)
        mods.append({"kind": "soft", "area": grid(amax / 8, amax), "center": first})
        for j in range(1, n):
            c = [first[0] + ix * e * rng.choice([0, 1, 1, 1, 2]), first[1] + iy * e * rng.choice([0, 1, 1, 1, 2])]
            if j == 2 and rng.random() < 0.5:
                c = list(first)                 # exactly coincident: no force between these two
            c = [min(max(c[0], F(0)), W), min(max(c[1], F(0)), H)]
            mods.append({"kind": "soft", "area": grid(amax / 8, amax), "center": c})
        if rng.random() < 0.3:
            mods.append({"kind": "term", "center": near(reach)})
        rng.shuffle(mods)
        for i, m in enumerate(mods):
            m["name"] = f"M{i}"
        if rng.random() < 0.3:
            nets.append({"mods": [m["name"] for m in rng.sample(mods, 2)], "w": float(rng.choice(WEIGHTS))})
    mode = "algo" if rng.random() < 0.08 else "layout"
    case = {"mode": mode, "decimal": decimal, "W": W, "H": H, "mods": mods, "nets": nets,
            "kappa": rng.choice(KAPPAS + [0.01, 0.01, 10.0, 10.0, 0.4, 1.5, 1.0, 1.0]),
            "max_iter": max_iter if mode == "layout" else min(max_iter, 3),
            "style": rng.choice(["pos", "pos", "kw"]), "ints": rng.random() < 0.3}
    case = normalise(case)
    if rng.random() < 0.15:
        case["hist"] = case["hist"] + [dict(case["hist"][0])]
    case["stream"] = "exit"
    case["tag"] = f"{variant}/{how if variant == 'pull' else len(mods)}/{'corner' if corner else 'border'}"
    return case


def num(x, ints=False):
    x = float(x)
    return str(int(x)) if ints and x.is_integer() else repr(x)


def netlist_yaml(case):
    ii = bool(case.get("ints"))

    def nm(x):
        return num(x, ii)
    lines = []
    for m in case["mods"]:
        k = m["kind"]
        if k == "soft":
            lines.append(f"  {m['name']}: {{area: {nm(m['area'])}, center: [{nm(m['center'][0])}, {nm(m['center'][1])}]}}")
        elif k in ("hard", "fixed"):
            rs = ", ".join("[" + ", ".join(nm(v) for v in r) + "]" for r in m["rects"])
            lines.append(f"  {m['name']}: {{rectangles: [{rs}], {'fixed' if k == 'fixed' else 'hard'}: true}}")
        elif k == "term":
            lines.append(f"  {m['name']}: {{terminal: true, center: [{nm(m['center'][0])}, {nm(m['center'][1])}]}}")
        elif k == "termfixed":
            lines.append(f"  {m['name']}: {{terminal: true, fixed: true, center: [{nm(m['center'][0])}, {nm(m['center'][1])}]}}")
        else:
            lines.append(f"  {m['name']}: {{terminal: true}}")
    nets = ", ".join("[" + ", ".join(e["mods"]) + (f", {nm(e['w'])}" if e["w"] != 1 else "") + "]" for e in case["nets"])
    return "Modules: {\n" + ",\n".join(lines) + "\n}\nNets: [" + nets + "]\n"


# ---------------------------------------------------------------- histories
CALLS = ("layout", "algo")
SHORT = {"layout": "L", "algo": "A", "squares": "sq", "alloc": "al", "deepcopy": "dc", "newdie": "nd", "reread": "rr"}


def steps_of(case):
    if "hist" in case:
        return case["hist"]
    style = case.get("style", "pos")
    if case["mode"] == "layout":
        return [{"op": "layout", "kappa": case["kappa"], "max_iter": case["max_iter"], "style": style}]
    return [{"op": "algo", "max_iter": case["max_iter"], "style": style}]


def normalise(case):
    """the one-call cases of the corpus / old replay files, in the history format"""
    if "hist" in case:
        return case
    return {"decimal": case["decimal"], "W": case["W"], "H": case["H"], "mods": case["mods"], "nets": case["nets"],
            "ints": bool(case.get("ints")), "hist": steps_of(case)}


def short(st):
    if st["op"] == "set":
        return "si" if st["how"] == "inplace" else "sa"
    return SHORT[st["op"]]


def rand_point(rng, case):
    W, H = case["W"], case["H"]
    if case["decimal"]:
        x, y = F(rng.randrange(0, int(W * 10) + 1), 10), F(rng.randrange(0, int(H * 10) + 1), 10)
    else:
        x, y = q(rng, 0, W, 8), q(rng, 0, H, 8)
    kind = rng.choice(["in", "in", "in", "border", "corner", "centre"])
    if kind == "border":
        if rng.random() < 0.5:
            x = rng.choice([F(0), W])
        else:
            y = rng.choice([F(0), H])
    elif kind == "corner":
        x, y = rng.choice([F(0), W]), rng.choice([F(0), H])
    elif kind == "centre":
        x, y = W / 2, H / 2
    return [x, y]


def gen_call(rng, prev=None, algo_p=0.3, small=True):
    """a relocation call; with a previous call, often the same parameters again (same die, same arguments)"""
    if prev is not None and rng.random() < 0.55:
        st = dict(prev)
        if rng.random() < 0.3 and st["op"] == "layout":
            st["kappa"] = rng.choice(KAPPAS)
        return st
    style = rng.choice(["pos", "pos", "kw"])
    if rng.random() < algo_p:
        return {"op": "algo", "max_iter": rng.choice([1, 2, 2, 3, 4] if small else [0, 1, 2, 3, 5, 8]), "style": style}
    return {"op": "layout", "kappa": rng.choice(KAPPAS + KAPPAS + [0.01, 10.0, 1.0, 1.0]),
            "max_iter": rng.choice([0, 1, 1, 2, 3, 5, 8, 9, 10, 13]), "style": style}


def gen_set(rng, case, how=None):
    movable = [m["name"] for m in case["mods"] if m["kind"] in ("soft", "term", "termnoc")]
    if not movable:
        return None
    return {"op": "set", "how": how or rng.choice(["inplace", "assign"]), "mod": rng.choice(movable),
            "c": rand_point(rng, case)}


def gen_hist_case(rng, template):
    """template: prep (something happens to the objects, then one call), again (call, maybe something, call),
    walk (3-6 random steps)"""
    squares_like = template in ("prep", "walk") or rng.random() < 0.5
    base = gen_case(rng, "layout", no_term=squares_like and rng.random() < 0.75)
    case = {"decimal": base["decimal"], "W": base["W"], "H": base["H"], "mods": base["mods"], "nets": base["nets"],
            "ints": base["ints"]}
    between = ["squares", "alloc", "set", "set", "set", "deepcopy", "newdie", "reread"]
    hist = []

    def other():
        op = rng.choice(between)
        st = gen_set(rng, case) if op == "set" else {"op": op}
        return st or {"op": "deepcopy"}

    if template == "prep":
        hist.append({"op": rng.choice(["squares", "squares", "alloc", "alloc", "deepcopy", "newdie", "reread"])})
        if rng.random() < 0.4:
            hist.append(other())
        hist.append(gen_call(rng, algo_p=0.25, small=False))
    elif template == "again":
        if rng.random() < 0.35:
            hist.append({"op": rng.choice(["squares", "alloc"])})
        first = gen_call(rng, algo_p=0.45)
        hist.append(first)
        for _ in range(rng.choice([0, 0, 1, 1, 2])):
            hist.append(other())
        hist.append(gen_call(rng, prev=first, algo_p=0.45))
        if rng.random() < 0.25:
            if rng.random() < 0.5:
                hist.append(other())
            hist.append(gen_call(rng, prev=first, algo_p=0.2))
    else:
        prev, ncalls, nalgo = None, 0, 0
        for _ in range(rng.choice([3, 4, 5, 6])):
            if rng.random() < 0.45 and ncalls < 3:
                st = gen_call(rng, prev=prev, algo_p=0.3 if nalgo < 2 else 0.0)
                if st["op"] == "algo":
                    if nalgo >= 2:
                        continue
                    nalgo += 1
                prev, ncalls = st, ncalls + 1
                hist.append(st)
            else:
                hist.append(other())
        if ncalls == 0:
            hist.append(gen_call(rng, algo_p=0.3))
    case["hist"] = hist
    return case


# ---------------------------------------------------------------- running the implementation
def die_spec(case):
    ii = bool(case.get("ints"))
    return f"{num(case['W'], ii)}x{num(case['H'], ii)}"


def build(case):
    from frame.geometry.geometry import Rectangle
    from frame.netlist.netlist import Netlist
    from frame.die.die import Die
    Rectangle.undefine_epsilon()
    nl = Netlist(netlist_yaml(case))
    return Die(die_spec(case), nl)


def snapshot(nl):
    """everything but the centres, BY VALUE through the public getters (who shares which object does not show)"""
    ms = []
    for m in nl.modules:
        ms.append({"name": m.name, "area": m.area(), "regions": sorted(m.area_regions.items()),
                   "flags": [m.is_fixed, m.is_hard, m.is_terminal, m.flip],
                   "ar": None if m.aspect_ratio is None else [m.aspect_ratio.min_wh, m.aspect_ratio.max_wh],
                   "rects": [[r.center.x, r.center.y, r.shape.w, r.shape.h, r.fixed, r.hard, r.region, r.location.name]
                             for r in m.rectangles]})
    es = [[[b.name for b in e.modules], e.weight] for e in nl.edges]
    return {"mods": ms, "nets": es}


def centres(nl):
    return [None if m.center is None else [m.center.x, m.center.y] for m in nl.modules]


def state(die):
    nl = die.netlist
    return {"cs": centres(nl), "fx": [m.is_fixed for m in nl.modules], "snap": snapshot(nl),
            "die": [die.width, die.height]}


def rebuild(case, st):
    """a die with the values of state st in a NEW object graph that shares nothing: the netlist read from the YAML
    text again, the centres written as new Points, rectangles that the text does not give (default squares) added
    as new Rectangles with their own centre Points.  None if the public interface cannot reproduce the values."""
    from frame.geometry.geometry import Rectangle, Point, Shape
    die = build(case)
    nl = die.netlist
    if len(nl.modules) != len(st["snap"]["mods"]):
        return None
    try:
        for m, ms, c in zip(nl.modules, st["snap"]["mods"], st["cs"]):
            cur = [[r.center.x, r.center.y, r.shape.w, r.shape.h, r.fixed, r.hard, r.region, r.location.name]
                   for r in m.rectangles]
            if cur != ms["rects"]:
                m.clear_rectangles()
                for r in ms["rects"]:
                    rr = Rectangle(center=Point(r[0], r[1]), shape=Shape(r[2], r[3]), fixed=r[4], hard=r[5], region=r[6])
                    rr.location = Rectangle.StogLocation[r[7]]
                    m.add_rectangle(rr)
            if c is not None:
                m.center = Point(c[0], c[1])
            elif m.center is not None:
                return None
    except AssertionError:
        return None
    now = state(die)
    if now["snap"] != st["snap"] or now["cs"] != st["cs"] or now["fx"] != st["fx"] or now["die"] != st["die"]:
        return None
    return die


def call(st, die):
    import tools.force.fruchterman_reingold as M
    if M.VERIF_TRACE is None:
        raise RuntimeError("FRAME_VERIF=1 is not set: the trace hook is off")
    M.VERIF_TRACE.clear()
    files_before = set(os.listdir("."))
    kw = st.get("style", "pos") == "kw"
    if st["op"] == "layout":
        if not kw:
            d2, imgs = M.fruchterman_reingold_layout(die, float(st["kappa"]), False, None, int(st["max_iter"]))
        elif float(st["kappa"]) == 1.0:         # the default spring constant, not passed
            d2, imgs = M.fruchterman_reingold_layout(die, max_iter=int(st["max_iter"]))
        else:
            d2, imgs = M.fruchterman_reingold_layout(die, max_iter=int(st["max_iter"]), kappa=float(st["kappa"]))
    elif kw:
        d2, imgs = M.force_algorithm(die, max_iter=int(st["max_iter"]))
    else:
        d2, imgs = M.force_algorithm(die, False, None, int(st["max_iter"]))
    trace = list(M.VERIF_TRACE)
    M.VERIF_TRACE.clear()
    return d2, trace, len(imgs), sorted(set(os.listdir(".")) - files_before)


def split_trace(trace):
    runs, costs, cur = [], [], {"iters": []}
    for rec in trace:
        if rec[0] == "iter":
            _, kappa, i, t, pos, disp, nrm = rec
            cur["iters"].append({"i": i, "t": t, "pos": [list(p) for p in pos], "disp": [list(d) for d in disp],
                                 "nrm": list(nrm)})
            cur["kappa"] = kappa
        elif rec[0] == "final":
            cur["kappa"] = rec[1]
            cur["final"] = [list(p) for p in rec[2]]
            runs.append(cur)
            cur = {"iters": []}
        elif rec[0] == "cost":
            costs.append([rec[1], rec[2]])
    return runs, costs


def lens(d, r1, r2):
    if d > r1 + r2:
        return 0.0
    if d <= abs(r1 - r2):
        return math.pi * min(r1, r2) ** 2
    a = math.acos(max(-1.0, min(1.0, (r1 * r1 + d * d - r2 * r2) / (2 * r1 * d))))
    b = math.acos(max(-1.0, min(1.0, (r2 * r2 + d * d - r1 * r1) / (2 * r2 * d))))
    return max(0.0, min(r1 * r1 * a + r2 * r2 * b - d * r1 * math.sin(a), math.pi * min(r1, r2) ** 2))


def own_cost(areas, names, cs, nets):
    """overlap over ordered pairs of distinct modules + (sum over nets of weight * distances to the pin centroid) / 2"""
    n = len(areas)
    rad = [math.sqrt(a / math.pi) for a in areas]
    ov = 0.0
    for i in range(n):
        for j in range(n):
            if i != j:
                ov += lens(math.hypot(cs[i][0] - cs[j][0], cs[i][1] - cs[j][1]), rad[i], rad[j])
    idx = {nm: i for i, nm in enumerate(names)}
    wl = 0.0
    for ms, w in nets:
        pts = [cs[idx[nm]] for nm in ms]
        gx = sum(p[0] for p in pts) / len(pts)
        gy = sum(p[1] for p in pts) / len(pts)
        wl += w * sum(math.hypot(gx - p[0], gy - p[1]) for p in pts)
    return ov + wl / 2


STATS = {"calls": 0, "rebuilt_twin_unavailable": 0, "caller_steps": 0, "caller_steps_raised": 0}
EXITS = {}


def count_exits(case, o):
    """how often the generated forces really carry a movable module past the die in the step of an iteration, per
    stream: [runs, runs whose LAST iteration has a step past two borders at once (through a corner), past one border,
    runs with a corner step in any iteration].  Evidence only (recomputed from the recorded trace in binary64)."""
    W, H = o["before"]["die"]
    fx = o["before"]["fx"]
    row = EXITS.setdefault(case.get("stream", "oracle-only" if case.get("oracle_only") else "general"), [0, 0, 0, 0])
    for r in o["runs"]:
        row[0] += 1
        kinds = []
        for it in r["iters"]:
            both = one = False
            for v, (p, d, n) in enumerate(zip(it["pos"], it["disp"], it["nrm"])):
                if fx[v]:
                    continue
                s = min(n, it["t"])
                ox = abs(p[0] + d[0] / n * s) > W / 2
                oy = abs(p[1] + d[1] / n * s) > H / 2
                both |= ox and oy
                one |= ox != oy
            kinds.append((both, one))
        if kinds:
            row[1] += kinds[-1][0]
            row[2] += kinds[-1][1]
            row[3] += any(b for b, _ in kinds)


def reloc_step(case, die, st):
    """one relocation call on the die as it is; the same call on two other object graphs with the same values"""
    import tools.force.fruchterman_reingold as M
    before = state(die)
    pristine = copy.deepcopy(die)           # the values (and the sharing) of this moment
    twins = {"deepcopy": copy.deepcopy(pristine), "rebuilt": rebuild(case, before)}
    if case.get("oracle_only"):
        # hundreds of iterations: one twin (the one that shares no object with the die), and for force_algorithm (13
        # layouts a call) only in the cases marked for it; the argmin clause needs none
        if twins["rebuilt"] is not None:
            del twins["deepcopy"]
        if st["op"] == "algo" and not case.get("twin"):
            twins = {}
    STATS["calls"] += 1
    STATS["rebuilt_twin_unavailable"] += "rebuilt" in twins and twins["rebuilt"] is None
    d2, trace, nimgs, newfiles = call(st, die)
    after = state(d2)
    o = {"kind": st["op"], "before": before, "after": after, "same_object": d2 is die,
         "imgs": nimgs, "files": newfiles, "twins": {}}
    o["runs"], o["costs"] = split_trace(trace)
    count_exits(case, o)
    for name, tw in twins.items():
        if tw is None:
            o["twins"][name] = None
            continue
        d3, _, _, _ = call(st, tw)
        s3 = state(d3)
        o["twins"][name] = {"cs": s3["cs"], "rest_equal": s3["snap"] == after["snap"] and s3["fx"] == after["fx"]}
    if st["op"] == "algo":
        # independent candidates: each spring constant on its own die with the values of before the call
        # (a rebuilt die, else a deep copy), the public layout function, own cost
        areas = [m["area"] for m in before["snap"]["mods"]]
        names = [m["name"] for m in before["snap"]["mods"]]
        cand = []
        for k in KAPPAS:
            dk = rebuild(case, before) or copy.deepcopy(pristine)
            dk, _ = M.fruchterman_reingold_layout(dk, k, False, None, int(st["max_iter"]))
            M.VERIF_TRACE.clear()
            ck = centres(dk.netlist)
            cand.append([k, own_cost(areas, names, ck, before["snap"]["nets"]), ck])
        o["cand"] = cand
        if all(c is not None for c in after["cs"]):
            o["ret_cost"] = own_cost(areas, names, after["cs"], before["snap"]["nets"])
        # the recorded cost of every trial against the layout recorded for that trial
        W, H = before["die"]
        tc = []
        for r in o["runs"][:len(o["costs"])]:
            cs = [[p[0] + W / 2, p[1] + H / 2] for p in r["final"]]
            tc.append(own_cost(areas, names, cs, before["snap"]["nets"]))
        o["trial_costs"] = tc
    if case.get("oracle_only"):
        for r in o["runs"]:     # hundreds of iterations: the per-iteration records are not replayed, not kept
            r["iters"] = []
    return o, d2


def caller_step(case, die, st):
    from frame.geometry.geometry import Point
    from frame.die.die import Die
    from frame.allocation.allocation import create_initial_allocation
    nl, raised, op = die.netlist, None, st["op"]
    try:
        if op == "squares":
            nl.create_squares()
        elif op == "alloc":
            create_initial_allocation(die)
        elif op == "deepcopy":
            die = copy.deepcopy(die)
        elif op == "newdie":
            die = Die(die_spec(case), nl)
        elif op == "reread":
            from frame.netlist.netlist import Netlist
            die = Die(die_spec(case), Netlist(nl.write_yaml()))
        elif op == "set":
            m = nl.get_module(st["mod"])
            x, y = float(st["c"][0]), float(st["c"][1])
            if st["how"] == "inplace" and m.center is not None:
                m.center.x = x
                m.center.y = y
            else:
                m.center = Point(x, y)
    except Exception as e:              # e.g. create_squares on a netlist with a terminal: stops half way.  These
        raised = f"{type(e).__name__}: {e}"     # steps are not what is judged here: whatever state they leave is the input
    STATS["caller_steps"] += 1
    STATS["caller_steps_raised"] += raised is not None
    return {"kind": op, "raised": raised, "after": state(die)}, die


def run_impl(case):
    die = build(case)
    obs = {"init": state(die), "steps": []}
    for st in steps_of(case):
        if st["op"] in CALLS:
            o, die = reloc_step(case, die, st)
        else:
            o, die = caller_step(case, die, st)
        obs["steps"].append(o)
    return obs


# ---------------------------------------------------------------- the model side
LOCS = ["TRUNK", "NORTH", "SOUTH", "EAST", "WEST", "NO_POLYGON"]


def gvec(p):
    return f"({gq(p[0])}, {gq(p[1])})"


def grec(it):
    return (f"(mkRec {gq(it['t'])} {glist([gvec(p) for p in it['pos']])} {glist([gvec(p) for p in it['disp']])} "
            f"{glist([gq(x) for x in it['nrm']])})")


def fin(x):
    return x if math.isfinite(x) else 0


def payload(ms):
    """the numbers a module carries besides its centre and its fixed flag"""
    xs = [ms["area"]] + [v for _, v in ms["regions"]] + [int(b) for b in ms["flags"][1:]]
    xs += [0] if ms["ar"] is None else [1, fin(ms["ar"][0]), fin(ms["ar"][1])]
    for r in ms["rects"]:
        xs += [r[0], r[1], r[2], r[3], int(r[4]), int(r[5]), LOCS.index(r[7])]
    return xs


def gpl(xs):
    return glist([gq(x) for x in xs])


def gstate(st):
    names = [m["name"] for m in st["snap"]["mods"]]
    cs = glist([gopt(None if c is None else gvec(c)) for c in st["cs"]])
    fx = glist([gbool(b) for b in st["fx"]])
    ps = glist([gpl(payload(m)) for m in st["snap"]["mods"]])
    ns = glist([f"({glist([gnat(names.index(nm)) for nm in ms])}, {gq(w)})" for ms, w in st["snap"]["nets"]])
    return cs, fx, ps, ns


def greloc(st, o):
    mi = gnat(int(st["max_iter"]))
    runs, costs = o["runs"], o["costs"]
    last = runs[-1] if runs else None
    if st["op"] == "layout":
        if len(runs) != 1 or costs:
            raise ValueError(f"unexpected trace shape for a single layout: {len(runs)} runs, {len(costs)} costs")
        if last["kappa"] != float(st["kappa"]):
            raise ValueError("the layout ran with another spring constant than the one passed")
        return f"HLayout {mi} {glist([grec(it) for it in last['iters']])} {glist([gvec(p) for p in last['final']])}"
    if len(runs) != 13 or len(costs) != 12:
        raise ValueError(f"unexpected trace shape for force_algorithm: {len(runs)} runs, {len(costs)} costs")
    if [r["kappa"] for r in runs[:12]] != [k for k, _ in costs]:
        raise ValueError("the recorded costs are not those of the recorded trial runs")
    for (k, c), mine in zip(costs, o["trial_costs"]):
        if not abs(c - mine) <= 1e-9 * max(1.0, abs(mine)):
            raise ValueError(f"the cost recorded for spring constant {k} ({c!r}) is not the cost of the layout recorded "
                             f"for that trial ({mine!r})")
    trials = glist([f"(mkTrial {gq(k)} {gq(c)} {glist([grec(it) for it in r['iters']])} "
                    f"{glist([gvec(p) for p in r['final']])})" for (k, c), r in zip(costs, runs[:12])])
    return (f"HAlgo {mi} {trials} {gq(last['kappa'])} {glist([grec(it) for it in last['iters']])} "
            f"{glist([gvec(p) for p in last['final']])}")


def to_coq(case, obs):
    if case.get("oracle_only"):
        return "true"        # max_iter >= 100: judged by the direct oracle only (no Coq replay of the trace)
    Wf, Hf = float(case["W"]), float(case["H"])
    W, H = gq(Wf), gq(Hf)
    tol = gq(F(1, 10 ** 9) * core.frac(max(Wf, Hf)))
    names = [m["name"] for m in obs["init"]["snap"]["mods"]]
    cs, fx, ps, ns = gstate(obs["init"])
    hops = []
    prev = obs["init"]
    for st, o in zip(steps_of(case), obs["steps"]):
        if st["op"] in CALLS:
            if any(c is None for c in o["after"]["cs"]):
                raise ValueError("a module came back without a centre")
            hops.append(greloc(st, o))
        else:
            if st["op"] == "deepcopy":
                hops.append("HCopy")
            # what the caller's step did to the values: followed, not judged.  Centres: the one it wrote - and, e.g.,
            # a new Die(...) on a netlist whose squares were just created makes the netlist recompute the centres of
            # those modules from their squares.  Payloads: squares created, a square dragged along by an in-place
            # edit of the Point it shares, rectangles relabelled.
            for v, (cb, ca) in enumerate(zip(prev["cs"], o["after"]["cs"])):
                if cb != ca:
                    if ca is None:
                        raise ValueError("a caller step removed a centre")
                    hops.append(f"HSetCentre {gnat(v)} {gvec(ca)}")
            for v, (mb, ma) in enumerate(zip(prev["snap"]["mods"], o["after"]["snap"]["mods"])):
                if payload(mb) != payload(ma):
                    hops.append(f"HSetPayload {gnat(v)} {gpl(payload(ma))}")
        hops.append("HCheck %s %s %s %s" % gstate(o["after"]))
        prev = o["after"]
    return (f"hist_ok {W} {H} {tol} (qc 1 1000000000000000) (mkNl (cmods {cs} {fx} {ps}) {ns}) "
            f"{glist(['(' + h + ')' for h in hops])}")


# ---------------------------------------------------------------- the direct oracle
def ulp_tol(*mags):
    return 4 * F(2) ** -52 * max(core.frac(abs(m)) for m in mags)


def oracle_call(case, o):
    """the property, for one relocation call: from the values before the call to the values after it"""
    W, H = core.frac(float(case["W"])), core.frac(float(case["H"]))
    b, a = o["before"], o["after"]
    # nothing but centres changed
    if b["snap"] != a["snap"] or b["fx"] != a["fx"]:
        if [m["name"] for m in b["snap"]["mods"]] != [m["name"] for m in a["snap"]["mods"]]:
            return "the set or order of modules changed"
        if b["snap"]["nets"] != a["snap"]["nets"]:
            return "the nets changed"
        for mb, ma in zip(b["snap"]["mods"], a["snap"]["mods"]):
            if mb != ma:
                what = [k for k in mb if mb[k] != ma[k]]
                det = f" ({mb['rects']} -> {ma['rects']})" if what == ["rects"] else ""
                return f"module {mb['name']}: {', '.join(what)} changed{det}"
        return "the fixed flags changed"
    for i, c in enumerate(a["cs"]):
        name = b["snap"]["mods"][i]["name"]
        if c is None:
            return f"module {name} has no centre in the returned netlist"
        if not (math.isfinite(c[0]) and math.isfinite(c[1])):
            return f"module {name}: centre {c} is not finite"
        x, y = core.frac(c[0]), core.frac(c[1])
        tx, ty = ulp_tol(W), ulp_tol(H)
        if not (-tx <= x <= W + tx and -ty <= y <= H + ty):
            return f"module {name}: centre {c} is outside the die {float(W)} x {float(H)}"
        if b["fx"][i]:
            c0 = b["cs"][i]
            if c0 is None:
                continue
            if abs(x - core.frac(c0[0])) > ulp_tol(W, c0[0]) or abs(y - core.frac(c0[1])) > ulp_tol(H, c0[1]):
                return f"fixed module {name} moved from {c0} to {c}"
    if o["kind"] == "algo":
        if "ret_cost" not in o:
            return "returned layout has no cost"
        best = min(c for _, c, _ in o["cand"])
        slack = 1e-9 * max(1.0, abs(best))
        if not o["ret_cost"] <= best + slack:
            kb = [k for k, c, _ in o["cand"] if c == best][0]
            return (f"returned layout costs {o['ret_cost']!r} but the layout of spring constant {kb} costs {best!r} "
                    f"(candidates {[(k, c) for k, c, _ in o['cand']]})")
        # and it must be one of the candidate layouts
        if not any(ck == a["cs"] for _, _, ck in o["cand"]):
            return "returned layout is none of the layouts of the spring constants 0.4 .. 1.5"
    # deterministic: the same values in other objects give the same values
    for name, tw in o["twins"].items():
        if tw is None:
            continue
        what = {"deepcopy": "a deep copy of the die taken just before the call",
                "rebuilt": "a die with the same values built afresh from the YAML text"}[name]
        if tw["cs"] != a["cs"]:
            return f"not deterministic: the same call on {what} returned the centres {tw['cs']} instead of {a['cs']}"
        if not tw["rest_equal"]:
            return f"not deterministic: the same call on {what} left other areas / rectangles / nets"
    return None


def oracle(case, obs):
    for i, (st, o) in enumerate(zip(steps_of(case), obs["steps"])):
        if st["op"] in CALLS:
            why = oracle_call(case, o)
            if why:
                if len(obs["steps"]) == 1:
                    return why
                done = " > ".join(short(s) for s in steps_of(case)[:i]) or "nothing"
                return f"step {i + 1} of the history ({st['op']}, after {done}): {why}"
    return None


def failure_key(case, why):
    sts = steps_of(case)
    kind = "algo" if any(s["op"] == "algo" for s in sts) else "layout"
    return f"C13/{kind}" + ("-history" if len(sts) > 1 else "")


def shrink(case):
    case = normalise(case)
    hist = case["hist"]
    # fewer steps (a relocation call must remain)
    for i in range(len(hist)):
        rest = hist[:i] + hist[i + 1:]
        if any(s["op"] in CALLS for s in rest):
            yield dict(case, hist=rest)
    ms = case["mods"]
    for i in range(len(ms)):
        if len(ms) > 1:
            nm = ms[i]["name"]
            nets = [dict(e, mods=[x for x in e["mods"] if x != nm]) for e in case["nets"]]
            nets = [e for e in nets if len(e["mods"]) >= 2]
            h2 = [s for s in hist if not (s["op"] == "set" and s["mod"] == nm)]
            yield dict(case, mods=ms[:i] + ms[i + 1:], nets=nets, hist=h2)
    for i in range(len(case["nets"])):
        yield dict(case, nets=case["nets"][:i] + case["nets"][i + 1:])
    for i, s in enumerate(hist):
        if s["op"] in CALLS and s["max_iter"] > 1:
            for mi in (s["max_iter"] // 2, s["max_iter"] - 1):
                yield dict(case, hist=hist[:i] + [dict(s, max_iter=mi)] + hist[i + 1:])


def nontrivial(case):
    kinds = {m["kind"] for m in case["mods"]}
    return (any(s["op"] in CALLS and s["max_iter"] >= 1 for s in steps_of(case)) and len(case["mods"]) >= 2
            and "soft" in kinds)


def dist_key(case):
    sts = steps_of(case)
    if case.get("stream") == "exit":
        v, _, site = case["tag"].split("/")
        return f"exit/{v}/{site}/{sts[0]['op']}/iter{min(sts[0]['max_iter'], 4)}{'+' if sts[0]['max_iter'] > 4 else ''}"
    if case.get("stream") == "overflow":
        return f"overflow/{sts[0]['op']}/iter{sts[0]['max_iter']}"
    if case.get("stream") == "pins":
        return f"pins/{case['tag']}/{'algo' if any(s['op'] == 'algo' for s in sts) else 'layout'}/{min(len(sts), 3)}steps"
    if len(sts) == 1:
        s = sts[0]
        if s["max_iter"] >= 100:
            return f"{s['op']}/iter100+/oracle-only"
        return f"{s['op']}/iter{min(s['max_iter'], 3)}{'+' if s['max_iter'] > 3 else ''}"
    ops = [s["op"] for s in sts]
    ncalls = sum(1 for o in ops if o in CALLS)
    if case.get("oracle_only"):
        return "history/2calls/iter100+/oracle-only"
    return (f"history/{min(ncalls, 3)}call{'s' if ncalls > 1 else ''}/{'algo' if 'algo' in ops else 'layout'}"
            + ("/squares" if "squares" in ops or "alloc" in ops else "") + ("/edit" if "set" in ops else "")
            + ("/copy" if "deepcopy" in ops or "newdie" in ops or "reread" in ops else ""))


def long_case(rng):
    """an iteration count across the next power of two, on a small netlist (the exact replay grows quadratically)"""
    while True:
        c = gen_case(rng, "layout")
        if len(c["mods"]) <= 3:
            c["max_iter"] = rng.choice([31, 32, 33])
            return c


LONG_ITERS = [100, 101, 128, 150, 200]


LONG_OPS = ["algo", "algo", "algo", "algo", "algo", "layout"]
LONG_QUICK = [101, 128, 150, 200, 100, 150, 200, 150, 128, 101, 150, 200]


def long_oracle_case(rng, idx, iters=LONG_QUICK, twice=False):
    """ORACLE-ONLY stream: iteration counts at and above the default of 100 (where the exact Coq replay, quadratic in
    the iteration count, is out of reach) on small crowded netlists (3-4 modules, two of them soft, a net, a quarter of the die occupied); 3 in 4
    force_algorithm (1000 iterations: the layout function only); twice: 1 in 5 the same call again on the same die"""
    it = iters[idx % len(iters)]
    op = "layout" if it >= 1000 else LONG_OPS[idx % len(LONG_OPS)]
    while True:
        c = gen_case(rng, op)
        # crowded dies (the ranking of the spring constants then depends on how far the layout got)
        fill = sum(m.get("area", 0) + sum(r[2] * r[3] for r in m.get("rects", [])) for m in c["mods"]) / (c["W"] * c["H"])
        if 3 <= len(c["mods"]) <= 4 and sum(m["kind"] == "soft" for m in c["mods"]) >= 2 and c["nets"] and fill >= F(1, 4):
            break
    c["max_iter"] = it
    c = normalise(c)
    if twice and idx % 5 == 4 and it < 1000:
        c["hist"] = c["hist"] + [dict(c["hist"][0])]
    c["oracle_only"] = True
    c["twin"] = idx % 4 == 0
    return c


OVERFLOW = {"cases": 0, "returned": 0, "raised": {}}


def overflow_case(rng, idx):
    """ORACLE-ONLY stream: one net of weight 1e308, so that the attraction w*d^2/k overflows to inf and the displacement
    of its pins is inf - inf / inf / inf = nan; what the relocation RETURNS must still be finite and inside the die (the
    move step clamps min(W/2, max(-W/2, x)), whose argument order sends nan to the border).  Small netlists of the long
    stream, max_iter 1, 2, 3, 5, 20.  The implementation raises OverflowError (Point.norm) / ZeroDivisionError (f_att) on
    part of these inputs on the pinned tree: a call that returns nothing is counted (coverage.overflow_weight_cases)
    and not judged - the property constrains the netlist that is returned."""
    c = long_oracle_case(rng, idx, [1, 2, 3, 5, 20, 2, 3, 1], False)
    c["nets"][idx % len(c["nets"])]["w"] = 1e308
    if idx % 3:
        c["hist"] = [dict(c["hist"][0], op="layout", kappa=c["hist"][0].get("kappa", [1.0, 0.4, 1.5][idx % 3]))]
    c["twin"] = False
    c["oracle_only"] = True
    c["stream"] = "overflow"
    return c


def run_impl_all(case):
    if case.get("stream") != "overflow":
        return run_impl(case)
    OVERFLOW["cases"] += 1
    try:
        obs = run_impl(case)
    except (OverflowError, ZeroDivisionError) as e:
        k = type(e).__name__
        OVERFLOW["raised"][k] = OVERFLOW["raised"].get(k, 0) + 1
        return {"raised": k}
    OVERFLOW["returned"] += 1
    return obs


def oracle_all(case, obs):
    if "raised" in obs:
        return None
    return oracle(case, obs)


def run(ctx, out, replay=None):
    quick = ctx.quick()
    n_single, n_tie, n_big, n_long, n_hist = (52, 4, 3, 1, 44) if quick else (700, 40, 24, 4, 500)
    n_longo = 24 if quick else 120
    n_exit = 24 if quick else 240
    n_pins = 12 if quick else 120
    out.rule = ("dies k/4 (25% decimal k/10), 1-7 modules mixing soft / hard / fixed (rectangles in separate die cells) / "
                "terminal with, without and with fixed centre, in any order; centres inside, on the border, in the corners, "
                "at the die centre, coincident, 12% all on one vertical/horizontal line; 20% equal areas; names M0.. or "
                "(20%) prefixes/suffixes of each other (H1, H1_0, H1_io, H10, _ ..); 0-4 nets of arity 2-5, weights "
                "{0.5,1,2,2.5,3,10}, 15% a net listed twice; 30% whole numbers written as YAML integers (die string too); "
                "kappa in 0.4..1.5, 0.01, 10; max_iter 0..20 incl. 9/10, 15/16/17 (a few 31-33; ORACLE-ONLY, without Coq replay: "
                "max_iter 100, 101, 128, 150, 200 on 3-4 modules with two soft ones, a net and a quarter of the die occupied, 5 in 6 force_algorithm, determinism twin "
                "for 1 in 4 of those); calls positional or by "
                "keyword (default kappa not passed). ONE-CALL cases on a netlist fresh from YAML (1 in 12 "
                "force_algorithm), plus TIES (two discs tangent from outside / inside, chord through a centre 3-4-5, "
                "centre on the other border, concentric; areas pi r^2; 0-2 iterations) and MANY modules (9-11, 15-17, "
                "32-33: names M1/M10/M11). "
                "EXITS (own generator): a movable module driven out of the die in the LAST iteration, through each of the four "
                "corners (both coordinates overshoot in the same step; 3 in 4) or one of the four borders: pull = zero-area "
                "terminals / small soft modules tied by nets of weight 10..1000 to a fixed terminal exactly on the corner, "
                "beside it on a border, on both borders next to it, or to a movable terminal / module there, started at the "
                "distance a fully pulled module covers in max_iter-1 .. max_iter iterations, along 3-4-5-like directions; "
                "push = 2-3 big soft modules a small fraction of the last step apart next to the corner, several times "
                "further from the borders than from each other; square, long and tall dies; max_iter 1, 2, 3 (a few 4, 5, "
                "8), kappa also 0.01 and 10; 1 in 12 force_algorithm, 1 in 7 the same call twice; coverage.steps_past_the_die "
                "counts the runs whose last iteration really steps past two borders. "
                "REPEATED PINS (own generator): 2-5 modules, next to the ordinary nets a net that lists a module more than "
                "once - [A,A,B], [A,A] alone, [A,B,A] / [A,B,C,A], [A,A,A,B], [A,B,A,B], or every net with one of its pins "
                "again; one call, the same call twice, or call / reread / call; 1 in 5 force_algorithm; the nets of the "
                "returned netlist are compared with those before the call by value (pins in order, weight). "
                "OVERFLOW (own generator, oracle only): the small netlists of the long stream with one net of weight 1e308, "
                "max_iter 1, 2, 3, 5, 20, 2 in 3 the layout function; judged when the call returns. "
                "HISTORIES on one Die/Netlist object graph (about 40% of the cases): prep (create_squares | "
                "create_initial_allocation | deepcopy | new Die on the same netlist, maybe a centre written by the caller, "
                "then a call), again (a call, 0-2 caller steps, a second call - 55% with the very same arguments - maybe a "
                "third) and walk (3-6 random steps, up to 3 calls); caller steps: squares, alloc, centre written in "
                "place on the Point or by assigning a new Point (inside the die), deepcopy, newdie, reread (write_yaml, read back into a new Die); 30-45% of the calls of a "
                "history are force_algorithm. Every call is run on the die as it is, on a deep copy taken just before, and "
                "on a die rebuilt from the YAML text with the same values. non-trivial = a call with at least one "
                "iteration, two modules, one of them soft; distinct by canonical hash")
    first = []
    if replay and "case" in replay:
        first.append(normalise(fr.unjson(replay["case"])))
    first += [normalise(c) for c in fr.load_corpus("C13")]
    rng = ctx.rng
    light = [normalise(gen_case(rng, "algo" if k % 12 == 11 else "layout")) for k in range(n_single)]
    light += [normalise(gen_tie_case(rng)) for _ in range(n_tie)]
    sizes = [10, 16, 33] if quick else [9, 10, 11, 15, 16, 17, 32, 33]
    light += [normalise(gen_case(rng, "layout", n=sizes[k % len(sizes)])) for k in range(n_big)]
    light += [normalise(long_case(rng)) for _ in range(n_long)]
    # its own generator: the cases of the replayed stream stay what they were
    import random
    rng_o = random.Random(f"C13-long-{ctx.seed}")
    iters_o = LONG_QUICK if quick else LONG_ITERS + [255, 256, 257, 1000]
    light += [long_oracle_case(rng_o, k, iters_o, twice=not quick) for k in range(n_longo)]
    # modules driven out of the die in the last iteration (through the corners / the borders): its own generator too
    rng_e = random.Random(f"C13-exit-{ctx.seed}")
    light += [gen_exit_case(rng_e, k) for k in range(n_exit)]
    # nets that list a module more than once: its own generator too
    rng_p = random.Random(f"C13-pins-{ctx.seed}")
    light += [gen_pins_case(rng_p, k) for k in range(n_pins)]
    # nets whose weight overflows the attraction: its own generator too
    rng_v = random.Random(f"C13-overflow-{ctx.seed}")
    light += [overflow_case(rng_v, k) for k in range(24 if quick else 160)]
    heavy = [gen_hist_case(rng, ["prep", "again", "again", "walk"][i % 4]) for i in range(n_hist)]
    # interleaved, so that every Coq shard gets the same mix of cheap and expensive cases
    cases, a, b = list(first), 0, 0
    while a < len(light) or b < len(heavy):
        if a < len(light) and (b >= len(heavy) or a * len(heavy) <= b * len(light)):
            cases.append(light[a])
            a += 1
        else:
            cases.append(heavy[b])
            b += 1
    fr.run_cases(ctx, out, cases, run_impl_all, to_coq, oracle_all, failure_key, HEADER,
                 dist_key=dist_key, nontrivial=nontrivial, shard=5, shrink=shrink)
    out.extra["relocation_calls"] = sum(1 for c in cases for s in steps_of(c) if s["op"] in CALLS)
    out.extra["history_cases"] = sum(1 for c in cases if len(steps_of(c)) > 1)
    lo = [c for c in cases if c.get("oracle_only")]
    out.extra["oracle_only_long_cases"] = {
        "cases": len(lo), "max_iter": sorted({s["max_iter"] for c in lo for s in steps_of(c)}),
        "force_algorithm_calls": sum(1 for c in lo for s in steps_of(c) if s["op"] == "algo"),
        "note": "no Coq replay for these (the model comparison is the constant true): fixed modules, centres in the die, "
                "only-centres, determinism (deep copy + rebuilt twin) and the argmin clause are checked by the direct "
                "oracle, the candidates recomputed with the public layout function at the SAME max_iter on fresh dies"}
    out.extra["overflow_weight_cases"] = {
        "cases": OVERFLOW["cases"], "returned_and_judged": OVERFLOW["returned"], "raised_not_judged": dict(OVERFLOW["raised"]),
        "note": "one net of weight 1e308 (attraction overflows to inf, displacement nan): the returned centres must be "
                "finite and inside the die; calls on which the pinned implementation raises OverflowError / "
                "ZeroDivisionError return nothing and are not judged"}
    out.extra["repeated_pin_cases"] = sum(1 for c in cases if any(len(set(e["mods"])) < len(e["mods"]) for e in c["nets"]))
    out.extra["implementation_runs"] = dict(STATS)
    out.extra["steps_past_the_die"] = {
        "columns": ["layout runs (13 per force_algorithm call)", "runs whose LAST iteration steps past two borders at once "
                    "(through a corner)", "runs whose last iteration steps past one border", "runs with a corner step in any iteration"],
        "per_stream": {k: list(v) for k, v in sorted(EXITS.items())},
        "note": "recomputed from the recorded (t, pos, disp, norm) of the implementation, before clamping; evidence that the "
                "generators reach the double clamp of the move step, not an oracle"}
