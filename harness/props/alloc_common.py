"""Shared generator / implementation runner / model comparison for the allocation
refinement properties C02 and C12 (frame/allocation/allocation.py)."""
from fractions import Fraction as F

from harness import core, fr
from harness.core import gq, gbool, gstr, glist, gopt, gnat

HEADER = """From FrameModel Require Import Num.QcTac Geometry.Rect Cases.Cmp Alloc.Alloc Alloc.Thr Cases.CmpAlloc.
Open Scope Qc_scope."""

# ---------------- thresholds ----------------
# A threshold of a case is what the caller passes to refine / must_be_refined: a finite value (a Fraction: the exact
# value of the float) or one of the strings "inf" / "-inf" (model: Alloc/Thr.v TFin / TPosInf / TNegInf).  A case with
# "tint": True passes whole-number thresholds as Python ints (refine(1), must_be_refined(0)).  NaN is not generated:
# it is no threshold ("no module exceeds nan" has no agreed reading); what the code does with it is recorded in the
# evidence (nan_probe) and stated for the model (TNan, C12_mbr_bottom), not judged.
INF, NINF = "inf", "-inf"
BIG = F(*(1e308).as_integer_ratio())
TINY = F(*(5e-324).as_integer_ratio())
EXTREME = [INF, NINF, BIG, -BIG, F(-1), F(0), F(1), F(2), 1 + F(1, 2 ** 52), 1 - F(1, 2 ** 53), TINY, -TINY,
           F(-1, 2 ** 60)]


def thr_arg(t, ints=False):
    """the Python value handed to the code"""
    if isinstance(t, str):
        return float(t)
    t = core.frac(t)
    if ints and t.denominator == 1 and abs(t) < 2 ** 53:
        return int(t)
    return float(t)


def gthr(t):
    if isinstance(t, str):
        return {"inf": "TPosInf", "-inf": "TNegInf"}[t]
    t = core.frac(t)
    if max(abs(t.numerator), t.denominator) >= 2 ** 64 and t.denominator & (t.denominator - 1) == 0:
        m, e = t.numerator, -(t.denominator.bit_length() - 1)       # m * 2^e, m odd (Cases/CmpAlloc.v qdy)
        while m % 2 == 0:
            m //= 2
            e += 1
        return f"(TFin (qdy ({m})%Z ({e})%Z))"
    return f"(TFin {gq(t)})"


def thr_le(x, t):
    """x <= t for a finite ratio x"""
    if isinstance(t, str):
        return t == INF
    return core.frac(x) <= core.frac(t)


def thr_key(t):
    return t if isinstance(t, str) else core.frac(t)


def thr_show(t):
    if isinstance(t, str):
        return t
    t = core.frac(t)
    return str(t) if t.denominator < 10 ** 6 and abs(t) < 10 ** 6 else repr(float(t))

RATIO_F = 0.01          # the sliver ratio griddify passes to x_cuttable / y_cuttable
MODS = ["M1", "M2", "M3", "a_b", "Z9"]
RATIOS = [F(0), F(1, 8), F(1, 4), F(1, 2), F(3, 4), F(1), F(5, 16), F(15, 16)]


def guillotine(rng, box, n):
    """Split a box into at most n cells with random dyadic guillotine cuts."""
    boxes = [box]
    for _ in range(n - 1):
        i = rng.randrange(len(boxes))
        x0, y0, x1, y1 = boxes[i]
        if rng.random() < 0.5 and x1 - x0 >= F(1, 2):
            k = rng.randrange(1, int((x1 - x0) * 4))
            c = x0 + F(k, 4)
            boxes[i:i + 1] = [(x0, y0, c, y1), (c, y0, x1, y1)]
        elif y1 - y0 >= F(1, 2):
            k = rng.randrange(1, int((y1 - y0) * 4))
            c = y0 + F(k, 4)
            boxes[i:i + 1] = [(x0, y0, x1, c), (x0, c, x1, y1)]
    return boxes


def gen_alloc(rng):
    kind = rng.choice(["guillotine", "guillotine", "guillotine", "sparse", "grid", "sliver", "single"])
    x0 = F(rng.randrange(0, 8), 2)
    y0 = F(rng.randrange(0, 8), 2)
    W = F(rng.randrange(2, 24), 2)
    H = F(rng.randrange(2, 24), 2)
    if kind == "sliver":
        W, H = (F(rng.choice([10, 20, 40])), F(rng.choice([100, 50, 25]))) if rng.random() < 0.5 else \
               (F(rng.choice([100, 50])), F(rng.choice([10, 5])))
    box = (x0, y0, x0 + W, y0 + H)
    if kind == "single":
        boxes = [box]
    elif kind == "grid":
        nx, ny = rng.randrange(1, 4), rng.randrange(1, 4)
        boxes = [(x0 + W * i / nx, y0 + H * j / ny, x0 + W * (i + 1) / nx, y0 + H * (j + 1) / ny)
                 for j in range(ny) for i in range(nx)]
        if any(F(b[k]).denominator & (F(b[k]).denominator - 1) for b in boxes for k in range(4)):
            boxes = guillotine(rng, box, nx * ny)
    else:
        boxes = guillotine(rng, box, rng.randrange(2, 9))
    if kind == "sliver":
        # a boundary very close to another cell's edge: the 1% rule matters
        b = boxes[0]
        d = rng.choice([F(1, 4), F(1, 2), F(1, 8), F(1)])
        boxes = [(x0, y0, x0 + W, y0 + H / 2), (x0, y0 + H / 2, x0 + d, y0 + H), (x0 + d, y0 + H / 2, x0 + W, y0 + H)] \
            if rng.random() < 0.5 else \
            [(x0, y0, x0 + W / 2, y0 + H), (x0 + W / 2, y0, x0 + W, y0 + d), (x0 + W / 2, y0 + d, x0 + W, y0 + H)]
    if kind == "sparse" and len(boxes) > 2:
        boxes = [b for b in boxes if rng.random() < 0.7] or boxes[:1]
    rng.shuffle(boxes)
    nmods = rng.randrange(1, 5)
    fixed_mod = "FX"
    cells = []
    for b in boxes:
        r = {"cx": (b[0] + b[2]) / 2, "cy": (b[1] + b[3]) / 2, "w": b[2] - b[0], "h": b[3] - b[1],
             "fixed": False, "hard": False, "region": rng.choice(["_", "_", "_", "dsp"]), "loc": "NOPOLY"}
        style = rng.choice(["empty", "single", "multi", "multi", "full", "fixed"])
        al = []
        if style == "single":
            al = [[rng.choice(MODS[:nmods]), rng.choice(RATIOS)]]
        elif style == "multi":
            names = rng.sample(MODS[:nmods], rng.randrange(1, nmods + 1))
            al = [[m, rng.choice(RATIOS)] for m in names]
        elif style == "full":
            al = [[rng.choice(MODS[:nmods]), F(1)]]
        elif style == "fixed":
            r["fixed"] = True
            r["hard"] = True
            al = [[fixed_mod, F(1)]]
        cells.append({"rect": r, "alloc": al, "depth": rng.choice([0, 0, 0, 1, 2, 3])})
    return kind, cells


def to_decimal(cells, rng):
    """Rescale a dyadic layout to multiples of 0.1 / 0.01 (not representable in binary64)."""
    k = rng.choice([F(1, 10), F(3, 10), F(7, 100), F(11, 10)])
    out = []
    for c in cells:
        r = dict(c["rect"])
        for f in ("cx", "cy", "w", "h"):
            r[f] = r[f] * k
        al = [[m, (q * 16).__floor__() / F(16) if False else q] for m, q in c["alloc"]]
        al = [[m, rng.choice([F(1, 10), F(3, 10), F(1, 2), F(7, 10), F(1), F(0)]) if q not in (0, 1) else q] for m, q in al]
        out.append({"rect": r, "alloc": al, "depth": c["depth"]})
    return out


def gen_case(rng):
    kind, cells = gen_alloc(rng)
    if rng.random() < 0.2:
        cells = to_decimal(cells, rng)
        ops = []
        for _ in range(rng.choice([1, 2, 3])):
            o = rng.choice(["refine", "refine", "uniform", "griddify"])
            ops.append(["refine", rng.choice([F(1, 10), F(3, 10), F(1, 2), F(7, 10), F(1)]), rng.choice([1, 2, 3])] if o == "refine" else [o])
        return {"kind": "decimal-" + kind, "stream": "decimal", "cells": cells, "ops": ops,
                "ths": [F(0), F(3, 10), F(1, 2), F(7, 10), F(1)], "eps": None, "aeps": None}
    ops = []
    for _ in range(rng.choice([1, 1, 1, 2, 3, 4])):
        o = rng.choice(["refine", "refine", "uniform", "griddify"])
        if o == "refine":
            ratios = [a[1] for c in cells for a in c["alloc"]] or [F(1, 2)]
            t = rng.choice([F(0), F(1, 4), F(1, 2), F(15, 16), F(1), rng.choice(ratios), F(rng.randrange(0, 17), 16)])
            ops.append(["refine", t, rng.choice([1, 1, 1, 2, 2, 3, 4, 0])])
        else:
            ops.append([o])
    ths = [F(0), F(1, 4), F(1, 2), F(1), F(rng.randrange(0, 17), 16)]
    return {"kind": kind, "cells": cells, "ops": ops, "ths": ths,
            "eps": F(1, 2 ** 20), "aeps": rng.choice([F(1, 2 ** 10), F(0), F(1, 4)])}


# ---------------- implementation ----------------
def build_alloc(cells):
    from frame.allocation.allocation import Allocation
    desc = []
    for c in cells:
        desc.append((fr.mk_rect(c["rect"]), {m: float(q) for m, q in c["alloc"]}, c["depth"]))
    return Allocation(desc)


def alloc_obs(a):
    cells = [{"rect": fr.rect_obs(x.rect), "alloc": [[m, q] for m, q in x.alloc.items()], "depth": x.depth}
             for x in a.allocations]
    mods = []
    for x in a.allocations:
        for m in x.alloc:
            if m not in mods:
                mods.append(m)
    return {"cells": cells, "areas": {m: a.area(m) for m in mods},
            "centers": {m: [a.center(m).x, a.center(m).y] for m in mods}}


REFINE_LIMIT_S = 120      # a refinement that the harness predicts to produce at most 300 cells returns in well under a second


class time_limit:
    """refine(t, 16) on a cell that must NOT be cut returns at once; an implementation that cuts it builds 65536 cells and
    the constructor's quadratic overlap check never returns: reported as a failed call instead of hanging the run"""

    def __init__(self, seconds):
        self.seconds = seconds

    def __enter__(self):
        import signal
        self.old = None
        try:
            self.old = signal.signal(signal.SIGALRM, self._fire)
            signal.alarm(self.seconds)
        except ValueError:          # not the main thread: no limit
            self.old = None

    @staticmethod
    def _fire(signum, frame):
        raise TimeoutError("refine did not return")

    def __exit__(self, *exc):
        import signal
        if self.old is not None:
            signal.alarm(0)
            signal.signal(signal.SIGALRM, self.old)
        return False


def _refine_size(a, o):
    """cells after refine(o[1], o[2]) according to the property (the harness' own reading of the selected cells)"""
    k = sum(1 for x in a.allocations if not x.rect.fixed and len(x.alloc) > 0 and all(thr_le(v, o[1]) for v in x.alloc.values()))
    return len(a.allocations) + k * (2 ** max(o[2], 0) - 1)


BIG_LIMIT_S = 900


def _big_size(a, o):
    """upper bound of the cells after the operation (large decimal cases)"""
    n = len(a.allocations)
    if o[0] == "refine":
        k = sum(1 for x in a.allocations if not x.rect.fixed and len(x.alloc) > 0 and all(v <= thr_arg(o[1]) for v in x.alloc.values()))
        return n + k * (2 ** max(o[2], 0) - 1)
    if o[0] == "uniform":
        md = max(x.depth for x in a.allocations)
        return sum(2 ** (md - x.depth) for x in a.allocations)
    xs = {round(v, 9) for x in a.allocations for v in (x.rect.bounding_box.ll.x, x.rect.bounding_box.ur.x)}
    ys = {round(v, 9) for x in a.allocations for v in (x.rect.bounding_box.ll.y, x.rect.bounding_box.ur.y)}
    return (len(xs) - 1) * (len(ys) - 1) + n


def loop_obs(a, t, ints, spec):
    """the refine-while-needed loop of the callers, at most spec[1] rounds of refine(t, spec[0]):
    [[cells before the round, cells after it], ...] and whether the loop had stopped"""
    levels, rounds = spec
    out = []
    for _ in range(rounds):
        if not a.must_be_refined(thr_arg(t, ints)):
            return {"rounds": out, "stopped": True}
        if _refine_size(a, ["refine", t, levels]) > 150:
            return {"rounds": out, "stopped": None}
        before = cells_obs(a)
        try:
            with time_limit(REFINE_LIMIT_S):
                a = a.refine(thr_arg(t, ints), levels)
        except Exception as e:
            out.append([before, type(e).__name__])
            return {"rounds": out, "stopped": None}
        out.append([before, cells_obs(a)])
    return {"rounds": out, "stopped": not a.must_be_refined(thr_arg(t, ints))}


def run_impl(case):
    from frame.geometry.geometry import Rectangle
    Rectangle.undefine_epsilon()
    if case.get("stream") != "decimal":
        Rectangle.set_epsilon(float(case["eps"]), float(case["aeps"]))
    try:
        try:
            a = build_alloc(case["cells"])
        except Exception as e:      # rejected: the class of the exception is not compared
            return {"init": None, "err": type(e).__name__}
        ii = bool(case.get("tint"))
        obs = {"init": alloc_obs(a), "mbr": [bool(a.must_be_refined(thr_arg(t, ii))) for t in case["ths"]], "steps": []}
        # does refining at t change the allocation?  (C12: must_be_refined <-> refine changes it)
        ch = []
        for t in case["ths"]:
            try:
                if len(a.allocations) > 100:
                    raise AssertionError("too large")
                b = a.refine(thr_arg(t, ii))
                ch.append(len(b.allocations) != len(a.allocations) or
                          not same_cells(alloc_obs(b)["cells"], obs["init"]["cells"]))
            except Exception as e:
                ch.append(type(e).__name__)
        obs["refine_changes"] = ch
        if case.get("loop"):
            obs["loop"] = [loop_obs(a, t, ii, case["loop"]) for t in case["ths"]]
        big = case.get("big")      # the number of cells a result may have (default: small, the overlap check is quadratic)
        for o in case["ops"]:
            md = max(x.depth for x in a.allocations)
            if big:
                if _big_size(a, o) > big:
                    break
            elif o[0] == "refine" and _refine_size(a, o) > 300 or len(a.allocations) > 150 or \
                    o[0] == "uniform" and sum(2 ** (md - x.depth) for x in a.allocations) > 200:
                break       # keep the quadratic overlap check of the constructor affordable
            before = alloc_obs(a)
            try:
                if o[0] == "refine":
                    with time_limit(BIG_LIMIT_S if big else REFINE_LIMIT_S):
                        b = a.refine(thr_arg(o[1], ii), o[2])
                elif o[0] == "uniform":
                    b = a.uniform_refinement_depth()
                else:
                    b = a.griddify()
            except Exception as e:
                obs["steps"].append({"before": before, "after": None, "err": type(e).__name__})
                break
            after = alloc_obs(b)
            obs["steps"].append({"before": before, "after": after,
                                 "mbr_after": [bool(b.must_be_refined(thr_arg(t, ii))) for t in case["ths"]],
                                 "src_unchanged": alloc_obs(a) == before})
            a = b
        return obs
    finally:
        Rectangle.undefine_epsilon()


# ---------------- Gallina ----------------
def gname(s):
    """a module name as a Coq string; names outside printable ASCII byte by byte (UTF-8), as the regex sees them"""
    if all(32 <= ord(ch) < 127 for ch in s):
        return gstr(s)
    t = "Coq.Strings.String.EmptyString"
    for b in reversed(s.encode("utf-8")):
        t = f"(Coq.Strings.String.String (Coq.Strings.Ascii.ascii_of_nat {b}) {t})"
    return t


def gcell(c):
    al = glist([f"({gname(m)}, {gq(q)})" for m, q in c["alloc"]])
    return f"(mkCell {fr.grect(c['rect'])} {al} {gnat(c['depth'])})"


def gcells(cs):
    return glist([gcell(c) for c in cs])


def gop(o):
    if o[0] == "refine":
        return f"(XRefine {gthr(o[1])} {gnat(o[2])})"
    return "XUniform" if o[0] == "uniform" else "XGriddify"


def to_coq(case, obs):
    if case.get("stream") == "decimal":
        return "true"          # decimal inputs: direct oracle only (the model is exact arithmetic)
    aeps, eps = gq(case["aeps"]), gq(case["eps"])
    q = gq(RATIO_F)
    C0 = gcells(case["cells"])
    if obs["init"] is None:
        return f"match mk_allocation {aeps} {C0} with None => true | Some _ => false end"
    parts = [f"opt_eqb cells_same (mk_allocation {aeps} {C0}) (Some {gcells(obs['init']['cells'])})"]

    def areas(state, cells_term):
        out = []
        scale = gq(max([abs(core.frac(c["rect"]["cx"])) + abs(core.frac(c["rect"]["cy"])) +
                        core.frac(c["rect"]["w"]) + core.frac(c["rect"]["h"]) for c in state["cells"]] + [1]))
        for m, v in state["areas"].items():
            out.append(f"Qceqb (area_of {gstr(m)} {cells_term}) {gq(v)}")
            cxy = state["centers"][m]
            out.append(f"center_close 8 {scale} (center_of {gstr(m)} {cells_term}) {gq(cxy[0])} {gq(cxy[1])}")
        return out

    parts += areas(obs["init"], C0)
    for t, b in zip(case["ths"], obs["mbr"]):
        parts.append(f"Bool.eqb (must_be_refined_x {gthr(t)} {C0}) {gbool(b)}")
    for t, lo in zip(case["ths"], obs.get("loop", [])):
        # the loop of the callers on the model, for as many rounds as the implementation was followed
        done = [r for r in lo["rounds"] if not isinstance(r[1], str)]
        if len(done) != len(lo["rounds"]):
            parts.append("false")       # a round raised: refine_loop never does (C12_refine_loop_progress)
            continue
        last = gcells(sorted_cells(done[-1][1])) if done else gcells(sorted_cells(obs["init"]["cells"]))
        lv, fuel = gnat(case["loop"][0]), gnat(len(done) + (1 if lo["stopped"] else 0))
        if lo["stopped"]:
            parts.append(f"match refine_loop {fuel} {aeps} {gthr(t)} {lv} {C0} with LoopDone cs => cells_same cs {last} | _ => false end")
        else:
            parts.append(f"match refine_loop {fuel} {aeps} {gthr(t)} {lv} {C0} with LoopOutOfFuel cs => cells_same cs {last} "
                         f"&& must_be_refined_x {gthr(t)} cs | _ => false end")
    for o, st in zip(case["ops"], obs["steps"]):
        B = gcells(st["before"]["cells"])
        call = f"run_xop {eps} {aeps} {q} {gop(o)} {B}"
        if st["after"] is None:
            parts.append(f"match {call} with None => true | Some _ => false end")
        else:
            A = gcells(st["after"]["cells"])
            parts.append(f"opt_eqb cells_same ({call}) (Some {gcells(sorted_cells(st['after']['cells']))})")
            parts += areas(st["after"], A)
            for t, b in zip(case["ths"], st["mbr_after"]):
                parts.append(f"Bool.eqb (must_be_refined_x {gthr(t)} {A}) {gbool(b)}")
    return " && ".join(f"({p})" for p in parts)


# ---------------- comparison up to order ----------------
# C02 / C12 constrain the SET of cells of an allocation (and the occupancy map as a mapping), not the position of a
# cell in Allocation.allocations nor the order of the keys: model and implementation are compared as sets, and the
# oracles find the pieces of a cell by geometry.
def canon_cell(c):
    r = c["rect"]
    return (core.frac(r["cx"]), core.frac(r["cy"]), core.frac(r["w"]), core.frac(r["h"]), bool(r["fixed"]), bool(r["hard"]),
            r["region"], r.get("loc", "NOPOLY"), c["depth"], tuple(sorted((m, core.frac(q)) for m, q in c["alloc"])))


def canon_cells(cells):
    return sorted(canon_cell(c) for c in cells)


def same_cells(a, b):
    return canon_cells(a) == canon_cells(b)


def sorted_cells(cells):
    """by centre (the order the Coq comparator sorts in: printing sorted makes its insertion sort linear)"""
    return sorted(cells, key=lambda c: (core.frac(c["rect"]["cx"]), core.frac(c["rect"]["cy"])))


# ---------------- helpers for the oracles ----------------
def cbox(c):
    r = c["rect"]
    cx, cy, w, h = (core.frac(r[k]) for k in ("cx", "cy", "w", "h"))
    return cx - w / 2, cy - h / 2, cx + w / 2, cy + h / 2


def carea(c):
    return core.frac(c["rect"]["w"]) * core.frac(c["rect"]["h"])


def ovl(a, b):
    w = min(a[2], b[2]) - max(a[0], b[0])
    h = min(a[3], b[3]) - max(a[1], b[1])
    return w * h if w > 0 and h > 0 else F(0)


def ratio(c, m):
    for k, q in c["alloc"]:
        if k == m:
            return core.frac(q)
    return F(0)


def mod_area(cells, m):
    return sum(ratio(c, m) * carea(c) for c in cells)


def mod_center(cells, m):
    a = mod_area(cells, m)
    if a == 0:
        return None
    return (sum(ratio(c, m) * carea(c) * core.frac(c["rect"]["cx"]) for c in cells) / a,
            sum(ratio(c, m) * carea(c) * core.frac(c["rect"]["cy"]) for c in cells) / a)


def children_of(parent, cells):
    pb = cbox(parent)
    return [c for c in cells if ovl(pb, cbox(c)) > 0]


def splittable(c, t):
    return (not c["rect"]["fixed"]) and len(c["alloc"]) > 0 and all(thr_le(q, t) for _, q in c["alloc"])


def shrink(case):
    cells = case["cells"]
    if len(case["ops"]) > 1:
        yield dict(case, ops=case["ops"][:-1])
        yield dict(case, ops=case["ops"][1:])
    if case.get("big"):
        return      # a large result is the point of the case (and every attempt costs the quadratic overlap check)
    for i in range(len(cells)):
        if len(cells) > 1:
            yield dict(case, cells=cells[:i] + cells[i + 1:])
    for i, c in enumerate(cells):
        if c["depth"] > 0:
            yield dict(case, cells=cells[:i] + [dict(c, depth=0)] + cells[i + 1:])
        if len(c["alloc"]) > 1:
            yield dict(case, cells=cells[:i] + [dict(c, alloc=c["alloc"][:1])] + cells[i + 1:])


def dist_key(c):
    return c["kind"] + "/" + "+".join(o[0] for o in c["ops"])


def nontrivial(c):
    return len(c["cells"]) >= 2


# =====================================================================================
# Histories on shared objects (model: coq/Alloc/Hist.v)
#
# A history case is {"cells": ..., "hops": [...], "eps", "aeps", "kind"}.  A step is one call of the public API on
# one of the Allocation objects built so far (index taken modulo their number, cell index modulo the number of cells):
#   ["apply", k, ["refine", t, levels] | ["uniform"] | ["griddify"]]   b = A[k].<op>(...); b is appended to A
#   ["copy", k]                     b = Allocation([(c.rect, c.alloc, c.depth) for c in A[k].allocations]); appended
#   ["setfixed", k, i, b]           A[k].allocations[i].rect.fixed = b   (public setter, used in place by the repository)
#   ["mbr", k, t]  ["maxdepth", k]  ["numrect", k]  ["areas", k]           queries
# The objects are never rebuilt between steps: what a later call returns on an object that was already queried, refined
# or whose cells were flagged in place (possibly through another allocation sharing the Rectangle) is compared with the
# pure model on the current values.  Which allocations share a Rectangle object is not part of C02 / C12: the flags
# observed after a setfixed step are handed to the model, which only checks that they are a possible outcome (the
# addressed cell carries the flag; a cell whose flag changed has the geometry of the addressed cell) and goes on from them.
# =====================================================================================
HEADER_H = """From FrameModel Require Import Num.QcTac Geometry.Rect Cases.Cmp Alloc.Alloc Alloc.Thr Alloc.Hist Cases.CmpAlloc.
Open Scope Qc_scope."""

MAX_CELLS = 140          # per allocation (the constructor's overlap check is quadratic)
MAX_TOTAL = 520          # over all allocations of a history


def cells_obs(a):
    return [{"rect": fr.rect_obs(x.rect), "alloc": [[m, q] for m, q in x.alloc.items()], "depth": x.depth}
            for x in a.allocations]


def areas_obs(a):
    mods = []
    for x in a.allocations:
        for m in x.alloc:
            if m not in mods:
                mods.append(m)
    return [[m, a.area(m), [a.center(m).x, a.center(m).y]] for m in mods]


def _predicted_size(a, o):
    n = len(a.allocations)
    if o[0] == "refine":
        return _refine_size(a, o) if o[2] > 4 else n * 2 ** max(o[2], 0)
    if o[0] == "uniform":
        md = max(x.depth for x in a.allocations)
        return sum(2 ** (md - x.depth) for x in a.allocations)
    xs = {v for x in a.allocations for v in (x.rect.bounding_box.ll.x, x.rect.bounding_box.ur.x)}
    ys = {v for x in a.allocations for v in (x.rect.bounding_box.ll.y, x.rect.bounding_box.ur.y)}
    return min(n * 8, (len(xs) - 1) * (len(ys) - 1) + n)


def run_hist_impl(case):
    from frame.geometry.geometry import Rectangle
    from frame.allocation.allocation import Allocation
    Rectangle.undefine_epsilon()
    Rectangle.set_epsilon(float(case["eps"]), float(case["aeps"]))
    try:
        from harness.props import alloc_variants
        try:
            A = [alloc_variants.build(case)]
        except Exception as e:      # rejected: the class of the exception is not compared
            return {"init": None, "err": type(e).__name__}
        obs = {"init": {"cells": cells_obs(A[0])}, "steps": []}
        ii = bool(case.get("tint"))
        for h in case["hops"]:
            k = h[1] % len(A)
            a = A[k]
            src = cells_obs(a)
            snap = [cells_obs(x) for x in A]
            st = {"k": k, "src": src}
            if h[0] == "apply":
                o = h[2]
                if _predicted_size(a, o) > MAX_CELLS or sum(len(x.allocations) for x in A) > MAX_TOTAL:
                    break
                try:
                    if o[0] == "refine":
                        with time_limit(REFINE_LIMIT_S):
                            b = a.refine(thr_arg(o[1], ii), o[2])
                    elif o[0] == "uniform":
                        b = a.uniform_refinement_depth()
                    else:
                        b = a.griddify()
                except Exception as e:
                    b = None
                    st["err"] = type(e).__name__
                st["new"] = None if b is None else cells_obs(b)
                if b is not None:
                    st["new_areas"] = areas_obs(b)
                    A.append(b)
            elif h[0] == "copy":
                try:
                    b = Allocation([(c.rect, c.alloc, c.depth) for c in a.allocations])
                except Exception as e:
                    b = None
                    st["err"] = type(e).__name__
                st["new"] = None if b is None else cells_obs(b)
                if b is not None:
                    A.append(b)
            elif h[0] == "setfixed":
                i = h[2] % len(a.allocations)
                st["i"] = i
                st["at"] = [a.allocations[i].rect.center.x, a.allocations[i].rect.center.y]
                a.allocations[i].rect.fixed = bool(h[3])
                st["fixed"] = [[[x.rect.center.x, x.rect.center.y] for x in y.allocations if x.rect.fixed] for y in A]
            elif h[0] == "mbr":
                st["val"] = bool(a.must_be_refined(thr_arg(h[2], ii)))
            elif h[0] == "maxdepth":
                st["val"] = int(a.max_refinement_depth())
            elif h[0] == "numrect":
                st["val"] = int(a.num_rectangles)
            elif h[0] == "areas":
                st["val"] = areas_obs(a)
            else:
                raise ValueError(f"unknown history step {h[0]}")
            # what the step did to the allocations that existed before it (flags aside for a setfixed step)
            now = [cells_obs(x) for x in A[:len(snap)]]
            if h[0] == "setfixed":
                strip = lambda cs: [canon_cells([dict(c, rect=dict(c["rect"], fixed=False)) for c in x]) for x in cs]
                st["others_unchanged"] = strip(now) == strip(snap)
            else:
                st["others_unchanged"] = [canon_cells(x) for x in now] == [canon_cells(x) for x in snap]
            obs["steps"].append(st)
        return obs
    finally:
        Rectangle.undefine_epsilon()


def gfixed(fixed):
    return glist([glist([f"({gq(x)}, {gq(y)})" for x, y in fl]) for fl in fixed])


def ghop(h, st):
    if h[0] == "apply":
        return f"(HApply {gnat(h[1])} {gop(h[2])})"
    if h[0] == "copy":
        return f"(HCopy {gnat(h[1])})"
    if h[0] == "setfixed":
        return f"(HSetFixed {gnat(h[1])} {gq(st['at'][0])} {gq(st['at'][1])} {gbool(h[3])} {gfixed(st['fixed'])})"
    if h[0] == "mbr":
        return f"(HMbr {gnat(h[1])} {gthr(h[2])})"
    name = {"maxdepth": "HMaxDepth", "numrect": "HNumRect", "areas": "HAreas"}[h[0]]
    return f"({name} {gnat(h[1])})"


def gobs(h, st):
    if h[0] in ("apply", "copy"):
        return f"(ONew {gopt(None if st['new'] is None else gcells(sorted_cells(st['new'])))})"
    if h[0] == "setfixed":
        return f"(OFixed {gfixed(st['fixed'])})"
    if h[0] == "mbr":
        return f"(OBool {gbool(st['val'])})"
    if h[0] in ("maxdepth", "numrect"):
        return f"(ONat {gnat(st['val'])})"
    return "(OAreas " + glist([f"({gstr(m)}, {gq(a)}, ({gq(c[0])}, {gq(c[1])}))" for m, a, c in st["val"]]) + ")"


def hist_to_coq(case, obs):
    aeps, eps, q = gq(case["aeps"]), gq(case["eps"]), gq(RATIO_F)
    C0 = gcells(case["cells"])
    if obs["init"] is None:
        return f"match mk_allocation {aeps} {C0} with None => true | Some _ => false end"
    scale = gq(max([abs(core.frac(c["rect"]["cx"])) + abs(core.frac(c["rect"]["cy"])) +
                    core.frac(c["rect"]["w"]) + core.frac(c["rect"]["h"]) for c in obs["init"]["cells"]] + [1]))
    hops = case["hops"][:len(obs["steps"])]
    ops = glist([ghop(h, st) for h, st in zip(hops, obs["steps"])])
    exp = glist([gobs(h, st) for h, st in zip(hops, obs["steps"])])
    extra = []
    for h, st in zip(hops, obs["steps"]):
        if h[0] == "apply" and st.get("new") is not None:
            # the new object's own area()/center() (computed by its constructor) against the model on its cells
            A = gcells(st["new"])
            extra.append(f"areas_same {scale} {A} " +
                         glist([f"({gstr(m)}, {gq(a)}, ({gq(c[0])}, {gq(c[1])}))" for m, a, c in st["new_areas"]]))
    parts = [f"opt_eqb cells_same (mk_allocation {aeps} {C0}) (Some {gcells(obs['init']['cells'])})",
             f"match hist {eps} {aeps} {q} {C0} {ops} with Some l => list_eqb (hobs_eqb {scale}) l {exp} | None => false end"]
    return " && ".join(f"({p})" for p in parts + extra)


# ---------------- extreme arguments (C12: "all thresholds and level counts") ----------------
def _cell(box, alloc, fixed=False, depth=0, region="_"):
    x0, y0, x1, y1 = box
    return {"rect": {"cx": (x0 + x1) / 2, "cy": (y0 + y1) / 2, "w": x1 - x0, "h": y1 - y0, "fixed": fixed, "hard": fixed,
                     "region": region, "loc": "NOPOLY"}, "alloc": alloc, "depth": depth}


EXT_LAYOUTS = ["all-empty", "fixed+empty", "mixed", "one-empty", "one-full", "zero-ratio", "all-occupied"]
EXT_LEVELS = [1, 2, 8, 16]


def ext_cells(rng, layout):
    """small layouts around the cells the extreme thresholds decide differently: empty maps, ratios 0 and 1, fixed"""
    x0, y0 = F(rng.randrange(0, 5)), F(rng.randrange(0, 5))
    w, h = F(rng.choice([2, 4, 8])), F(rng.choice([2, 4, 8]))
    boxes = [(x0 + i * w, y0, x0 + (i + 1) * w, y0 + h) for i in range(3)] + [(x0, y0 + h, x0 + 3 * w, y0 + 2 * h)]
    d = lambda: rng.choice([0, 0, 1, 3])
    if layout == "all-empty":
        return [_cell(b, [], depth=d()) for b in boxes[:rng.choice([2, 3, 4])]]
    if layout == "fixed+empty":
        return [_cell(boxes[0], [["FX", F(1)]], True, d()), _cell(boxes[1], [], depth=d()),
                _cell(boxes[3], [["M1", rng.choice(RATIOS[1:])], ["FX", F(0)]], True, d())]
    if layout == "mixed":
        return [_cell(boxes[0], [["M1", F(1, 4)], ["M2", F(1, 2)]], depth=d()), _cell(boxes[1], [], depth=d()),
                _cell(boxes[3], [["M3", F(1)]], depth=d())]
    if layout == "one-empty":
        return [_cell(boxes[0], [], depth=d())]
    if layout == "one-full":
        return [_cell(boxes[0], [["M1", F(1)]], depth=d())]
    if layout == "zero-ratio":
        return [_cell(boxes[0], [["M1", F(0)]], depth=d()), _cell(boxes[1], [["M1", F(1, 2)], ["M2", F(0)]], depth=d()),
                _cell(boxes[2], [["M2", F(1)]], depth=d())]
    return [_cell(b, [[rng.choice(MODS[:2]), rng.choice(RATIOS[1:])]], depth=d()) for b in boxes[:rng.choice([2, 3])]]


def gen_extreme_case(rng, idx):
    """systematic: every extreme threshold x level count 1, 2, 8, 16 x degenerate layout, on a fresh object: must_be_refined
    and refine probed at ALL extreme thresholds, the callers' loop followed for two rounds at each of them"""
    t = EXTREME[idx % len(EXTREME)]
    lv = EXT_LEVELS[(idx // len(EXTREME)) % len(EXT_LEVELS)]
    layout = EXT_LAYOUTS[(idx + idx // len(EXTREME)) % len(EXT_LAYOUTS)]
    cells = ext_cells(rng, layout)
    ops = [["refine", t, lv]]
    if rng.random() < 0.5:
        ops.append(rng.choice([["uniform"], ["griddify"], ["refine", rng.choice(EXTREME), rng.choice(EXT_LEVELS)]]))
    return {"kind": "ext-" + layout, "cells": cells, "ops": ops, "ths": list(EXTREME), "loop": [rng.choice([1, 1, 2]), 2],
            "tint": rng.random() < 0.4, "eps": F(1, 2 ** 20), "aeps": rng.choice([F(1, 2 ** 10), F(0)])}


def gen_extreme_hist(rng, idx):
    """the same on shared objects: every occupied refinable cell is flagged fixed in place (then only empty cells remain
    refinable), must_be_refined / refine asked at an extreme threshold before, in between and after un-flagging one"""
    t = EXTREME[idx % len(EXTREME)]
    lv = EXT_LEVELS[(idx // len(EXTREME) + idx) % len(EXT_LEVELS)]
    cells = ext_cells(rng, rng.choice(["mixed", "mixed", "all-occupied", "zero-ratio", "fixed+empty"]))
    occ = [i for i, c in enumerate(cells) if c["alloc"] and not c["rect"]["fixed"]]
    hops = [["mbr", 0, t]]
    hops += [["setfixed", 0, i, True] for i in occ]
    hops += [["mbr", 0, t], ["apply", 0, ["refine", t, lv]], ["mbr", 0, INF]]
    if occ:
        hops += [["setfixed", 0, rng.choice(occ), False], ["mbr", 0, t], ["apply", 0, ["refine", t, rng.choice([1, 2])]],
                 ["mbr", 1, t]]
    return {"kind": "hist-ext", "cells": cells, "hops": hops[:12], "tint": rng.random() < 0.4,
            "eps": F(1, 2 ** 20), "aeps": rng.choice([F(1, 2 ** 10), F(0)])}


def extremize(rng, case):
    """a generated case with some of its thresholds replaced by extreme ones (the same threshold by the same value
    everywhere in the case, so that must_be_refined / refine pairs stay pairs) and some level counts by 8 / 16"""
    m = {}

    def sub(t):
        k = thr_key(t)
        if k not in m:
            m[k] = rng.choice(EXTREME) if rng.random() < 0.6 else t
        return m[k]

    def subop(o):
        if o[0] != "refine":
            return o
        return ["refine", sub(o[1]), rng.choice([8, 16]) if rng.random() < 0.12 and o[2] > 0 else o[2]]

    case = dict(case, tint=rng.random() < 0.3)
    if is_hist(case):
        hops = []
        for h in case["hops"]:
            if h[0] == "apply":
                hops.append(["apply", h[1], subop(h[2])])
            elif h[0] == "mbr":
                hops.append(["mbr", h[1], sub(h[2])])
            else:
                hops.append(h)
        case["hops"] = hops
        case["kind"] = case["kind"] + ("+" if "/" in case["kind"] else "/") + "extreme"
    elif case.get("stream") == "decimal":
        case["ths"] = list(case["ths"]) + [INF, NINF, F(2)]
    else:
        case["ops"] = [subop(o) for o in case["ops"]]
        case["ths"] = list(case["ths"]) + rng.sample(EXTREME, 3)
    return case


# ---------------- generator of histories ----------------
def _gen_refine(rng, cells):
    ratios = [a[1] for c in cells for a in c["alloc"]] or [F(1, 2)]
    t = rng.choice([F(1), F(1), F(15, 16), F(1, 2), F(1, 4), F(0), rng.choice(ratios), rng.choice(ratios),
                    1 - rng.choice(ratios), F(rng.randrange(0, 17), 16)])
    return ["refine", t, rng.choice([1, 1, 1, 1, 2, 2, 3, 0])]


def _gen_trans(rng, cells):
    o = rng.choice(["refine", "refine", "refine", "uniform", "uniform", "griddify"])
    return _gen_refine(rng, cells) if o == "refine" else [o]


def _gen_query(rng, cells, k):
    o = rng.choice(["mbr", "mbr", "maxdepth", "numrect", "areas"])
    if o == "mbr":
        return ["mbr", k, _gen_refine(rng, cells)[1]]
    return [o, k]


def _valid_areas(cells):
    """every module has a non-zero allocated area (otherwise the constructor raises ZeroDivisionError)"""
    return all(mod_area(cells, m) != 0 for m in {m for c in cells for m, _ in c["alloc"]})


def gen_hist_case(rng, template=None):
    """A history: allocation + calls on shared objects.  The motifs are chosen so that every kind of call is followed,
    on the SAME object, by an in-place flag change and by every other kind of call (also with other arguments), and so
    that flags are changed through a derived allocation sharing the cell."""
    while True:
        kind, cells = gen_alloc(rng)
        if len(cells) <= 9 and (_valid_areas(cells) or rng.random() < 0.1):
            break
    if rng.random() < 0.6 and len(cells) > 1:       # non-uniform depths make uniform_refinement_depth do something
        for c in cells:
            c["depth"] = rng.choice([0, 0, 1, 1, 2])
    n = [1]          # number of allocations (a refine with levels=0 raises and adds none)

    def pick_k():
        return rng.choice([0, 0, n[0] - 1, n[0] - 1, rng.randrange(n[0])])

    def trans(k, o=None):
        o = o or _gen_trans(rng, cells)
        if not (o[0] == "refine" and o[2] == 0):
            n[0] += 1
        return ["apply", k, o]

    def setfixed(k, b=None):
        return ["setfixed", k, rng.randrange(0, 64), rng.random() < 0.75 if b is None else b]

    hops = []
    motifs = ["stale", "stale", "stale", "shared", "shared", "repeat", "flipflop", "chain", "copy", "random"]
    if template is not None:
        motifs = [template]
    for _ in range(rng.choice([1, 1, 2, 2, 3])):
        m = rng.choice(motifs)
        k = pick_k()
        if m == "stale":
            # any call, then flag changes on the same object, then the same call again or any other call
            # (whatever the first call remembered about the object would now be stale)
            first = _gen_query(rng, cells, k) if rng.random() < 0.4 else trans(k)
            hops.append(first)
            for _ in range(rng.choice([1, 2, 2, 3])):
                hops.append(setfixed(k))
            r = rng.random()
            if r < 0.45:
                if first[0] == "apply":
                    hops.append(trans(k, list(first[2])))
                elif first[0] == "mbr":
                    hops += [list(first), trans(k, ["refine", first[2], rng.choice([1, 1, 2])])]
                else:
                    hops += [list(first), trans(k)]
            elif r < 0.6:
                hops.append(_gen_query(rng, cells, k))
            else:
                if rng.random() < 0.3:
                    hops.append(_gen_query(rng, cells, k))
                hops.append(trans(k))
        elif m == "shared":
            # derive b from a, flag a cell through b (or through a), then call both
            hops.append(trans(k))
            j = n[0] - 1
            if rng.random() < 0.5:
                hops.append(_gen_query(rng, cells, j))
            hops.append(setfixed(rng.choice([j, j, k])))
            order = [k, j] if rng.random() < 0.5 else [j, k]
            for x in order:
                hops.append(trans(x) if rng.random() < 0.7 else _gen_query(rng, cells, x))
        elif m == "repeat":
            # the same object called repeatedly with other arguments; must_be_refined next to the refine it predicts
            o1, o2 = _gen_refine(rng, cells), _gen_refine(rng, cells)
            seq = [["mbr", k, o1[1]], trans(k, o1), ["mbr", k, o2[1]], trans(k, o2), ["mbr", k, o1[1]], trans(k, list(o1))]
            if rng.random() < 0.5:
                seq.insert(rng.randrange(1, len(seq)), setfixed(k))
            hops += seq[:rng.choice([2, 4, 4, 6, 7])]
        elif m == "flipflop":
            i = rng.randrange(0, 64)
            o = _gen_trans(rng, cells)
            hops += [["setfixed", k, i, True], trans(k, list(o)), ["setfixed", k, i, False], trans(k, list(o))]
            if rng.random() < 0.5:
                hops += [["setfixed", k, i, True], trans(k, list(o))]
        elif m == "chain":
            for _ in range(rng.choice([2, 3])):
                hops.append(trans(n[0] - 1))
                if rng.random() < 0.4:
                    hops.append(setfixed(n[0] - 1))
        elif m == "copy":
            hops.append(["copy", k])
            n[0] += 1
            hops.append(setfixed(rng.choice([k, n[0] - 1])))
            hops.append(trans(k))
            hops.append(trans(n[0] - 2) if rng.random() < 0.5 else _gen_query(rng, cells, n[0] - 2))
        else:
            for _ in range(rng.choice([2, 3, 4])):
                r = rng.random()
                hops.append(trans(pick_k()) if r < 0.4 else setfixed(pick_k()) if r < 0.7 else
                            _gen_query(rng, cells, pick_k()))
    hops = hops[:12]
    return {"kind": "hist-" + kind, "cells": cells, "hops": hops,
            "eps": F(1, 2 ** 20), "aeps": rng.choice([F(1, 2 ** 10), F(0), F(1, 4)])}


QKINDS = ["mbr", "refine", "uniform", "griddify", "maxdepth", "numrect", "areas", "copy", "derived"]
TKINDS = ["refine", "uniform", "griddify", "mbr"]


def gen_hist_template(rng, idx):
    """Systematic part: for every kind of first call Q and every kind of later call T, the history
    Q(A0); A0.cell[i].fixed = True; T(A0) [; fixed = False; T(A0)] where cell i is one that the later call would cut
    (not fixed, occupied, shallower than the deepest cell).  'derived' flags the cell through an allocation derived
    from A0 that shares the Rectangle object."""
    qk = QKINDS[idx % len(QKINDS)]
    tk = TKINDS[(idx // len(QKINDS)) % len(TKINDS)]
    while True:
        kind, cells = gen_alloc(rng)
        if not 2 <= len(cells) <= 8 or not _valid_areas(cells):
            continue
        for c in cells:
            c["depth"] = rng.choice([0, 0, 1, 2])
        md = max(c["depth"] for c in cells)
        good = [i for i, c in enumerate(cells) if not c["rect"]["fixed"] and c["alloc"] and c["depth"] < md
                and max(q for _, q in c["alloc"]) > 0]
        if good:
            break
    i = rng.choice(good)
    tmax = max(q for _, q in cells[i]["alloc"])
    t = rng.choice([F(1), tmax])
    lv = rng.choice([1, 1, 2])
    first = {"mbr": [["mbr", 0, t]], "refine": [["apply", 0, ["refine", t, lv]]],
             "uniform": [["apply", 0, ["uniform"]]], "griddify": [["apply", 0, ["griddify"]]],
             "maxdepth": [["maxdepth", 0]], "numrect": [["numrect", 0]], "areas": [["areas", 0]],
             "copy": [["copy", 0]],
             "derived": [["apply", 0, ["refine", F(0), 1]]]}[qk]
    later = {"refine": ["apply", 0, ["refine", t, lv]], "uniform": ["apply", 0, ["uniform"]],
             "griddify": ["apply", 0, ["griddify"]], "mbr": ["mbr", 0, t]}[tk]
    via = 1 if qk in ("copy", "derived") else 0      # the allocation through which the flag is set
    j = i
    if qk == "derived":      # refine(0) cuts only occupied cells whose ratios are all 0: cell i is handed over as it is
        j = i + sum(1 for c in cells[:i] if splittable(c, F(0)))
    hops = first + [["setfixed", via, j, True], list(later)]
    if tk == "mbr":
        hops.append(["apply", 0, ["refine", t, lv]])
    if rng.random() < 0.5:
        hops += [["setfixed", via, j, False], list(later)]
        if tk == "mbr":
            hops.append(["apply", 0, ["refine", t, lv]])
    return {"kind": f"tmpl-{qk}-{tk}", "cells": cells, "hops": hops,
            "eps": F(1, 2 ** 20), "aeps": rng.choice([F(1, 2 ** 10), F(0), F(1, 4)])}


def hist_dist_key(c):
    """layout / template kind (the variations - input form, names, depths - are counted in extra['variants'])"""
    return "hist/" + c["kind"].split("/")[0]


def variant_counts(cases):
    out = {}
    for c in cases:
        if is_hist(c):
            tags = c["kind"].split("/")[1].split("+") if "/" in c["kind"] else ["plain"]
            for t in tags + ["form:" + c.get("form", "objects")]:
                out[t] = out.get(t, 0) + 1
            for h in c["hops"]:
                k = "step:" + (h[2][0] if h[0] == "apply" else h[0])
                out[k] = out.get(k, 0) + 1
    return out


def hist_shrink(case):
    cells, hops = case["cells"], case["hops"]
    for i in range(len(hops) - 1, -1, -1):
        yield dict(case, hops=hops[:i] + hops[i + 1:])
    for i in range(len(cells)):
        if len(cells) > 1:
            yield dict(case, cells=cells[:i] + cells[i + 1:])
    for i, h in enumerate(hops):
        if h[0] == "apply" and h[2][0] == "refine" and h[2][2] > 1:
            yield dict(case, hops=hops[:i] + [["apply", h[1], ["refine", h[2][1], 1]]] + hops[i + 1:])
        if h[0] == "setfixed" and h[2] >= len(cells):
            yield dict(case, hops=hops[:i] + [["setfixed", h[1], h[2] % max(len(cells), 1), h[3]]] + hops[i + 1:])
    for i, c in enumerate(cells):
        if c["depth"] > 0:
            yield dict(case, cells=cells[:i] + [dict(c, depth=c["depth"] - 1)] + cells[i + 1:])
        if len(c["alloc"]) > 1:
            yield dict(case, cells=cells[:i] + [dict(c, alloc=c["alloc"][:1])] + cells[i + 1:])


def is_hist(case):
    return "hops" in case


def run_any(case):
    return run_hist_impl(case) if is_hist(case) else run_impl(case)


def any_to_coq(case, obs):
    return hist_to_coq(case, obs) if is_hist(case) else to_coq(case, obs)


def any_shrink(case):
    return hist_shrink(case) if is_hist(case) else shrink(case)


def any_dist_key(c):
    return hist_dist_key(c) if is_hist(c) else dist_key(c)
