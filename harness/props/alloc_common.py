"""Shared generator / implementation runner / model comparison for the allocation
refinement properties C02 and C12 (frame/allocation/allocation.py)."""
from fractions import Fraction as F

from harness import core, fr
from harness.core import gq, gbool, gstr, glist, gopt, gnat

HEADER = """From FrameModel Require Import Num.QcTac Geometry.Rect Cases.Cmp Alloc.Alloc Cases.CmpAlloc.
Open Scope Qc_scope."""

RATIO_F = 0.01          # the sliver ratio griddify passes to x_cuttable / y_cuttable
MODS = ["M1", "M2", "M3", "a_b", "Z9"]
RATIOS = [F(0), F(1, 8), F(1, 4), F(1, 2), F(3, 4), F(1), F(5, 16), F(15, 16)]


def guillotine(rng, box, n):
    """Split a box into at most n cells with random dyadic guillotine cuts."""
    boxes = [box]
    for _ in range(n - 1):
        i = rng.randrange(len(boxes))
        x0, y0, x1, y1 = boxes[i]
        if rng.random() < 0.5 and x1 - x0 >= F(1, 2):
            k = rng.randrange(1, int((x1 - x0) * 4))
            c = x0 + F(k, 4)
            boxes[i:i + 1] = [(x0, y0, c, y1), (c, y0, x1, y1)]
        elif y1 - y0 >= F(1, 2):
            k = rng.randrange(1, int((y1 - y0) * 4))
            c = y0 + F(k, 4)
            boxes[i:i + 1] = [(x0, y0, x1, c), (x0, c, x1, y1)]
    return boxes


def gen_alloc(rng):
    kind = rng.choice(["guillotine", "guillotine", "guillotine", "sparse", "grid", "sliver", "single"])
    x0 = F(rng.randrange(0, 8), 2)
    y0 = F(rng.randrange(0, 8), 2)
    W = F(rng.randrange(2, 24), 2)
    H = F(rng.randrange(2, 24), 2)
    if kind == "sliver":
        W, H = (F(rng.choice([10, 20, 40])), F(rng.choice([100, 50, 25]))) if rng.random() < 0.5 else \
               (F(rng.choice([100, 50])), F(rng.choice([10, 5])))
    box = (x0, y0, x0 + W, y0 + H)
    if kind == "single":
        boxes = [box]
    elif kind == "grid":
        nx, ny = rng.randrange(1, 4), rng.randrange(1, 4)
        boxes = [(x0 + W * i / nx, y0 + H * j / ny, x0 + W * (i + 1) / nx, y0 + H * (j + 1) / ny)
                 for j in range(ny) for i in range(nx)]
        if any(F(b[k]).denominator & (F(b[k]).denominator - 1) for b in boxes for k in range(4)):
            boxes = guillotine(rng, box, nx * ny)
    else:
        boxes = guillotine(rng, box, rng.randrange(2, 9))
    if kind == "sliver":
        # a boundary very close to another cell's edge: the 1% rule matters
        b = boxes[0]
        d = rng.choice([F(1, 4), F(1, 2), F(1, 8), F(1)])
        boxes = [(x0, y0, x0 + W, y0 + H / 2), (x0, y0 + H / 2, x0 + d, y0 + H), (x0 + d, y0 + H / 2, x0 + W, y0 + H)] \
            if rng.random() < 0.5 else \
            [(x0, y0, x0 + W / 2, y0 + H), (x0 + W / 2, y0, x0 + W, y0 + d), (x0 + W / 2, y0 + d, x0 + W, y0 + H)]
    if kind == "sparse" and len(boxes) > 2:
        boxes = [b for b in boxes if rng.random() < 0.7] or boxes[:1]
    rng.shuffle(boxes)
    nmods = rng.randrange(1, 5)
    fixed_mod = "FX"
    cells = []
    for b in boxes:
        r = {"cx": (b[0] + b[2]) / 2, "cy": (b[1] + b[3]) / 2, "w": b[2] - b[0], "h": b[3] - b[1],
             "fixed": False, "hard": False, "region": rng.choice(["_", "_", "_", "dsp"]), "loc": "NOPOLY"}
        style = rng.choice(["empty", "single", "multi", "multi", "full", "fixed"])
        al = []
        if style == "single":
            al = [[rng.choice(MODS[:nmods]), rng.choice(RATIOS)]]
        elif style == "multi":
            names = rng.sample(MODS[:nmods], rng.randrange(1, nmods + 1))
            al = [[m, rng.choice(RATIOS)] for m in names]
        elif style == "full":
            al = [[rng.choice(MODS[:nmods]), F(1)]]
        elif style == "fixed":
            r["fixed"] = True
            r["hard"] = True
            al = [[fixed_mod, F(1)]]
        cells.append({"rect": r, "alloc": al, "depth": rng.choice([0, 0, 0, 1, 2, 3])})
    return kind, cells


def to_decimal(cells, rng):
    """Rescale a dyadic layout to multiples of 0.1 / 0.01 (not representable in binary64)."""
    k = rng.choice([F(1, 10), F(3, 10), F(7, 100), F(11, 10)])
    out = []
    for c in cells:
        r = dict(c["rect"])
        for f in ("cx", "cy", "w", "h"):
            r[f] = r[f] * k
        al = [[m, (q * 16).__floor__() / F(16) if False else q] for m, q in c["alloc"]]
        al = [[m, rng.choice([F(1, 10), F(3, 10), F(1, 2), F(7, 10), F(1), F(0)]) if q not in (0, 1) else q] for m, q in al]
        out.append({"rect": r, "alloc": al, "depth": c["depth"]})
    return out


def gen_case(rng):
    kind, cells = gen_alloc(rng)
    if rng.random() < 0.2:
        cells = to_decimal(cells, rng)
        ops = []
        for _ in range(rng.choice([1, 2, 3])):
            o = rng.choice(["refine", "refine", "uniform", "griddify"])
            ops.append(["refine", rng.choice([F(1, 10), F(3, 10), F(1, 2), F(7, 10), F(1)]), rng.choice([1, 2, 3])] if o == "refine" else [o])
        return {"kind": "decimal-" + kind, "stream": "decimal", "cells": cells, "ops": ops,
                "ths": [F(0), F(3, 10), F(1, 2), F(7, 10), F(1)], "eps": None, "aeps": None}
    ops = []
    for _ in range(rng.choice([1, 1, 1, 2, 3, 4])):
        o = rng.choice(["refine", "refine", "uniform", "griddify"])
        if o == "refine":
            ratios = [a[1] for c in cells for a in c["alloc"]] or [F(1, 2)]
            t = rng.choice([F(0), F(1, 4), F(1, 2), F(15, 16), F(1), rng.choice(ratios), F(rng.randrange(0, 17), 16)])
            ops.append(["refine", t, rng.choice([1, 1, 1, 2, 2, 3, 4, 0])])
        else:
            ops.append([o])
    ths = [F(0), F(1, 4), F(1, 2), F(1), F(rng.randrange(0, 17), 16)]
    return {"kind": kind, "cells": cells, "ops": ops, "ths": ths,
            "eps": F(1, 2 ** 20), "aeps": rng.choice([F(1, 2 ** 10), F(0), F(1, 4)])}


# ---------------- implementation ----------------
def build_alloc(cells):
    from frame.allocation.allocation import Allocation
    desc = []
    for c in cells:
        desc.append((fr.mk_rect(c["rect"]), {m: float(q) for m, q in c["alloc"]}, c["depth"]))
    return Allocation(desc)


def alloc_obs(a):
    cells = [{"rect": fr.rect_obs(x.rect), "alloc": [[m, q] for m, q in x.alloc.items()], "depth": x.depth}
             for x in a.allocations]
    mods = []
    for x in a.allocations:
        for m in x.alloc:
            if m not in mods:
                mods.append(m)
    return {"cells": cells, "areas": {m: a.area(m) for m in mods},
            "centers": {m: [a.center(m).x, a.center(m).y] for m in mods}}


def run_impl(case):
    from frame.geometry.geometry import Rectangle
    Rectangle.undefine_epsilon()
    if case.get("stream") != "decimal":
        Rectangle.set_epsilon(float(case["eps"]), float(case["aeps"]))
    try:
        try:
            a = build_alloc(case["cells"])
        except (AssertionError, ZeroDivisionError) as e:
            return {"init": None, "err": type(e).__name__}
        obs = {"init": alloc_obs(a), "mbr": [bool(a.must_be_refined(float(t))) for t in case["ths"]], "steps": []}
        # does refining at t change the allocation?  (C12: must_be_refined <-> refine changes it)
        ch = []
        for t in case["ths"]:
            try:
                if len(a.allocations) > 100:
                    raise AssertionError("too large")
                b = a.refine(float(t))
                ch.append(len(b.allocations) != len(a.allocations) or alloc_obs(b)["cells"] != obs["init"]["cells"])
            except (AssertionError, ZeroDivisionError) as e:
                ch.append(type(e).__name__)
        obs["refine_changes"] = ch
        for o in case["ops"]:
            md = max(x.depth for x in a.allocations)
            if o[0] == "refine" and len(a.allocations) * 2 ** o[2] > 200 or len(a.allocations) > 150 or \
                    o[0] == "uniform" and sum(2 ** (md - x.depth) for x in a.allocations) > 200:
                break       # keep the quadratic overlap check of the constructor affordable
            before = alloc_obs(a)
            try:
                if o[0] == "refine":
                    b = a.refine(float(o[1]), o[2])
                elif o[0] == "uniform":
                    b = a.uniform_refinement_depth()
                else:
                    b = a.griddify()
            except (AssertionError, ZeroDivisionError, IndexError) as e:
                obs["steps"].append({"before": before, "after": None, "err": type(e).__name__})
                break
            after = alloc_obs(b)
            obs["steps"].append({"before": before, "after": after,
                                 "mbr_after": [bool(b.must_be_refined(float(t))) for t in case["ths"]],
                                 "src_unchanged": alloc_obs(a) == before})
            a = b
        return obs
    finally:
        Rectangle.undefine_epsilon()


# ---------------- Gallina ----------------
def gcell(c):
    al = glist([f"({gstr(m)}, {gq(q)})" for m, q in c["alloc"]])
    return f"(mkCell {fr.grect(c['rect'])} {al} {gnat(c['depth'])})"


def gcells(cs):
    return glist([gcell(c) for c in cs])


def gop(o):
    if o[0] == "refine":
        return f"(OpRefine {gq(o[1])} {gnat(o[2])})"
    return "OpUniform" if o[0] == "uniform" else "OpGriddify"


def to_coq(case, obs):
    if case.get("stream") == "decimal":
        return "true"          # decimal inputs: direct oracle only (the model is exact arithmetic)
    aeps, eps = gq(case["aeps"]), gq(case["eps"])
    q = gq(RATIO_F)
    C0 = gcells(case["cells"])
    if obs["init"] is None:
        return f"match mk_allocation {aeps} {C0} with None => true | Some _ => false end"
    parts = [f"opt_eqb cells_eqb (mk_allocation {aeps} {C0}) (Some {gcells(obs['init']['cells'])})"]

    def areas(state, cells_term):
        out = []
        scale = gq(max([abs(core.frac(c["rect"]["cx"])) + abs(core.frac(c["rect"]["cy"])) +
                        core.frac(c["rect"]["w"]) + core.frac(c["rect"]["h"]) for c in state["cells"]] + [1]))
        for m, v in state["areas"].items():
            out.append(f"Qceqb (area_of {gstr(m)} {cells_term}) {gq(v)}")
            cxy = state["centers"][m]
            out.append(f"center_close 8 {scale} (center_of {gstr(m)} {cells_term}) {gq(cxy[0])} {gq(cxy[1])}")
        return out

    parts += areas(obs["init"], C0)
    for t, b in zip(case["ths"], obs["mbr"]):
        parts.append(f"Bool.eqb (must_be_refined {gq(t)} {C0}) {gbool(b)}")
    for o, st in zip(case["ops"], obs["steps"]):
        B = gcells(st["before"]["cells"])
        call = f"run_op {eps} {aeps} {q} {gop(o)} {B}"
        if st["after"] is None:
            parts.append(f"match {call} with None => true | Some _ => false end")
        else:
            A = gcells(st["after"]["cells"])
            parts.append(f"opt_eqb cells_eqb ({call}) (Some {A})")
            parts += areas(st["after"], A)
            for t, b in zip(case["ths"], st["mbr_after"]):
                parts.append(f"Bool.eqb (must_be_refined {gq(t)} {A}) {gbool(b)}")
    return " && ".join(f"({p})" for p in parts)


# ---------------- helpers for the oracles ----------------
def cbox(c):
    r = c["rect"]
    cx, cy, w, h = (core.frac(r[k]) for k in ("cx", "cy", "w", "h"))
    return cx - w / 2, cy - h / 2, cx + w / 2, cy + h / 2


def carea(c):
    return core.frac(c["rect"]["w"]) * core.frac(c["rect"]["h"])


def ovl(a, b):
    w = min(a[2], b[2]) - max(a[0], b[0])
    h = min(a[3], b[3]) - max(a[1], b[1])
    return w * h if w > 0 and h > 0 else F(0)


def ratio(c, m):
    for k, q in c["alloc"]:
        if k == m:
            return core.frac(q)
    return F(0)


def mod_area(cells, m):
    return sum(ratio(c, m) * carea(c) for c in cells)


def mod_center(cells, m):
    a = mod_area(cells, m)
    if a == 0:
        return None
    return (sum(ratio(c, m) * carea(c) * core.frac(c["rect"]["cx"]) for c in cells) / a,
            sum(ratio(c, m) * carea(c) * core.frac(c["rect"]["cy"]) for c in cells) / a)


def children_of(parent, cells):
    pb = cbox(parent)
    return [c for c in cells if ovl(pb, cbox(c)) > 0]


def splittable(c, t):
    return (not c["rect"]["fixed"]) and len(c["alloc"]) > 0 and all(core.frac(q) <= t for _, q in c["alloc"])


def shrink(case):
    cells = case["cells"]
    if len(case["ops"]) > 1:
        yield dict(case, ops=case["ops"][:-1])
        yield dict(case, ops=case["ops"][1:])
    for i in range(len(cells)):
        if len(cells) > 1:
            yield dict(case, cells=cells[:i] + cells[i + 1:])
    for i, c in enumerate(cells):
        if c["depth"] > 0:
            yield dict(case, cells=cells[:i] + [dict(c, depth=0)] + cells[i + 1:])
        if len(c["alloc"]) > 1:
            yield dict(case, cells=cells[:i] + [dict(c, alloc=c["alloc"][:1])] + cells[i + 1:])


def dist_key(c):
    return c["kind"] + "/" + "+".join(o[0] for o in c["ops"])


def nontrivial(c):
    return len(c["cells"]) >= 2
