"""C18 - Rectangle operations agree with plane geometry.

Correspondence: every modelled Rectangle method on generated rectangles / pairs /
points / cuts / grids; the implementation's float results (exact dyadic inputs,
so exact) are compared with the Gallina model by vm_compute.  Direct oracle:
plane geometry in exact Fractions on the implementation's outputs."""
from fractions import Fraction as F

from harness import core
from harness.core import gq, gbool, gstr, glist, gopt, gnat
from harness import fr  # FRAME adapters

HEADER = """From FrameModel Require Import Num.QcTac Geometry.Rect Cases.Cmp.
Open Scope Qc_scope."""

ASSUMPTIONS = [
    "binary64 arithmetic of the implementation is exact on the generated dyadic inputs (checked by recomputation with Fractions in the oracle); rounded quotients are compared within k*2^-53 relative",
    "split_horizontal/vertical default: a negative cut coordinate means 'halve' (modelled as written)",
]

OPS = ["ov", "overlap", "inside", "touches", "inter", "eq", "pt", "split_h", "split_v",
       "split", "xcut", "ycut", "grid", "ar", "bbox"]


# ---------------- generators ----------------
def gen_box(rng, lattice=True):
    if lattice:
        den = rng.choice([1, 2, 4])
        pts = sorted(rng.sample(range(0, 13), 2))
        x0, x1 = F(pts[0], den), F(pts[1], den)
        pts = sorted(rng.sample(range(0, 13), 2))
        y0, y1 = F(pts[0], den), F(pts[1], den)
    else:
        x0 = F(rng.randrange(0, 4000), 8)
        x1 = x0 + F(rng.randrange(1, 2000), 8)
        y0 = F(rng.randrange(0, 4000), 8)
        y1 = y0 + F(rng.randrange(1, 2000), 8)
    return x0, y0, x1, y1


def gen_rect(rng, lattice=True, region=None):
    x0, y0, x1, y1 = gen_box(rng, lattice)
    return {"cx": (x0 + x1) / 2, "cy": (y0 + y1) / 2, "w": x1 - x0, "h": y1 - y0,
            "fixed": rng.random() < 0.3, "hard": rng.random() < 0.3,
            "region": region if region is not None else rng.choice(["_", "_", "_", "dsp", "bram", "#"]),
            "loc": rng.choice(["NOPOLY", "NOPOLY", "TRUNK", "NORTH", "EAST"])}


def related(rng, r):
    """A second rectangle in a chosen relative configuration to r."""
    kind = rng.choice(["lattice", "identical", "edge", "corner", "nested", "crossing", "sliver", "far"])
    x0, x1 = r["cx"] - r["w"] / 2, r["cx"] + r["w"] / 2
    y0, y1 = r["cy"] - r["h"] / 2, r["cy"] + r["h"] / 2
    d = F(rng.randrange(1, 9), 4)
    e = F(rng.randrange(1, 9), 4)
    tiny = F(1, rng.choice([64, 256, 1024]))
    if kind == "lattice":
        s = gen_rect(rng)
        return kind, s
    if kind == "identical":
        bx = (x0, y0, x1, y1)
    elif kind == "edge":
        bx = rng.choice([(x1, y0, x1 + d, y1), (x0 - d, y0 - e, x0, y1), (x0, y1, x1 + d, y1 + e),
                         (x0 + r["w"] / 4, y0 - e, x1 - r["w"] / 4, y0)])
    elif kind == "corner":
        bx = rng.choice([(x1, y1, x1 + d, y1 + e), (x0 - d, y0 - e, x0, y0), (x1, y0 - e, x1 + d, y0),
                         (x0 - d, y1, x0, y1 + e)])
    elif kind == "nested":
        bx = (x0 + r["w"] / 4, y0 + r["h"] / 4, x1 - r["w"] / 4, y1 - r["h"] / 8)
        if rng.random() < 0.5:
            bx = (x0 - d, y0 - e, x1 + d, y1 + e)
        if rng.random() < 0.3:
            bx = (x0, y0 + r["h"] / 4, x1 - r["w"] / 2, y1)
    elif kind == "crossing":
        bx = (x0 - d, y0 + r["h"] / 4, x1 + d, y1 - r["h"] / 4)
        if rng.random() < 0.5:
            bx = (x0 + r["w"] / 2, y0 + r["h"] / 2, x1 + d, y1 + e)
    elif kind == "sliver":
        sgn = rng.choice([-1, 1])
        bx = rng.choice([(x1 + sgn * tiny, y0, x1 + d, y1), (x0, y1 + sgn * tiny, x1, y1 + e),
                         (x1 + sgn * tiny, y1 + sgn * tiny, x1 + d, y1 + e)])
    else:
        bx = (x1 + 10 + d, y1 + 20, x1 + 11 + 2 * d, y1 + 21 + e)
    a0, b0, a1, b1 = bx
    s = gen_rect(rng)
    s.update({"cx": (a0 + a1) / 2, "cy": (b0 + b1) / 2, "w": a1 - a0, "h": b1 - b0})
    if rng.random() < 0.7:
        s["region"] = r["region"]
    return kind, s


def gen_case(rng):
    op = rng.choice(OPS)
    r = gen_rect(rng, lattice=rng.random() < 0.8)
    case = {"op": op, "r": r}
    x0, x1 = r["cx"] - r["w"] / 2, r["cx"] + r["w"] / 2
    y0, y1 = r["cy"] - r["h"] / 2, r["cy"] + r["h"] / 2
    if op in ("ov", "overlap", "inside", "touches", "inter", "eq"):
        kind, s = related(rng, r)
        case["s"], case["kind"] = s, kind
        case["eps"] = rng.choice([F(0), F(1, 1024), F(1, 64), F(1, 4), F(1)])
        case["aeps"] = rng.choice([F(0), F(1, 1024), F(1, 16), F(1, 2), F(3)])
        if rng.random() < 0.5:
            case["r"], case["s"] = case["s"], case["r"]
    elif op == "pt":
        case["px"] = rng.choice([x0, x1, r["cx"], x0 - F(1, 8), x1 + F(1, 8), x0 + F(1, 64), F(rng.randrange(0, 100), 8)])
        case["py"] = rng.choice([y0, y1, r["cy"], y0 - F(1, 8), y1 + F(1, 8), y1 - F(1, 64), F(rng.randrange(0, 100), 8)])
    elif op in ("split_h", "xcut"):
        case["x"] = rng.choice([x0, x1, r["cx"], x0 + r["w"] / 4, x1 - r["w"] / 8, x0 - F(1, 4), x1 + F(1, 2),
                                F(-1), F(-3, 2), F(0), x0 + r["w"] / 128, x0 + r["h"] / 128, x1 - r["h"] / 128,
                                x0 + F(1, 64), x1 - F(1, 64)])
        case["ratio"] = rng.choice([F(1, 128), F(1, 64), F(1, 4), F(0), F(1, 2)])
    elif op in ("split_v", "ycut"):
        case["x"] = rng.choice([y0, y1, r["cy"], y0 + r["h"] / 4, y1 - r["h"] / 8, y0 - F(1, 4), y1 + F(1, 2),
                                F(-1), F(-3, 2), F(0), y0 + r["h"] / 128, y0 + r["w"] / 128, y1 - r["w"] / 128,
                                y0 + F(1, 64), y1 - F(1, 64)])
        case["ratio"] = rng.choice([F(1, 128), F(1, 64), F(1, 4), F(0), F(1, 2)])
    elif op == "grid":
        case["nrows"] = rng.choice([0, 1, 2, 3, 4, 5, 7, 8])
        case["ncols"] = rng.choice([0, 1, 2, 3, 4, 6, 7, 8])
    return case


def nontrivial(case):
    return case["op"] not in ("bbox",) or True


# ---------------- implementation ----------------
def run_impl(case):
    from frame.geometry.geometry import Rectangle, Point
    op = case["op"]
    r = fr.mk_rect(case["r"])
    Rectangle.undefine_epsilon()
    try:
        if op in ("ov", "overlap", "inside", "touches", "inter", "eq"):
            s = fr.mk_rect(case["s"])
            Rectangle.set_epsilon(float(case["eps"]), float(case["aeps"]))
            if op == "ov":
                return {"v": r.area_overlap(s), "v_sym": s.area_overlap(r)}
            if op == "overlap":
                return {"v": r.overlap(s), "v_sym": s.overlap(r)}
            if op == "inside":
                return {"v": r.is_inside(s)}
            if op == "touches":
                return {"v": r.touches(s), "v_sym": s.touches(r)}
            if op == "eq":
                return {"v": r == s}
            t = r * s
            u = s * r
            return {"v": None if t is None else fr.rect_obs(t), "v_sym": None if u is None else fr.rect_obs(u)}
        if op == "pt":
            return {"v": r.point_inside(Point(float(case["px"]), float(case["py"])))}
        if op in ("split_h", "split_v", "split"):
            try:
                if op == "split_h":
                    a, b = r.split_horizontal(float(case["x"]))
                elif op == "split_v":
                    a, b = r.split_vertical(float(case["x"]))
                else:
                    a, b = r.split()
            except AssertionError:
                return {"v": None}
            return {"v": [fr.rect_obs(a), fr.rect_obs(b)], "parent_after": fr.rect_obs(r)}
        if op == "xcut":
            return {"v": r.x_cuttable(float(case["x"]), float(case["ratio"]))}
        if op == "ycut":
            return {"v": r.y_cuttable(float(case["x"]), float(case["ratio"]))}
        if op == "grid":
            try:
                g = r.rectangle_grid(case["nrows"], case["ncols"])
            except AssertionError:
                return {"v": None}
            return {"v": [fr.rect_obs(x) for x in g]}
        if op == "ar":
            return {"v": r.aspect_ratio}
        if op == "bbox":
            bb = r.bounding_box
            d = r.duplicate()
            return {"v": [bb.ll.x, bb.ll.y, bb.ur.x, bb.ur.y, r.area], "dup": fr.rect_obs(d)}
    finally:
        Rectangle.undefine_epsilon()
    raise ValueError(op)


# ---------------- Gallina ----------------
def pow2(n):
    return n > 0 and n & (n - 1) == 0


def to_coq(case, obs):
    op = case["op"]
    R = fr.grect(case["r"])
    v = obs["v"]
    if op in ("ov", "overlap", "inside", "touches", "inter", "eq"):
        S = fr.grect(case["s"])
        if op == "ov":
            return f"Qceqb (area_overlap {R} {S}) {gq(v)}"
        if op == "overlap":
            return f"Bool.eqb (overlap {gq(case['aeps'])} {R} {S}) {gbool(v)}"
        if op == "inside":
            return f"Bool.eqb (is_inside {R} {S}) {gbool(v)}"
        if op == "touches":
            return f"Bool.eqb (touches {gq(case['eps'])} {R} {S}) {gbool(v)}"
        if op == "eq":
            return f"Bool.eqb (req {R} {S}) {gbool(v)}"
        return f"opt_eqb rect_eqb (inter {R} {S}) {gopt(None if v is None else fr.grect(v))}"
    if op == "pt":
        return f"Bool.eqb (point_inside {R} {gq(case['px'])} {gq(case['py'])}) {gbool(v)}"
    if op in ("split_h", "split_v", "split"):
        o = gopt(None if v is None else f"({fr.grect(v[0])}, {fr.grect(v[1])})")
        call = {"split_h": f"split_horizontal {R} {gq(case.get('x', 0))}",
                "split_v": f"split_vertical {R} {gq(case.get('x', 0))}", "split": f"split {R}"}[op]
        return f"opt_eqb (pair_eqb rect_eqb rect_eqb) ({call}) {o}"
    if op == "xcut":
        return f"Bool.eqb (x_cuttable {R} {gq(case['x'])} {gq(case['ratio'])}) {gbool(v)}"
    if op == "ycut":
        return f"Bool.eqb (y_cuttable {R} {gq(case['x'])} {gq(case['ratio'])}) {gbool(v)}"
    if op == "grid":
        o = gopt(None if v is None else glist([fr.grect(x) for x in v]))
        call = f"rectangle_grid {R} {gnat(case['nrows'])} {gnat(case['ncols'])}"
        if pow2(case["nrows"]) and pow2(case["ncols"]):
            return f"opt_eqb (list_eqb rect_eqb) ({call}) {o}"
        scale = gq(abs(case["r"]["cx"]) + abs(case["r"]["cy"]) + case["r"]["w"] + case["r"]["h"])
        return f"opt_eqb (list_eqb (rect_close 16 {scale})) ({call}) {o}"
    if op == "ar":
        return f"qclose_rel 4 (aspect_ratio {R}) {gq(v)}"
    if op == "bbox":
        return (f"Qceqb (xmin {R}) {gq(v[0])} && Qceqb (ymin {R}) {gq(v[1])} && Qceqb (xmax {R}) {gq(v[2])} && "
                f"Qceqb (ymax {R}) {gq(v[3])} && Qceqb (area {R}) {gq(v[4])} && rect_eqb (duplicate {R}) {fr.grect(obs['dup'])}")
    raise ValueError(op)


# ---------------- direct oracle (plane geometry with Fractions) ----------------
def box(r):
    cx, cy, w, h = (core.frac(r[k]) for k in ("cx", "cy", "w", "h"))
    return cx - w / 2, cy - h / 2, cx + w / 2, cy + h / 2


def common_area(r, s):
    a = box(r)
    b = box(s)
    w = min(a[2], b[2]) - max(a[0], b[0])
    h = min(a[3], b[3]) - max(a[1], b[1])
    return (w * h if w > 0 and h > 0 else F(0)), (max(a[0], b[0]), max(a[1], b[1]), min(a[2], b[2]), min(a[3], b[3]))


def attrs_ok(parent, child):
    return all(child[k] == parent[k] for k in ("fixed", "hard", "region"))


def tiles_exact(pieces, parent, tol=F(0)):
    pb = box(parent)
    for p in pieces:
        b = box(p)
        if not (b[0] >= pb[0] - tol and b[1] >= pb[1] - tol and b[2] <= pb[2] + tol and b[3] <= pb[3] + tol):
            return "piece outside its parent"
        if not (core.frac(p["w"]) > 0 and core.frac(p["h"]) > 0):
            return "empty piece"
    for i in range(len(pieces)):
        for j in range(i + 1, len(pieces)):
            if common_area(pieces[i], pieces[j])[0] > tol * (pb[2] - pb[0] + pb[3] - pb[1]):
                return "pieces overlap"
    tot = sum(core.frac(p["w"]) * core.frac(p["h"]) for p in pieces)
    if abs(tot - core.frac(parent["w"]) * core.frac(parent["h"])) > tol * (pb[2] - pb[0] + pb[3] - pb[1]) * 4:
        return "areas do not add up"
    return None


def oracle(case, obs):
    """None if the property holds on this case, else a description."""
    op = case["op"]
    r = case["r"]
    v = obs["v"]
    if op in ("ov", "overlap", "inside", "touches", "inter", "eq"):
        s = case["s"]
        ca, cb = common_area(r, s)
        if op == "ov":
            if core.frac(v) != ca:
                return f"area_overlap={v} but the common region has area {ca}"
            if obs["v_sym"] != v:
                return "area_overlap is not symmetric"
        if op == "overlap":
            if v != (ca > case["aeps"]) or obs["v_sym"] != v:
                return "overlap() disagrees with common area > area epsilon"
        if op == "inside":
            a, b = box(r), box(s)
            if v != (a[0] >= b[0] and a[1] >= b[1] and a[2] <= b[2] and a[3] <= b[3]):
                return "is_inside disagrees with coordinate comparison"
        if op == "touches":
            a, b = box(r), box(s)
            gapx = max(a[0] - b[2], b[0] - a[2], 0)
            gapy = max(a[1] - b[3], b[1] - a[3], 0)
            if v != (gapx <= case["eps"] and gapy <= case["eps"]) or obs["v_sym"] != v:
                return "touches disagrees with the gap between the boxes"
        if op == "inter":
            exists = ca > 0 and r["region"] == s["region"]
            if (v is not None) != exists:
                return "intersection exists iff common area positive and same region: violated"
            if (obs["v_sym"] is not None) != exists:
                return "intersection existence not symmetric"
            if v is not None:
                if box(v) != cb:
                    return "intersection is not the common region"
                if box(obs["v_sym"]) != cb:
                    return "intersection not symmetric"
                if not attrs_ok(r, v) or not attrs_ok(s, obs["v_sym"]):
                    return "intersection does not inherit the attributes of its left operand"
        if op == "eq":
            if v != (all(core.frac(r[k]) == core.frac(s[k]) for k in ("cx", "cy", "w", "h")) and r["region"] == s["region"]):
                return "== disagrees with centre/shape/region equality"
        return None
    if op == "pt":
        a = box(r)
        if v != (a[0] <= case["px"] <= a[2] and a[1] <= case["py"] <= a[3]):
            return "point_inside disagrees with coordinate comparison"
        return None
    if op in ("split_h", "split_v", "split"):
        a = box(r)
        if op == "split":
            cut = None
            must = True
        else:
            x = case["x"]
            lo, hi = (a[0], a[2]) if op == "split_h" else (a[1], a[3])
            cut = x if x >= 0 else (lo + hi) / 2
            must = lo < cut < hi
        if (v is not None) != must:
            return "split accepted/rejected wrongly (cut must be strictly inside)"
        if v is None:
            return None
        t = tiles_exact(v, r)
        if t:
            return "split: " + t
        if not all(attrs_ok(r, p) for p in v):
            return "split pieces do not inherit attributes"
        if obs.get("parent_after") and any(obs["parent_after"][k] != (float(r[k]) if k in ("cx", "cy", "w", "h") else r[k])
                                          for k in ("cx", "cy", "w", "h", "fixed", "hard", "region")):
            return "split altered the rectangle it was applied to"
        b1, b2 = box(v[0]), box(v[1])
        if op == "split_h" and not (b1[2] == cut == b2[0]):
            return "split_horizontal pieces do not meet at the cut"
        if op == "split_v" and not (b1[3] == cut == b2[1]):
            return "split_vertical pieces do not meet at the cut"
        if op == "split":
            okv = b1[3] == r["cy"] == b2[1]
            okh = b1[2] == r["cx"] == b2[0]
            if r["h"] > r["w"] and not okv or r["h"] < r["w"] and not okh or not (okv or okh):
                return "split does not halve the longer side"
        return None
    if op in ("xcut", "ycut"):
        a = box(r)
        x, q = case["x"], case["ratio"]
        lo, hi, other, own = (a[0], a[2], r["h"], r["w"]) if op == "xcut" else (a[1], a[3], r["w"], r["h"])
        inside = lo < x < hi
        if v and not inside:
            return "cuttable at a coordinate not strictly inside"
        if inside and min(x - lo, hi - x) > q * max(other, own) and not v:
            return "not cuttable although neither piece is a sliver"
        return None
    if op == "grid":
        n, m = case["nrows"], case["ncols"]
        if (v is not None) != (n > 0 and m > 0):
            return "grid accepted/rejected wrongly"
        if v is None:
            return None
        if len(v) != n * m:
            return "grid has the wrong number of pieces"
        exact = pow2(n) and pow2(m)
        scale = abs(core.frac(r["cx"])) + abs(core.frac(r["cy"])) + core.frac(r["w"]) + core.frac(r["h"])
        # non power-of-two grids: w/ncols and the cell centres are rounded (a few ulp at the rectangle's magnitude)
        t = tiles_exact(v, r, F(0) if exact else scale * F(64, 2 ** 53))
        if t:
            return "grid: " + t
        if not all(attrs_ok(r, p) for p in v):
            return "grid pieces do not inherit attributes"
        return None
    return None


def failure_key(case, why):
    return f"C18/{case['op']}"


def translation_tie(ctx, out, pid="C18"):
    """Second tie to the source: re-translate the pure Rectangle methods from the repository's current
    geometry.py into Gallina (harness/translate_rect.py, fail-closed) and let Coq prove each generated
    definition equal to the hand-written model function (harness/gen/RectGenOk.v.in)."""
    import shutil
    import subprocess
    from harness import translate_rect as tr
    d = ctx.work / "gen"
    d.mkdir(exist_ok=True)
    res = {"methods": tr.METHODS, "translated": False, "proved_equal": False}
    try:
        text = tr.translate_file(core.REPO / "frame" / "geometry" / "geometry.py")
        (d / "RectGen.v").write_text(text)
        res["translated"] = True
    except Exception as e:  # TranslationError or a syntax error in the source
        res["error"] = f"{type(e).__name__}: {e}"
    if res["translated"]:
        shutil.copy(core.VERIF / "harness" / "gen" / "RectGenOk.v.in", d / "RectGenOk.v")
        log = ""
        ok = True
        for f in ("RectGen.v", "RectGenOk.v"):
            p = subprocess.run(["timeout", "600", "coqc", "-Q", str(core.COQ), "FrameModel", "-R", ".", "", f],
                               cwd=d, stdout=subprocess.PIPE, stderr=subprocess.STDOUT, text=True)
            log += p.stdout
            if p.returncode != 0:
                ok = False
                break
        closed = log.count("Closed under the global context")
        res["proved_equal"] = ok and closed == 3
        if not res["proved_equal"]:
            res["error"] = log[-1500:]
    out.extra["translation_tie"] = res
    if not res["proved_equal"]:
        out.disagreements.append({
            "key": f"{pid}/translation-tie", "explained": False,
            "why": "the Rectangle methods re-translated from the current source are no longer proved equal to the model "
                   "(or could not be translated): " + res.get("error", "")[:1500],
            "case": {"file": "frame/geometry/geometry.py", "lemmas": "harness/gen/RectGenOk.v.in"}})


def run(ctx, out, replay=None):
    translation_tie(ctx, out)
    n = 3000 if ctx.quick() else 60000
    out.rule = ("random Rectangle method calls on lattice/dyadic rectangles; pairs drawn by relative configuration "
                "(identical, edge, corner, nested, crossing, sliver, far); distinct by canonical hash of the case; "
                "non-trivial = every case (each exercises one modelled method with an outcome that depends on the geometry)")
    cases = []
    if replay and "case" in replay:
        cases.append(fr.unjson(replay["case"]))
    for c in fr.load_corpus("C18"):
        cases.append(c)
    while len(cases) < n:
        cases.append(gen_case(ctx.rng))
    fr.run_cases(ctx, out, cases, run_impl, to_coq, oracle, failure_key, HEADER,
                 dist_key=lambda c: c["op"] + ("/" + c["kind"] if "kind" in c else ""))
