"""C18 - Rectangle operations agree with plane geometry.

Correspondence: every modelled Rectangle method on generated rectangles / pairs /
points / cuts / grids; the implementation's float results (exact dyadic inputs,
so exact) are compared with the Gallina model by vm_compute.  Direct oracle:
plane geometry in exact Fractions on the implementation's outputs."""
from fractions import Fraction as F

from harness import core
from harness.core import gq, gbool, gstr, glist, gopt, gnat
from harness import fr  # FRAME adapters

HEADER = """From FrameModel Require Import Num.QcTac Geometry.Rect Cases.Cmp Geometry.RectHist Geometry.RectCoincide.
Open Scope Qc_scope."""

ASSUMPTIONS = [
    "binary64 arithmetic of the implementation is exact on the generated dyadic inputs (checked by recomputation with Fractions in the oracle); rounded quotients are compared within k*2^-53 relative",
    "split_horizontal/vertical default: a negative cut coordinate means 'halve' (modelled as written)",
    "translation tie (second tie, harness/translate_rect.py + harness/gen/RectGenOk.v.in): private helpers of the class are "
    "translated on demand and inlined, the equality proofs case-split every comparison and close the cases by arithmetic, so "
    "behaviour-preserving rewrites still check.  Rule: if the current source uses a construct the translator cannot express "
    "(TranslationError) this is NOT a violation by itself - the evidence records 'translator: skipped (<reason>)', the "
    "correspondence budget of the run is tripled, and a violation is reported only if the correspondence or the oracle fails; "
    "a definition that was translated but is no longer proved equal to the model is reported (after the search for a failing input)",
    "object histories (op 'hist'): a pool of real Rectangle objects; between ALL the compared methods the objects are written "
    "in place (r.center.x = v, r.center.y += d, r.shape.w = v, r.shape.h = v), through the centre / shape setters and through "
    "the fixed / hard / region setters; rectangles returned by split_*, split, __mul__ and rectangle_grid join the pool and are "
    "written as well; after EVERY operation every object is read back and must equal the model's pool (Geometry/RectHist.v), "
    "every method result must equal the model on the current values, and the oracle judges it on the values read back just "
    "before the call.  duplicate() results (which share the Point and Shape objects of their source) and more than one cell of "
    "a grid (the cells share one Shape object) are not taken into the pool",
    "coincidence pairs (kind 'co/<point>/<relation>'): the second rectangle is built from the first by Geometry/RectCoincide.v::coincide "
    "(shared centre / ll / ur / lr / ul corner x same shape / same area other shape / transposed / same width / same height / same "
    "perimeter / same aspect ratio); the correspondence also requires the generated rectangle to equal the model's construction",
    "near-equal region names (kind 'rg/<class>/<how>'): the two names of a pair are valid region names (identifiers or '#') that differ "
    "only in letter case, by a trailing / leading underscore or digit, by one being a prefix of the other, '_' vs '__' vs '#', "
    "look-alike characters, the last of 65 characters; the model compares region names by String.eqb (Geometry/RectCoincide.v: "
    "near_names_distinct, inter_region_differs, req_region_differs), the correspondence also requires near_distinct of the two names",
]

OPS = ["ov", "overlap", "inside", "touches", "inter", "eq", "pt", "split_h", "split_v",
       "split", "xcut", "ycut", "grid", "ar", "bbox"]


# ---------------- generators ----------------
def gen_box(rng, lattice=True):
    if lattice:
        den = rng.choice([1, 2, 4])
        pts = sorted(rng.sample(range(0, 13), 2))
        x0, x1 = F(pts[0], den), F(pts[1], den)
        pts = sorted(rng.sample(range(0, 13), 2))
        y0, y1 = F(pts[0], den), F(pts[1], den)
    else:
        x0 = F(rng.randrange(0, 4000), 8)
        x1 = x0 + F(rng.randrange(1, 2000), 8)
        y0 = F(rng.randrange(0, 4000), 8)
        y1 = y0 + F(rng.randrange(1, 2000), 8)
    return x0, y0, x1, y1


def gen_rect(rng, lattice=True, region=None):
    x0, y0, x1, y1 = gen_box(rng, lattice)
    return {"cx": (x0 + x1) / 2, "cy": (y0 + y1) / 2, "w": x1 - x0, "h": y1 - y0,
            "fixed": rng.random() < 0.3, "hard": rng.random() < 0.3,
            "region": region if region is not None else rng.choice(["_", "_", "_", "dsp", "bram", "#"]),
            "loc": rng.choice(["NOPOLY", "NOPOLY", "TRUNK", "NORTH", "EAST"])}


ANCHORS = ["centre", "ll", "ur", "lr", "ul"]
RELS = ["same", "eqarea", "transposed", "samew", "sameh", "eqperim", "eqaspect"]
GANCHOR = {"centre": "ACentre", "ll": "ALL", "ur": "AUR", "lr": "ALR", "ul": "AUL"}


def dy_ok(v):
    v = F(v)
    return v > 0 and v.denominator & (v.denominator - 1) == 0 and v.denominator <= 2 ** 10 and v < 2 ** 12


def exact_root(a):
    import math
    a = F(a)
    n, d = math.isqrt(a.numerator), math.isqrt(a.denominator)
    return F(n, d) if a > 0 and n * n == a.numerator and d * d == a.denominator else None


def coincide_shape(rng, rel, w, h):
    """the shape (w', h') standing in relation `rel` to (w, h), and the parameter of the relation (Geometry/RectCoincide.v)"""
    w, h = F(w), F(h)
    if rel == "same":
        return w, h, None
    if rel == "transposed":
        return h, w, None
    if rel == "eqarea":                              # (w k, h / k); preferably the square of the same area (4x1 -> 2x2)
        ks = [F(1, 2), F(2), F(1, 4), F(4), F(2, 3), F(3, 2), F(3), F(1, 3), F(3, 4), F(4, 3), F(1, 8), F(8)]
        rng.shuffle(ks)
        s = exact_root(w * h)
        if s is not None and s != w and rng.random() < 0.5:
            ks.insert(0, s / w)
        for k in ks:
            if dy_ok(w * k) and dy_ok(h / k):
                return w * k, h / k, k
        return w * 2, h / 2, F(2)
    if rel in ("samew", "sameh"):
        v = h if rel == "samew" else w
        c = [x for x in (v / 2, v * 2, v + F(1, 4), v * 4, F(rng.randrange(1, 20), 4)) if x != v and dy_ok(x)]
        x = rng.choice(c or [F(25, 4) if v != F(25, 4) else F(27, 4)])
        return (w, x, x) if rel == "samew" else (x, h, x)
    if rel == "eqperim":                             # (w + d, h - d)
        c = [d for d in (F(1, 4), F(-1, 4), F(1, 2), F(-1, 2), F(1), F(-1), h / 2, -w / 2, F(rng.randrange(1, 9), 4),
                         -F(rng.randrange(1, 9), 4)) if dy_ok(w + d) and dy_ok(h - d)]
        d = rng.choice(c or [h / 2])
        return w + d, h - d, d
    if rel == "eqaspect":                            # (w k, h k)
        ks = [k for k in (F(1, 2), F(2), F(1, 4), F(4), F(3), F(3, 2), F(3, 4), F(5, 4)) if dy_ok(w * k) and dy_ok(h * k)]
        k = rng.choice(ks or [F(1, 2)])
        return w * k, h * k, k
    raise ValueError(rel)


def coincide_geom(r, anchor, w, h):
    """centre of the w x h rectangle sharing the point `anchor` with r"""
    x0, x1 = r["cx"] - r["w"] / 2, r["cx"] + r["w"] / 2
    y0, y1 = r["cy"] - r["h"] / 2, r["cy"] + r["h"] / 2
    cx = r["cx"] if anchor == "centre" else x0 + w / 2 if anchor in ("ll", "ul") else x1 - w / 2
    cy = r["cy"] if anchor == "centre" else y0 + h / 2 if anchor in ("ll", "lr") else y1 - h / 2
    return cx, cy


def coincide_rect(rng, r, anchor=None, rel=None):
    """a second rectangle sharing a point with r and a derived quantity with its shape"""
    anchor = anchor or rng.choice(ANCHORS)
    rel = rel or rng.choice(RELS)
    w, h, p = coincide_shape(rng, rel, r["w"], r["h"])
    cx, cy = coincide_geom(r, anchor, w, h)
    s = gen_rect(rng)
    s.update({"cx": cx, "cy": cy, "w": w, "h": h})
    if rng.random() < 0.7:
        s["region"] = r["region"]
    return s, {"a": anchor, "rel": rel, "p": p, "from": "r"}


def gshaperel(co):
    rel, p = co["rel"], co["p"]
    return {"same": "SSame", "transposed": "STransposed"}.get(rel) or \
        "(%s %s)" % ({"eqarea": "SEqArea", "samew": "SSameW", "sameh": "SSameH", "eqperim": "SEqPerim",
                      "eqaspect": "SEqAspect"}[rel], gq(p))


def gen_coincide(rng, idx):
    """the systematic stream: every (shared point) x (shape relation) x (pair method), in turn"""
    import itertools
    combos = list(itertools.product(ANCHORS, RELS, ("ov", "overlap", "inside", "touches", "inter", "eq")))
    anchor, rel, op = combos[idx % len(combos)]
    r = gen_rect(rng, lattice=rng.random() < 0.9)
    if rng.random() < 0.4:                           # sides in ratio 4 : 1, 9 : 1 ...: the square of the same area is dyadic
        u, k = F(rng.randrange(1, 9), rng.choice([1, 2, 4])), rng.choice([4, 4, 9, 16])
        w, h = (u * k, u) if rng.random() < 0.5 else (u, u * k)
        r.update({"cx": F(rng.randrange(0, 40), 2) + w / 2, "cy": F(rng.randrange(0, 40), 2) + h / 2, "w": w, "h": h})
    s, co = coincide_rect(rng, r, anchor, rel)
    ca = min(r["w"], s["w"]) * min(r["h"], s["h"])
    case = {"op": op, "r": r, "s": s, "co": co, "kind": f"co/{anchor}/{rel}",
            "eps": rng.choice([F(0), F(1, 1024), F(1, 64), F(1, 4), F(1)]),
            "aeps": rng.choice([F(0), F(1, 1024), F(1, 16), F(1, 2), F(3), ca, ca, r["w"] * r["h"]])}
    if rng.random() < 0.5:
        case["r"], case["s"] = case["s"], case["r"]
        co["from"] = "s"
    return case


# near-equal region names: pairs of DIFFERENT valid region names (identifier or '#') that a sloppy comparison would identify
NEAR = [("case", "dsp", "DSP"), ("case", "A", "a"), ("case", "Bram", "BRAM"), ("case", "r_X1", "r_x1"), ("case", "dsp", "Dsp"),
        ("case", "_a", "_A"), ("case", "dSP1", "Dsp1"),
        ("trail_", "dsp", "dsp_"), ("trail_", "_", "__"), ("trail_", "__", "___"), ("trail_", "bram_", "bram__"),
        ("digit", "dsp", "dsp1"), ("digit", "dsp1", "dsp2"), ("digit", "dsp1", "dsp10"), ("digit", "dsp1", "dsp01"),
        ("digit", "r_1", "r_11"), ("digit", "dsp0", "dsp"),
        ("prefix", "dsp", "ds"), ("prefix", "d", "ds"), ("prefix", "bram", "bram_0"), ("prefix", "dsp", "dspdsp"),
        ("lead_", "_dsp", "dsp"), ("lead_", "_1", "_"), ("lead_", "__dsp", "_dsp"),
        ("ground", "#", "_"), ("ground", "#", "__"), ("ground", "_", "ground"), ("ground", "_", "_0"), ("ground", "#", "blockage"),
        ("inner_", "r_1", "r__1"), ("inner_", "r_1", "r1"),
        ("alike", "dsp0", "dspO"), ("alike", "r_l", "r_1"), ("alike", "dsp", "dps"), ("alike", "dsp", "bsp"), ("alike", "lut", "Iut"),
        ("long", "r" * 64 + "a", "r" * 64 + "b"), ("long", "r" * 64, "r" * 65), ("long", "Region_" * 9 + "x", "region_" * 9 + "x"),
        ("long", "a" * 31 + "_" + "b" * 32, "a" * 32 + "_" + "b" * 31)]
REGION_OPS = ["inter", "inter", "eq", "ov", "overlap", "inside", "touches", "bbox", "split_h", "split_v", "split", "grid", "hist"]


def near_variants(name):
    """valid region names close to `name` and different from it"""
    import re
    c = [name.swapcase(), name.upper(), name.capitalize(), name + "_", name + "1", name + "0", "_" + name, name[:-1],
         name[:-1] + "_", name + name]
    c += {"#": ["_", "__", "blockage"], "_": ["#", "__", "_0", "ground"]}.get(name, [])
    c += [a if b == name else b for _, a, b in NEAR if name in (a, b)]
    return sorted({v for v in c if v != name and (v == "#" or re.fullmatch("[A-Za-z_][A-Za-z0-9_]*", v))})


def overlapping(rng, r):
    """a second rectangle with a positive common area with r"""
    while True:
        kind, s, _ = related(rng, r)
        if common_area(r, s)[0] > 0:
            return kind, s


def gen_regions(rng, idx):
    """the systematic stream: every pair of near-equal region names x every operation that reads or copies the region
    (intersection, ==, the other pair methods, duplicate, the three splits, the grid, an object history), in turn"""
    import itertools
    combos = list(itertools.product(NEAR, REGION_OPS))
    (cls, a, b), op = combos[idx % len(combos)]
    if rng.random() < 0.5:
        a, b = b, a
    if op == "hist":
        return gen_hist(rng, template="regions", names=(a, b), cls=cls)
    r = gen_rect(rng, lattice=rng.random() < 0.9, region=a)
    how = rng.choices(["near", "equal"], [3, 1])[0]
    if op in PAIR_OPS:
        if op == "eq" or rng.random() < 0.25:
            s = dict(gen_rect(rng), cx=r["cx"], cy=r["cy"], w=r["w"], h=r["h"])      # the same box: only the names differ
        else:
            s = overlapping(rng, r)[1]
        s["region"] = b if how == "near" else a
        return {"op": op, "r": r, "s": s, "kind": f"rg/{cls}/{how}", "names": [a, b],
                "eps": rng.choice([F(0), F(1, 64), F(1)]), "aeps": rng.choice([F(0), F(1, 1024), F(1, 2)])}
    case = dict(q_params(rng, op, r), r=r, kind=f"rg/{cls}/one", names=[a, b])
    if op == "grid":
        case["nrows"], case["ncols"] = rng.choice([1, 2, 3, 4]), rng.choice([1, 2, 3, 4])
    if op in ("split_h", "split_v") and rng.random() < 0.7:
        case["x"] = (r["cx"] - r["w"] / 4) if op == "split_h" else (r["cy"] + r["h"] / 4)     # a cut strictly inside
    return case


def related(rng, r):
    """A second rectangle in a chosen relative configuration to r."""
    kind = rng.choice(["lattice", "identical", "edge", "corner", "nested", "crossing", "sliver", "far", "coincide", "coincide"])
    if kind == "coincide":
        s, co = coincide_rect(rng, r)
        return f"co/{co['a']}/{co['rel']}", s, co
    x0, x1 = r["cx"] - r["w"] / 2, r["cx"] + r["w"] / 2
    y0, y1 = r["cy"] - r["h"] / 2, r["cy"] + r["h"] / 2
    d = F(rng.randrange(1, 9), 4)
    e = F(rng.randrange(1, 9), 4)
    tiny = F(1, rng.choice([64, 256, 1024]))
    if kind == "lattice":
        s = gen_rect(rng)
        return kind, s, None
    if kind == "identical":
        bx = (x0, y0, x1, y1)
    elif kind == "edge":
        bx = rng.choice([(x1, y0, x1 + d, y1), (x0 - d, y0 - e, x0, y1), (x0, y1, x1 + d, y1 + e),
                         (x0 + r["w"] / 4, y0 - e, x1 - r["w"] / 4, y0)])
    elif kind == "corner":
        bx = rng.choice([(x1, y1, x1 + d, y1 + e), (x0 - d, y0 - e, x0, y0), (x1, y0 - e, x1 + d, y0),
                         (x0 - d, y1, x0, y1 + e)])
    elif kind == "nested":
        bx = (x0 + r["w"] / 4, y0 + r["h"] / 4, x1 - r["w"] / 4, y1 - r["h"] / 8)
        if rng.random() < 0.5:
            bx = (x0 - d, y0 - e, x1 + d, y1 + e)
        if rng.random() < 0.3:
            bx = (x0, y0 + r["h"] / 4, x1 - r["w"] / 2, y1)
    elif kind == "crossing":
        bx = (x0 - d, y0 + r["h"] / 4, x1 + d, y1 - r["h"] / 4)
        if rng.random() < 0.5:
            bx = (x0 + r["w"] / 2, y0 + r["h"] / 2, x1 + d, y1 + e)
    elif kind == "sliver":
        sgn = rng.choice([-1, 1])
        bx = rng.choice([(x1 + sgn * tiny, y0, x1 + d, y1), (x0, y1 + sgn * tiny, x1, y1 + e),
                         (x1 + sgn * tiny, y1 + sgn * tiny, x1 + d, y1 + e)])
    else:
        bx = (x1 + 10 + d, y1 + 20, x1 + 11 + 2 * d, y1 + 21 + e)
    a0, b0, a1, b1 = bx
    s = gen_rect(rng)
    s.update({"cx": (a0 + a1) / 2, "cy": (b0 + b1) / 2, "w": a1 - a0, "h": b1 - b0})
    if rng.random() < 0.7:
        s["region"] = r["region"]
    return kind, s, None


def gen_case(rng):
    op = rng.choice(OPS)
    r = gen_rect(rng, lattice=rng.random() < 0.8)
    case = {"op": op, "r": r}
    x0, x1 = r["cx"] - r["w"] / 2, r["cx"] + r["w"] / 2
    y0, y1 = r["cy"] - r["h"] / 2, r["cy"] + r["h"] / 2
    if op in ("ov", "overlap", "inside", "touches", "inter", "eq"):
        kind, s, co = related(rng, r)
        case["s"], case["kind"] = s, kind
        if co:
            case["co"] = co
        case["eps"] = rng.choice([F(0), F(1, 1024), F(1, 64), F(1, 4), F(1)])
        case["aeps"] = rng.choice([F(0), F(1, 1024), F(1, 16), F(1, 2), F(3)])
        if rng.random() < 0.5:
            case["r"], case["s"] = case["s"], case["r"]
            if co:
                co["from"] = "s"
    elif op == "pt":
        case["px"] = rng.choice([x0, x1, r["cx"], x0 - F(1, 8), x1 + F(1, 8), x0 + F(1, 64), F(rng.randrange(0, 100), 8)])
        case["py"] = rng.choice([y0, y1, r["cy"], y0 - F(1, 8), y1 + F(1, 8), y1 - F(1, 64), F(rng.randrange(0, 100), 8)])
    elif op in ("split_h", "xcut"):
        case["x"] = rng.choice([x0, x1, r["cx"], x0 + r["w"] / 4, x1 - r["w"] / 8, x0 - F(1, 4), x1 + F(1, 2),
                                F(-1), F(-3, 2), F(0), x0 + r["w"] / 128, x0 + r["h"] / 128, x1 - r["h"] / 128,
                                x0 + F(1, 64), x1 - F(1, 64)])
        case["ratio"] = rng.choice([F(1, 128), F(1, 64), F(1, 4), F(0), F(1, 2)])
    elif op in ("split_v", "ycut"):
        case["x"] = rng.choice([y0, y1, r["cy"], y0 + r["h"] / 4, y1 - r["h"] / 8, y0 - F(1, 4), y1 + F(1, 2),
                                F(-1), F(-3, 2), F(0), y0 + r["h"] / 128, y0 + r["w"] / 128, y1 - r["w"] / 128,
                                y0 + F(1, 64), y1 - F(1, 64)])
        case["ratio"] = rng.choice([F(1, 128), F(1, 64), F(1, 4), F(0), F(1, 2)])
    elif op == "grid":
        case["nrows"] = rng.choice([0, 1, 2, 3, 4, 5, 7, 8])
        case["ncols"] = rng.choice([0, 1, 2, 3, 4, 6, 7, 8])
    return case


def gen_extra(rng):
    """input classes the random stream reaches rarely or never: integer coordinates (Point / Shape built from Python
    ints), rectangles left of / below the origin, straddling it or ending exactly at 0, region names that are prefixes
    of each other, grids of 9, 10, 16, 100, 144, 256 cells, exact ties (overlap area equal to the area tolerance, gap equal
    to the distance tolerance, smaller piece equal to the sliver bound)"""
    kind = rng.choice(["ints", "negative", "negative", "regions", "biggrid", "tie"])
    if kind == "biggrid":
        r = gen_rect(rng)
        n, m = rng.choice([(3, 3), (2, 5), (5, 2), (4, 4), (10, 10), (12, 12), (16, 16), (1, 100), (9, 1)])
        return {"op": "grid", "r": r, "nrows": n, "ncols": m, "kind": "biggrid"}
    if kind == "tie":
        r = gen_rect(rng)
        x0, x1 = r["cx"] - r["w"] / 2, r["cx"] + r["w"] / 2
        y0, y1 = r["cy"] - r["h"] / 2, r["cy"] + r["h"] / 2
        t = rng.choice(["aeps", "eps", "sliver-x", "sliver-y"])
        if t == "aeps":         # common area exactly the area tolerance
            e, g = F(rng.randrange(1, 5), 4), F(rng.randrange(1, 5), 4)
            e, g = min(e, r["w"]), min(g, r["h"])
            s = dict(gen_rect(rng), cx=x1 - e + 2, cy=y1 - g + 3, w=F(4), h=F(6), region=r["region"])
            return {"op": "overlap", "r": r, "s": s, "eps": F(0), "aeps": e * g, "kind": "tie/aeps"}
        if t == "eps":          # gap exactly the distance tolerance
            e = rng.choice([F(1, 1024), F(1, 64), F(1, 4), F(1)])
            s = dict(gen_rect(rng), cx=x1 + e + 1, cy=r["cy"], w=F(2), h=r["h"])
            if rng.random() < 0.5:
                s = dict(s, cy=y1 + e + s["h"] / 2)          # corner contact, gap e in both axes
            return {"op": "touches", "r": r, "s": s, "eps": e, "aeps": F(0), "kind": "tie/eps"}
        q = rng.choice([F(1, 128), F(1, 64), F(1, 4), F(1, 2)])
        if t == "sliver-x":     # min(x - ll, ur - x) == ratio * h
            d = q * r["h"]
            return {"op": "xcut", "r": r, "x": rng.choice([x0 + d, x1 - d]), "ratio": q, "kind": "tie/sliver"}
        d = q * r["w"]
        return {"op": "ycut", "r": r, "x": rng.choice([y0 + d, y1 - d]), "ratio": q, "kind": "tie/sliver"}
    case = gen_case(rng)
    while case["op"] in ("bbox", "ar") and kind != "ints":
        case = gen_case(rng)
    rs = [k for k in ("r", "s") if k in case]
    if kind == "ints":
        m = 8
        case.pop("co", None)             # the parameter of the relation is not scaled: the pair is kept, the annotation dropped
        for k in rs:
            case[k] = dict(case[k], **{f: case[k][f] * m for f in ("cx", "cy", "w", "h")})
        for f in ("px", "py", "x"):
            if f in case and (f != "x" or case["x"] >= 0):
                case[f] = case[f] * m
        if not all(core.frac(case[k][f]).denominator == 1 for k in rs for f in ("cx", "cy", "w", "h")):
            return gen_extra(rng)
        case["ints"] = True
    elif kind == "negative":
        r = case["r"]
        how = rng.choice(["left", "straddle", "end-at-0", "start-at-0", "below"])
        dx = {"left": r["cx"] + r["w"] + 3, "straddle": r["cx"], "end-at-0": r["cx"] + r["w"] / 2,
              "start-at-0": r["cx"] - r["w"] / 2, "below": F(0)}[how]
        dy = r["cy"] + r["h"] / 2 if how == "below" else rng.choice([F(0), r["cy"]])
        for k in rs:
            case[k] = dict(case[k], cx=case[k]["cx"] - dx, cy=case[k]["cy"] - dy)
        if "px" in case:
            case["px"], case["py"] = case["px"] - dx, case["py"] - dy
        if "x" in case and case["x"] >= 0:
            # the cut follows the rectangle; a cut that becomes negative means 'halve' (as written in the code)
            case["x"] = case["x"] - (dy if case["op"] in ("split_v", "ycut") else dx)
    else:
        names = ["dsp", "dsp1", "ds", "d", "_", "__", "bram", "BRAM", "#"]
        for k in rs:
            case[k] = dict(case[k], region=rng.choice(names))
    case["kind"] = case.get("kind", "") + "+" + kind
    return case


def mk_rect_c18(d, ints=False):
    if not ints:
        return fr.mk_rect(d)
    from frame.geometry.geometry import Rectangle, Point, Shape
    r = Rectangle(center=Point(int(d["cx"]), int(d["cy"])), shape=Shape(int(d["w"]), int(d["h"])),
                  fixed=bool(d.get("fixed", False)), hard=bool(d.get("hard", False)), region=d.get("region", "_"))
    loc = d.get("loc", "NOPOLY")
    r.location = getattr(Rectangle.StogLocation, "NO_POLYGON" if loc == "NOPOLY" else loc)
    return r


def nontrivial(case):
    return case["op"] not in ("bbox",) or True


# ---------------- implementation ----------------
def run_impl(case):
    if case["op"] == "hist":
        return run_hist_impl(case)
    r = mk_rect_c18(case["r"], case.get("ints", False))
    s = mk_rect_c18(case["s"], case.get("ints", False)) if "s" in case else None
    return exec_op(case, r, s)


def exec_op(case, r, s, keep=None):
    """run one compared method on the Rectangle objects r (and s); `keep` receives the returned rectangles"""
    from frame.geometry.geometry import Rectangle, Point
    op = case["op"]
    Rectangle.undefine_epsilon()
    try:
        if op in ("ov", "overlap", "inside", "touches", "inter", "eq"):
            Rectangle.set_epsilon(float(case["eps"]), float(case["aeps"]))
            if op == "ov":
                return {"v": r.area_overlap(s), "v_sym": s.area_overlap(r)}
            if op == "overlap":
                return {"v": r.overlap(s), "v_sym": s.overlap(r)}
            if op == "inside":
                return {"v": r.is_inside(s)}
            if op == "touches":
                return {"v": r.touches(s), "v_sym": s.touches(r)}
            if op == "eq":
                return {"v": r == s}
            t = r * s
            u = s * r
            if keep is not None:
                keep.append(t)
            return {"v": None if t is None else fr.rect_obs(t), "v_sym": None if u is None else fr.rect_obs(u)}
        if op == "pt":
            return {"v": r.point_inside(Point(float(case["px"]), float(case["py"])))}
        if op in ("split_h", "split_v", "split"):
            try:
                if op == "split_h":
                    a, b = r.split_horizontal(float(case["x"]))
                elif op == "split_v":
                    a, b = r.split_vertical(float(case["x"]))
                else:
                    a, b = r.split()
            except AssertionError:
                return {"v": None}
            if keep is not None:
                keep.extend([a, b])
            return {"v": [fr.rect_obs(a), fr.rect_obs(b)], "parent_after": fr.rect_obs(r)}
        if op == "xcut":
            return {"v": r.x_cuttable(float(case["x"]), float(case["ratio"]))}
        if op == "ycut":
            return {"v": r.y_cuttable(float(case["x"]), float(case["ratio"]))}
        if op == "grid":
            try:
                g = r.rectangle_grid(case["nrows"], case["ncols"])
            except AssertionError:
                return {"v": None}
            if keep is not None:
                keep.extend(g)
            return {"v": [fr.rect_obs(x) for x in g]}
        if op == "ar":
            return {"v": r.aspect_ratio}
        if op == "bbox":
            bb = r.bounding_box
            d = r.duplicate()
            return {"v": [bb.ll.x, bb.ll.y, bb.ur.x, bb.ur.y, r.area], "dup": fr.rect_obs(d)}
    finally:
        Rectangle.undefine_epsilon()
    raise ValueError(op)


# ---------------- Gallina ----------------
def pow2(n):
    return n > 0 and n & (n - 1) == 0


def to_coq(case, obs):
    if case.get("names"):
        a, b = case["names"]
        rest = {k: v for k, v in case.items() if k != "names"}
        return f"near_distinct {gstr(a)} {gstr(b)} && ({to_coq(rest, obs)})"
    if case["op"] == "hist":
        return hist_to_coq(case, obs)
    if case.get("co"):
        co = case["co"]
        base, other = ("r", "s") if co["from"] == "r" else ("s", "r")
        B, O = fr.grect(case[base]), fr.grect(case[other])
        return f"geom_eqb (coincide {GANCHOR[co['a']]} {gshaperel(co)} {B} {O}) {O} && ({to_coq_op(case, obs)})"
    return to_coq_op(case, obs)


def to_coq_op(case, obs):
    op = case["op"]
    R = fr.grect(case["r"])
    v = obs["v"]
    if op in ("ov", "overlap", "inside", "touches", "inter", "eq"):
        S = fr.grect(case["s"])
        if op == "ov":
            return f"Qceqb (area_overlap {R} {S}) {gq(v)}"
        if op == "overlap":
            return f"Bool.eqb (overlap {gq(case['aeps'])} {R} {S}) {gbool(v)}"
        if op == "inside":
            return f"Bool.eqb (is_inside {R} {S}) {gbool(v)}"
        if op == "touches":
            return f"Bool.eqb (touches {gq(case['eps'])} {R} {S}) {gbool(v)}"
        if op == "eq":
            return f"Bool.eqb (req {R} {S}) {gbool(v)}"
        return f"opt_eqb rect_eqb (inter {R} {S}) {gopt(None if v is None else fr.grect(v))}"
    if op == "pt":
        return f"Bool.eqb (point_inside {R} {gq(case['px'])} {gq(case['py'])}) {gbool(v)}"
    if op in ("split_h", "split_v", "split"):
        o = gopt(None if v is None else f"({fr.grect(v[0])}, {fr.grect(v[1])})")
        call = {"split_h": f"split_horizontal {R} {gq(case.get('x', 0))}",
                "split_v": f"split_vertical {R} {gq(case.get('x', 0))}", "split": f"split {R}"}[op]
        return f"opt_eqb (pair_eqb rect_eqb rect_eqb) ({call}) {o}"
    if op == "xcut":
        return f"Bool.eqb (x_cuttable {R} {gq(case['x'])} {gq(case['ratio'])}) {gbool(v)}"
    if op == "ycut":
        return f"Bool.eqb (y_cuttable {R} {gq(case['x'])} {gq(case['ratio'])}) {gbool(v)}"
    if op == "grid":
        o = gopt(None if v is None else glist([fr.grect(x) for x in v]))
        call = f"rectangle_grid {R} {gnat(case['nrows'])} {gnat(case['ncols'])}"
        if pow2(case["nrows"]) and pow2(case["ncols"]):
            return f"opt_eqb (list_eqb rect_eqb) ({call}) {o}"
        scale = gq(abs(case["r"]["cx"]) + abs(case["r"]["cy"]) + case["r"]["w"] + case["r"]["h"])
        return f"opt_eqb (list_eqb (rect_close 16 {scale})) ({call}) {o}"
    if op == "ar":
        return f"qclose_rel 4 (aspect_ratio {R}) {gq(v)}"
    if op == "bbox":
        return (f"Qceqb (xmin {R}) {gq(v[0])} && Qceqb (ymin {R}) {gq(v[1])} && Qceqb (xmax {R}) {gq(v[2])} && "
                f"Qceqb (ymax {R}) {gq(v[3])} && Qceqb (area {R}) {gq(v[4])} && rect_eqb (duplicate {R}) {fr.grect(obs['dup'])}")
    raise ValueError(op)


# ---------------- direct oracle (plane geometry with Fractions) ----------------
def box(r):
    cx, cy, w, h = (core.frac(r[k]) for k in ("cx", "cy", "w", "h"))
    return cx - w / 2, cy - h / 2, cx + w / 2, cy + h / 2


def common_area(r, s):
    a = box(r)
    b = box(s)
    w = min(a[2], b[2]) - max(a[0], b[0])
    h = min(a[3], b[3]) - max(a[1], b[1])
    return (w * h if w > 0 and h > 0 else F(0)), (max(a[0], b[0]), max(a[1], b[1]), min(a[2], b[2]), min(a[3], b[3]))


def attrs_ok(parent, child):
    return all(child[k] == parent[k] for k in ("fixed", "hard", "region"))


def tiles_exact(pieces, parent, tol=F(0)):
    pb = box(parent)
    for p in pieces:
        b = box(p)
        if not (b[0] >= pb[0] - tol and b[1] >= pb[1] - tol and b[2] <= pb[2] + tol and b[3] <= pb[3] + tol):
            return "piece outside its parent"
        if not (core.frac(p["w"]) > 0 and core.frac(p["h"]) > 0):
            return "empty piece"
    for i in range(len(pieces)):
        for j in range(i + 1, len(pieces)):
            if common_area(pieces[i], pieces[j])[0] > tol * (pb[2] - pb[0] + pb[3] - pb[1]):
                return "pieces overlap"
    tot = sum(core.frac(p["w"]) * core.frac(p["h"]) for p in pieces)
    if abs(tot - core.frac(parent["w"]) * core.frac(parent["h"])) > tol * (pb[2] - pb[0] + pb[3] - pb[1]) * 4:
        return "areas do not add up"
    return None


def oracle_one(case, obs):
    """None if the property holds on this case, else a description."""
    op = case["op"]
    r = case["r"]
    v = obs["v"]
    if op in ("ov", "overlap", "inside", "touches", "inter", "eq"):
        s = case["s"]
        ca, cb = common_area(r, s)
        if op == "ov":
            if core.frac(v) != ca:
                return f"area_overlap={v} but the common region has area {ca}"
            if obs["v_sym"] != v:
                return "area_overlap is not symmetric"
        if op == "overlap":
            if v != (ca > case["aeps"]) or obs["v_sym"] != v:
                return "overlap() disagrees with common area > area epsilon"
        if op == "inside":
            a, b = box(r), box(s)
            if v != (a[0] >= b[0] and a[1] >= b[1] and a[2] <= b[2] and a[3] <= b[3]):
                return "is_inside disagrees with coordinate comparison"
        if op == "touches":
            a, b = box(r), box(s)
            gapx = max(a[0] - b[2], b[0] - a[2], 0)
            gapy = max(a[1] - b[3], b[1] - a[3], 0)
            if v != (gapx <= case["eps"] and gapy <= case["eps"]) or obs["v_sym"] != v:
                return "touches disagrees with the gap between the boxes"
        if op == "inter":
            exists = ca > 0 and r["region"] == s["region"]
            if (v is not None) != exists:
                return "intersection exists iff common area positive and same region: violated"
            if (obs["v_sym"] is not None) != exists:
                return "intersection existence not symmetric"
            if v is not None:
                if box(v) != cb:
                    return "intersection is not the common region"
                if box(obs["v_sym"]) != cb:
                    return "intersection not symmetric"
                if not attrs_ok(r, v) or not attrs_ok(s, obs["v_sym"]):
                    return "intersection does not inherit the attributes of its left operand"
        if op == "eq":
            if v != (all(core.frac(r[k]) == core.frac(s[k]) for k in ("cx", "cy", "w", "h")) and r["region"] == s["region"]):
                return "== disagrees with centre/shape/region equality"
        return None
    if op == "pt":
        a = box(r)
        if v != (a[0] <= case["px"] <= a[2] and a[1] <= case["py"] <= a[3]):
            return "point_inside disagrees with coordinate comparison"
        return None
    if op in ("split_h", "split_v", "split"):
        a = box(r)
        if op == "split":
            cut = None
            must = True
        else:
            x = case["x"]
            lo, hi = (a[0], a[2]) if op == "split_h" else (a[1], a[3])
            cut = x if x >= 0 else (lo + hi) / 2
            must = lo < cut < hi
        if (v is not None) != must:
            return "split accepted/rejected wrongly (cut must be strictly inside)"
        if v is None:
            return None
        t = tiles_exact(v, r)
        if t:
            return "split: " + t
        if not all(attrs_ok(r, p) for p in v):
            return "split pieces do not inherit attributes"
        if obs.get("parent_after") and any(obs["parent_after"][k] != (float(r[k]) if k in ("cx", "cy", "w", "h") else r[k])
                                          for k in ("cx", "cy", "w", "h", "fixed", "hard", "region")):
            return "split altered the rectangle it was applied to"
        b1, b2 = box(v[0]), box(v[1])
        if op == "split_h" and not (b1[2] == cut == b2[0]):
            return "split_horizontal pieces do not meet at the cut"
        if op == "split_v" and not (b1[3] == cut == b2[1]):
            return "split_vertical pieces do not meet at the cut"
        if op == "split":
            okv = b1[3] == r["cy"] == b2[1]
            okh = b1[2] == r["cx"] == b2[0]
            if r["h"] > r["w"] and not okv or r["h"] < r["w"] and not okh or not (okv or okh):
                return "split does not halve the longer side"
        return None
    if op in ("xcut", "ycut"):
        a = box(r)
        x, q = case["x"], case["ratio"]
        lo, hi, other, own = (a[0], a[2], r["h"], r["w"]) if op == "xcut" else (a[1], a[3], r["w"], r["h"])
        inside = lo < x < hi
        if v and not inside:
            return "cuttable at a coordinate not strictly inside"
        if inside and min(x - lo, hi - x) > q * max(other, own) and not v:
            return "not cuttable although neither piece is a sliver"
        return None
    if op == "grid":
        n, m = case["nrows"], case["ncols"]
        if (v is not None) != (n > 0 and m > 0):
            return "grid accepted/rejected wrongly"
        if v is None:
            return None
        if len(v) != n * m:
            return "grid has the wrong number of pieces"
        exact = pow2(n) and pow2(m)
        scale = abs(core.frac(r["cx"])) + abs(core.frac(r["cy"])) + core.frac(r["w"]) + core.frac(r["h"])
        # non power-of-two grids: w/ncols and the cell centres are rounded (a few ulp at the rectangle's magnitude)
        t = tiles_exact(v, r, F(0) if exact else scale * F(64, 2 ** 53))
        if t:
            return "grid: " + t
        if not all(attrs_ok(r, p) for p in v):
            return "grid pieces do not inherit attributes"
        return None
    return None




# --------------------------------------------------------------------------
# object histories: writes between all the compared reads
# --------------------------------------------------------------------------
FIELDS = {"cx": "FCx", "cy": "FCy", "w": "FW", "h": "FH"}
PAIR_OPS = ("ov", "overlap", "inside", "touches", "inter", "eq")


def q_params(rng, op, r, s=None):
    """parameters of one compared method, chosen relative to the current geometry (as gen_case does)"""
    d = {"op": op}
    x0, x1 = r["cx"] - r["w"] / 2, r["cx"] + r["w"] / 2
    y0, y1 = r["cy"] - r["h"] / 2, r["cy"] + r["h"] / 2
    if op in PAIR_OPS:
        d["eps"] = rng.choice([F(0), F(1, 1024), F(1, 64), F(1, 4), F(1)])
        d["aeps"] = rng.choice([F(0), F(1, 1024), F(1, 16), F(1, 2), F(3)])
    elif op == "pt":
        d["px"] = rng.choice([x0, x1, r["cx"], x0 - F(1, 8), x1 + F(1, 8), x0 + F(1, 64), F(rng.randrange(0, 100), 8)])
        d["py"] = rng.choice([y0, y1, r["cy"], y0 - F(1, 8), y1 + F(1, 8), y1 - F(1, 64), F(rng.randrange(0, 100), 8)])
    elif op in ("split_h", "xcut"):
        d["x"] = rng.choice([x0, x1, r["cx"], x0 + r["w"] / 4, x1 - r["w"] / 8, x0 - F(1, 4), x1 + F(1, 2), F(-1), F(0),
                             x0 + r["w"] / 128, x0 + r["h"] / 128, x1 - r["h"] / 128, x0 + F(1, 64)])
        d["ratio"] = rng.choice([F(1, 128), F(1, 64), F(1, 4), F(0), F(1, 2)])
    elif op in ("split_v", "ycut"):
        d["x"] = rng.choice([y0, y1, r["cy"], y0 + r["h"] / 4, y1 - r["h"] / 8, y0 - F(1, 4), y1 + F(1, 2), F(-1), F(0),
                             y0 + r["h"] / 128, y0 + r["w"] / 128, y1 - r["w"] / 128, y0 + F(1, 64)])
        d["ratio"] = rng.choice([F(1, 128), F(1, 64), F(1, 4), F(0), F(1, 2)])
    elif op == "grid":
        d["nrows"] = rng.choice([0, 1, 2, 3, 4, 5, 8])
        d["ncols"] = rng.choice([0, 1, 2, 3, 4, 6, 8])
    return d


def derived_value(r, s, d, which):
    """the generator's own idea of the rectangle a method returns (to keep track of the pool); None = none"""
    x0, x1 = r["cx"] - r["w"] / 2, r["cx"] + r["w"] / 2
    y0, y1 = r["cy"] - r["h"] / 2, r["cy"] + r["h"] / 2
    base = dict(r, loc="NOPOLY")

    def bx(a, b, c, e):
        return dict(base, cx=(a + c) / 2, cy=(b + e) / 2, w=c - a, h=e - b)
    op = d["op"]
    if op == "split" :
        op, cut = ("split_v", r["cy"]) if r["h"] > r["w"] else ("split_h", r["cx"])
    else:
        cut = d.get("x")
        if cut is not None and cut < 0:
            cut = r["cx"] if op == "split_h" else r["cy"]
    if op == "split_h":
        if not x0 < cut < x1:
            return None
        return bx(cut, y0, x1, y1) if which else bx(x0, y0, cut, y1)
    if op == "split_v":
        if not y0 < cut < y1:
            return None
        return bx(x0, cut, x1, y1) if which else bx(x0, y0, x1, cut)
    if op == "inter":
        if r["region"] != s["region"]:
            return None
        a0, a1 = s["cx"] - s["w"] / 2, s["cx"] + s["w"] / 2
        b0, b1 = s["cy"] - s["h"] / 2, s["cy"] + s["h"] / 2
        if min(x1, a1) - max(x0, a0) <= 0 or min(y1, b1) - max(y0, b0) <= 0:
            return None
        return bx(max(x0, a0), max(y0, b0), min(x1, a1), min(y1, b1))
    if op == "grid":
        n, m = d["nrows"], d["ncols"]
        if n <= 0 or m <= 0 or which >= n * m:
            return None
        row, col = divmod(which, m)
        return bx(x0 + col * r["w"] / m, y0 + row * r["h"] / n, x0 + (col + 1) * r["w"] / m, y0 + (row + 1) * r["h"] / n)
    return None


def gen_hist(rng, template=None, names=None, cls=None):
    r0 = gen_rect(rng, lattice=rng.random() < 0.85)
    pool = [r0]
    if template == "regions":
        r0["region"] = names[0]
        pool.append(dict(overlapping(rng, r0)[1], region=rng.choice(names)))
        if rng.random() < 0.3:
            pool.append(dict(overlapping(rng, rng.choice(pool))[1], region=rng.choice(names)))
    else:
        for _ in range(rng.choice([1, 1, 2, 3])):
            pool.append(related(rng, rng.choice(pool))[1])
    cur = [dict(r) for r in pool]
    ops = []

    def write(i, field, v, mech=None):
        ops.append({"t": "set", "mech": mech or rng.choice(["attr", "iadd", "setter"]), "i": i, "f": field, "v": v})
        cur[i][field] = v

    def a_write():
        i = rng.randrange(len(cur))
        r = cur[i]
        kind = rng.choices(["shift", "snap", "size", "flag", "same"], [4, 3, 3, 2, 1])[0]
        if kind == "shift":
            f = rng.choice(["cx", "cy"])
            write(i, f, r[f] + F(rng.randrange(-8, 9), 4) + (F(1, rng.choice([64, 256])) if rng.random() < 0.2 else 0))
        elif kind == "snap" and len(cur) > 1:
            # put i against / onto j: edge contact, partial overlap, same centre
            j = rng.choice([k for k in range(len(cur)) if k != i])
            s = cur[j]
            how = rng.choice(["east", "north", "overlap", "centre", "coincide", "coincide"])
            if how == "coincide":
                coincide_write(i, j)
            elif how == "east":
                write(i, "cx", s["cx"] + s["w"] / 2 + r["w"] / 2)
                if rng.random() < 0.5:
                    write(i, "cy", s["cy"])
            elif how == "north":
                write(i, "cy", s["cy"] + s["h"] / 2 + r["h"] / 2)
                if rng.random() < 0.5:
                    write(i, "cx", s["cx"])
            elif how == "overlap":
                write(i, "cx", s["cx"] + s["w"] / 4)
                write(i, "cy", s["cy"] - s["h"] / 4)
            else:
                write(i, "cx", s["cx"])
                write(i, "cy", s["cy"])
                if rng.random() < 0.5:
                    write(i, "w", s["w"])
                    write(i, "h", s["h"])
        elif kind == "size":
            f = rng.choice(["w", "h"])
            write(i, f, rng.choice([r[f] / 2, r[f] * 2, r[f] + F(1, 4), F(rng.randrange(1, 20), 4)]))
        elif kind == "flag":
            t = rng.choice(["fixed", "hard", "region"])
            v = rng.choice(["_", "dsp", "bram", "#"]) if t == "region" else rng.random() < 0.5
            if t == "region" and rng.random() < 0.4:
                # a name close to (or equal to) the region of another object of the pool
                other = rng.choice(cur)["region"]
                v = rng.choice(near_variants(other) + [other])
            ops.append({"t": t, "i": i, "v": v})
            cur[i][t] = v
        else:
            f = rng.choice(list(FIELDS))
            write(i, f, r[f])                       # a write that changes nothing

    def coincide_write(i, j):
        # object i is given a point and a derived quantity of object j (all four fields written, in a random order)
        t = cur[j]
        anchor, rel = rng.choice(ANCHORS), rng.choice(RELS)
        w, h, _ = coincide_shape(rng, rel, t["w"], t["h"])
        cx, cy = coincide_geom(t, anchor, w, h)
        m = rng.choice(["attr", "iadd", "setter", None])
        for f, v in rng.sample([("cx", cx), ("cy", cy), ("w", w), ("h", h)], 4):
            write(i, f, v, m)
        return anchor, rel

    def a_read(op=None):
        op = op or rng.choice(OPS)
        i = rng.randrange(len(cur))
        j = rng.choice([k for k in range(len(cur)) if k != i] or [i])
        d = q_params(rng, op, cur[i], cur[j])
        d.update({"t": "q", "i": i})
        if op in PAIR_OPS:
            d["j"] = j
        ops.append(d)
        return d

    def a_push():
        op = rng.choice(["split_h", "split_v", "split", "inter", "grid"])
        i = rng.randrange(len(cur))
        j = rng.choice([k for k in range(len(cur)) if k != i] or [i])
        d = q_params(rng, op, cur[i], cur[j])
        if op == "grid":
            d["nrows"], d["ncols"] = rng.choice([1, 2, 4]), rng.choice([1, 2, 4])     # exact cells only
            which = rng.randrange(d["nrows"] * d["ncols"])
        else:
            which = int(rng.random() < 0.5)
        d.update({"t": "push", "i": i, "which": which})
        if op == "inter":
            d["j"] = j
            d["which"] = 0
        ops.append(d)
        v = derived_value(cur[i], cur[j], d, d["which"])
        if v is not None:
            cur.append(v)

    template = template or rng.choice(["read-write-read", "read-write-read", "all-fields", "child", "random", "random", "coincide"])
    if template == "regions":
        # region names close to each other written through the region setter between reads of the pair; returned
        # rectangles (intersection, pieces of a split, a grid cell) inherit the name and are renamed independently
        def rename(i, v):
            ops.append({"t": "region", "i": i, "v": v})
            cur[i]["region"] = v

        def pair_reads(i, j):
            for op in ["inter", "eq"] + rng.sample(["ov", "overlap", "inside", "touches", "inter"], 1):
                a, b = (i, j) if rng.random() < 0.5 else (j, i)
                ops.append(dict(q_params(rng, op, cur[a], cur[b]), t="q", i=a, j=b))
        i, j = rng.sample(range(len(cur)), 2)
        pair_reads(i, j)
        for _ in range(rng.choice([1, 2, 3])):
            who, ref = (i, j) if rng.random() < 0.6 else (j, i)
            what = rng.choice(["other", "equal", "variant", "variant"])
            rename(who, cur[ref]["region"] if what == "equal" else
                   rng.choice([n for n in names if n != cur[ref]["region"]] or list(names)) if what == "other" else
                   rng.choice(near_variants(cur[ref]["region"])))
            if rng.random() < 0.3:
                for f, v in (("cx", cur[ref]["cx"]), ("cy", cur[ref]["cy"]), ("w", cur[ref]["w"]), ("h", cur[ref]["h"])):
                    write(who, f, v)                # the same box: only the names can tell them apart
            pair_reads(i, j)
        n0 = len(cur)
        a_push_op = rng.choice(["split_h", "split_v", "split", "inter", "grid"])
        d = q_params(rng, a_push_op, cur[i], cur[j])
        if a_push_op == "grid":
            d["nrows"], d["ncols"] = rng.choice([1, 2, 4]), rng.choice([1, 2, 4])
        if a_push_op in ("split_h", "split_v"):
            d["x"] = cur[i]["cx"] - cur[i]["w"] / 4 if a_push_op == "split_h" else cur[i]["cy"] + cur[i]["h"] / 4
        d.update({"t": "push", "i": i, "which": rng.randrange(d["nrows"] * d["ncols"]) if a_push_op == "grid" else
                  0 if a_push_op == "inter" else int(rng.random() < 0.5)})
        if a_push_op == "inter":
            d["j"] = j
        ops.append(d)
        v = derived_value(cur[i], cur[j], d, d["which"])
        if v is not None:
            cur.append(v)
            k = n0
            pair_reads(k, i)                        # the child carries the parent's name: it intersects its parent
            rename(rng.choice([k, i]), rng.choice(near_variants(cur[i]["region"])))
            pair_reads(k, i)
            ops.append(dict(q_params(rng, "bbox", cur[k]), t="q", i=k))
        else:
            pair_reads(i, j)
    elif template == "coincide":
        # read a pair, make one object coincide with the other in a point and a derived quantity, read the pair again
        i = rng.randrange(len(cur))
        j = rng.choice([k for k in range(len(cur)) if k != i])
        op = rng.choice(["ov", "ov", "inter", "inside", "overlap"])
        ops.append(dict(q_params(rng, op, cur[i], cur[j]), t="q", i=i, j=j))
        coincide_write(i, j)
        if rng.random() < 0.5:
            t = rng.choice(["fixed", "hard", "region"])
            v = cur[j]["region"] if t == "region" else rng.random() < 0.5
            ops.append({"t": t, "i": i, "v": v})
            cur[i][t] = v
        for op2 in [op] + rng.sample(list(PAIR_OPS), 2):
            a, b = (i, j) if rng.random() < 0.5 else (j, i)
            d = q_params(rng, op2, cur[a], cur[b])
            if rng.random() < 0.3:
                d["aeps"] = min(cur[a]["w"], cur[b]["w"]) * min(cur[a]["h"], cur[b]["h"])     # tie with the area tolerance
            ops.append(dict(d, t="q", i=a, j=b))
    elif template == "read-write-read":
        # the same read before and after a write to one of its operands
        d = a_read()
        for _ in range(rng.choice([1, 1, 2])):
            a_write()
        ops.append(dict(d, **q_params(rng, d["op"], cur[d["i"]], cur[d.get("j", d["i"])]), t="q", i=d["i"],
                        **({"j": d["j"]} if "j" in d else {})))
    elif template == "all-fields":
        i = rng.randrange(len(cur))
        ops.append(dict(q_params(rng, "bbox", cur[i]), t="q", i=i))
        for f in rng.sample(list(FIELDS), 4):
            v = cur[i][f] + F(rng.randrange(1, 9), 4) if f in ("cx", "cy") else rng.choice([cur[i][f] / 2, cur[i][f] * 2])
            write(i, f, v, rng.choice(["attr", "iadd"]) if rng.random() < 0.8 else "setter")
            op = rng.choice(OPS)
            j = rng.choice([k for k in range(len(cur)) if k != i] or [i])
            d = q_params(rng, op, cur[i], cur[j])
            d.update({"t": "q", "i": i})
            if op in PAIR_OPS:
                d["j"] = j
                if rng.random() < 0.5:
                    d["i"], d["j"] = j, i
            ops.append(d)
    elif template == "child":
        # a returned rectangle and its parent are written independently
        n0 = len(cur)
        a_push()
        if len(cur) > n0:
            k = len(cur) - 1
            p = ops[-1]["i"]
            for who in rng.sample([k, p], 2):
                f = rng.choice(list(FIELDS))
                write(who, f, cur[who][f] + F(1, 2))
                for t in (k, p):
                    ops.append(dict(q_params(rng, "bbox", cur[t]), t="q", i=t))
            ops.append(dict(q_params(rng, "ov", cur[k], cur[p]), t="q", i=k, j=p))
        else:
            a_write()
            a_read()
    else:
        for _ in range(rng.randrange(4, 12)):
            what = rng.choices(["w", "q", "p"], [4, 5, 1])[0]
            a_write() if what == "w" else a_read() if what == "q" else a_push()
        a_read()
    case = {"op": "hist", "pool": pool, "ops": ops, "template": template}
    if template == "regions":
        case.update({"kind": f"rg/{cls}", "names": list(names)})
    return case


def run_hist_impl(case):
    from frame.geometry.geometry import Rectangle, Point, Shape
    objs = [fr.mk_rect(d) for d in case["pool"]]
    steps = []
    for op in case["ops"]:
        rec = {}
        t = op["t"]
        if t == "set":
            r, f, v = objs[op["i"]], op["f"], float(op["v"])
            tgt, attr = (r.center, {"cx": "x", "cy": "y"}[f]) if f in ("cx", "cy") else (r.shape, f)
            if op["mech"] == "attr":
                setattr(tgt, attr, v)
            elif op["mech"] == "iadd":
                setattr(tgt, attr, getattr(tgt, attr) + (v - getattr(tgt, attr)))
            elif f in ("cx", "cy"):
                r.center = Point(v, r.center.y) if f == "cx" else Point(r.center.x, v)
            else:
                r.shape = Shape(v, r.shape.h) if f == "w" else Shape(r.shape.w, v)
        elif t in ("fixed", "hard", "region"):
            setattr(objs[op["i"]], t, op["v"])
        elif t in ("q", "push"):
            keep = []
            rec["res"] = exec_op(op, objs[op["i"]], objs[op["j"]] if "j" in op else None, keep)
            if t == "push" and op["which"] < len(keep) and keep[op["which"]] is not None:
                objs.append(keep[op["which"]])
        else:
            raise ValueError(t)
        rec["post"] = [fr.rect_obs(r) for r in objs]
        steps.append(rec)
    return {"v": None, "steps": steps}


def gquery(op):
    i = gnat(op["i"])
    j = gnat(op["j"]) if "j" in op else None
    o = op["op"]
    if o == "ov":
        return f"QOv {i} {j}"
    if o == "overlap":
        return f"QOverlap {gq(op['aeps'])} {i} {j}"
    if o == "inside":
        return f"QInside {i} {j}"
    if o == "touches":
        return f"QTouches {gq(op['eps'])} {i} {j}"
    if o == "inter":
        return f"QInter {i} {j}"
    if o == "eq":
        return f"QEq {i} {j}"
    if o == "pt":
        return f"QPt {i} {gq(op['px'])} {gq(op['py'])}"
    if o == "split_h":
        return f"QSplitH {i} {gq(op['x'])}"
    if o == "split_v":
        return f"QSplitV {i} {gq(op['x'])}"
    if o == "split":
        return f"QSplit {i}"
    if o == "xcut":
        return f"QXcut {i} {gq(op['x'])} {gq(op['ratio'])}"
    if o == "ycut":
        return f"QYcut {i} {gq(op['x'])} {gq(op['ratio'])}"
    if o == "grid":
        return f"QGrid {i} {gnat(op['nrows'])} {gnat(op['ncols'])}"
    if o == "ar":
        return f"QAr {i}"
    if o == "bbox":
        return f"QBbox {i}"
    raise ValueError(o)


def gobs(op, res, cur):
    o, v = op["op"], res["v"]
    gr = lambda d: gopt(None if d is None else fr.grect(d))
    if o == "ov":
        return f"OQ2 {gq(v)} {gq(res['v_sym'])}"
    if o in ("overlap", "touches"):
        return f"OB2 {gbool(v)} {gbool(res['v_sym'])}"
    if o in ("inside", "eq", "pt", "xcut", "ycut"):
        return f"OB {gbool(v)}"
    if o == "inter":
        return f"ORect2 {gr(v)} {gr(res['v_sym'])}"
    if o in ("split_h", "split_v", "split"):
        return f"OPair {gopt(None if v is None else f'({fr.grect(v[0])}, {fr.grect(v[1])})')}"
    if o == "grid":
        r = cur[op["i"]]
        lst = gopt(None if v is None else glist([fr.grect(x) for x in v]))
        if pow2(op["nrows"]) and pow2(op["ncols"]):
            return f"OList 0%Z (qc 1 1) {lst}"
        scale = gq(abs(core.frac(r["cx"])) + abs(core.frac(r["cy"])) + core.frac(r["w"]) + core.frac(r["h"]))
        return f"OList 16%Z {scale} {lst}"
    if o == "ar":
        return f"OQ {gq(v)}"
    if o == "bbox":
        return f"OBox {gq(v[0])} {gq(v[1])} {gq(v[2])} {gq(v[3])} {gq(v[4])} {fr.grect(res['dup'])}"
    raise ValueError(o)


def gderive(op):
    i, o = gnat(op["i"]), op["op"]
    if o == "split_h":
        return f"DSplitH {i} {gq(op['x'])} {gbool(op['which'])}"
    if o == "split_v":
        return f"DSplitV {i} {gq(op['x'])} {gbool(op['which'])}"
    if o == "split":
        return f"DSplit {i} {gbool(op['which'])}"
    if o == "inter":
        return f"DInter {i} {gnat(op['j'])}"
    if o == "grid":
        return f"DGridCell {i} {gnat(op['nrows'])} {gnat(op['ncols'])} {gnat(op['which'])}"
    raise ValueError(o)


def hist_to_coq(case, obs):
    steps = []
    cur = case["pool"]
    for op, rec in zip(case["ops"], obs["steps"]):
        t = op["t"]
        o = "ONone"
        if t == "set":
            g = f"GSet {'GSetter' if op['mech'] == 'setter' else 'GInPlace'} {gnat(op['i'])} {FIELDS[op['f']]} {gq(op['v'])}"
        elif t == "fixed":
            g = f"GFixed {gnat(op['i'])} {gbool(op['v'])}"
        elif t == "hard":
            g = f"GHard {gnat(op['i'])} {gbool(op['v'])}"
        elif t == "region":
            g = f"GRegion {gnat(op['i'])} {gstr(op['v'])}"
        elif t == "q":
            g = f"GQuery ({gquery(op)})"
            o = gobs(op, rec["res"], cur)
        else:
            g = f"GPush ({gderive(op)})"
        steps.append(f"({g}, {o}, {glist([fr.grect(d) for d in rec['post']])})")
        cur = rec["post"]
    return f"ghist_check {glist([fr.grect(d) for d in case['pool']])} {glist(steps)}"


def hist_oracle(case, obs):
    """every compared method of the history judged on the values read back just before the call"""
    cur = case["pool"]
    for k, (op, rec) in enumerate(zip(case["ops"], obs["steps"])):
        if op["t"] in ("q", "push"):
            sub = {key: val for key, val in op.items() if key not in ("t", "i", "j", "which")}
            sub["r"] = cur[op["i"]]
            if "j" in op:
                sub["s"] = cur[op["j"]]
            why = oracle_one(sub, rec["res"])
            if why:
                return f"operation {k} ({op['op']} on object {op['i']}" + (f", {op['j']}" if "j" in op else "") + f"): {why}"
        cur = rec["post"]
    return None


def hist_shrink(case):
    ops = case["ops"]
    for k in range(len(ops)):
        if ops[k]["t"] != "push" and len(ops) > 1:
            yield dict(case, ops=ops[:k] + ops[k + 1:])
    for k in range(1, len(ops)):
        yield dict(case, ops=ops[:k])


def oracle(case, obs):
    if case["op"] == "hist":
        return hist_oracle(case, obs)
    return oracle_one(case, obs)


def shrink(case):
    if case["op"] == "hist":
        yield from hist_shrink(case)


def failure_key(case, why):
    return f"C18/{case['op']}"


def translation_tie(ctx, out, pid="C18"):
    """Second tie to the source: re-translate the pure Rectangle methods from the repository's current
    geometry.py into Gallina (harness/translate_rect.py, fail-closed; private helpers of the class are
    translated on demand and inlined) and let Coq prove each generated definition equal to the
    hand-written model function (harness/gen/RectGenOk.v.in; the scripts case-split every comparison and
    close the cases by arithmetic, so a behaviour-preserving rewrite of a method still checks).

    Rule (the differential correspondence is the tie of record):
      * the source uses a construct the translator cannot express (TranslationError): NOT a violation by
        itself - the evidence records `translator: skipped (<reason>)`, the caller triples the
        correspondence budget of this run, and a violation is reported only if the correspondence or the
        oracle fails;
      * a definition that WAS translated but is no longer proved equal to the model is a disagreement
        (a violation, after the usual search for a failing input).
    Returns "proved", "skipped" or "failed"."""
    import shutil
    import subprocess
    from harness import translate_rect as tr
    d = ctx.work / "gen"
    d.mkdir(exist_ok=True)
    res = {"methods": tr.METHODS, "translated": False, "proved_equal": False, "translator": "ran"}
    try:
        text = tr.translate_file(core.REPO / "frame" / "geometry" / "geometry.py")
        (d / "RectGen.v").write_text(text)
        res["translated"] = True
    except tr.TranslationError as e:
        res["translator"] = f"skipped ({e})"
        res["rule"] = ("the current source is outside the translator's subset: the translation tie is not applied in this run, "
                       "the correspondence budget is tripled and decides alone")
        out.extra["translation_tie"] = res
        ctx.notes.append(f"{pid}: translator: skipped ({e}); correspondence budget tripled")
        return "skipped"
    except Exception as e:  # e.g. a syntax error in the source
        res["error"] = f"{type(e).__name__}: {e}"
    if res["translated"]:
        shutil.copy(core.VERIF / "harness" / "gen" / "RectGenOk.v.in", d / "RectGenOk.v")
        log = ""
        ok = True
        for f in ("RectGen.v", "RectGenOk.v"):
            p = subprocess.run(["timeout", "600", "coqc", "-Q", str(core.COQ), "FrameModel", "-R", ".", "", f],
                               cwd=d, stdout=subprocess.PIPE, stderr=subprocess.STDOUT, text=True)
            log += p.stdout
            if p.returncode != 0:
                ok = False
                break
        closed = log.count("Closed under the global context")
        res["proved_equal"] = ok and closed == 3
        if not res["proved_equal"]:
            res["error"] = log[-1500:]
    out.extra["translation_tie"] = res
    if not res["proved_equal"]:
        out.disagreements.append({
            "key": f"{pid}/translation-tie", "explained": False,
            "why": "the Rectangle methods re-translated from the current source are no longer proved equal to the model: "
                   + res.get("error", "")[:1500],
            "case": {"file": "frame/geometry/geometry.py", "lemmas": "harness/gen/RectGenOk.v.in"}})
        return "failed"
    return "proved"


def run(ctx, out, replay=None):
    # translator skipped: the correspondence budget is tripled (thorough tier: x1.5, to stay within its 15 minutes)
    mult = (3 if ctx.quick() else 1.5) if translation_tie(ctx, out) == "skipped" else 1
    n = int((3000 if ctx.quick() else 60000) * mult)
    out.rule = ("random Rectangle method calls on lattice/dyadic rectangles; pairs drawn by relative configuration "
                "(identical, edge, corner, nested, crossing, sliver, far, coincide); distinct by canonical hash of the case; "
                "non-trivial = every case (each exercises one modelled method with an outcome that depends on the geometry).  "
                "Extra stream: integer coordinates passed as Python ints, rectangles left of / below / straddling / ending exactly "
                "at the origin, region names that are prefixes of each other, grids of 9..256 cells, exact ties (common area equal "
                "to the area tolerance, gap equal to the distance tolerance, smaller piece equal to the sliver bound).  "
                "Coincidence stream (Geometry/RectCoincide.v): every combination of a shared point (centre, ll, ur, lr, ul corner) "
                "x a shape relation (same shape, same area with another shape - preferably the square of the same area, 4x1 vs 2x2 -, "
                "transposed, same width, same height, same perimeter, same aspect ratio) x the six pair methods, in turn; area "
                "tolerance also exactly the common area; the same pairs occur among the random pairs, in the pools of the "
                "histories, and are produced inside histories by writes (template 'coincide', snap 'coincide').  "
                "Object histories: a pool of 2-4 related rectangles, 3-14 operations: the same read before and after a write to an "
                "operand; all four fields of one object written in turn with a read after each; a returned rectangle and its parent "
                "written independently; random mixes of writes (shift, snap against / onto another object, resize, flags, "
                "value-preserving writes - by attribute, += or setter), reads (all 15 compared methods) and pushes of returned "
                "rectangles.  "
                "Region-name stream: every pair of near-equal valid region names (differing only in letter case - dsp / DSP, A / a -, "
                "by a trailing or leading underscore, a trailing digit, one a prefix of the other, '_' / '__' / '#', an inner '__', "
                "look-alike characters, the 65th character) x every operation that reads or copies the region (intersection twice, "
                "==, the other four pair methods, duplicate, the three splits, the grid, a history), in turn: the pair methods on "
                "boxes with a positive common area or on the same box, under the two names of the pair (3 of 4) or under one name; "
                "histories in which the region setter writes the other name / a near variant / the equal name between reads of the "
                "pair and a returned rectangle is renamed independently of its source; region writes of every history also draw "
                "near variants of the names present in the pool")
    cases = []
    if replay and "case" in replay:
        cases.append(fr.unjson(replay["case"]))
    for c in fr.load_corpus("C18"):
        cases.append(c)
    while len(cases) < n:
        cases.append(gen_case(ctx.rng))
    xrng = __import__("random").Random(f"C18-extra-{ctx.seed}")
    for _ in range(int((300 if ctx.quick() else 3000) * mult)):
        cases.append(gen_extra(xrng))
    crng = __import__("random").Random(f"C18-coincide-{ctx.seed}")
    for k in range(int((420 if ctx.quick() else 4200) * mult)):
        cases.append(gen_coincide(crng, k))
    grng = __import__("random").Random(f"C18-regions-{ctx.seed}")
    ng = len(NEAR) * len(REGION_OPS)                 # every (pair of names) x (operation) once in the quick tier
    for k in range(int((ng if ctx.quick() else 8 * ng) * mult)):
        cases.append(gen_regions(grng, k))
    out.extra["region_name_cases"] = int((ng if ctx.quick() else 8 * ng) * mult)
    nh = int((1200 if ctx.quick() else 12000) * mult)
    hrng = __import__("random").Random(f"C18-hist-{ctx.seed}")
    for _ in range(nh):
        cases.append(gen_hist(hrng))
    out.extra["history_cases"] = nh
    for c in cases:
        if c["op"] == "hist":
            for op in c["ops"]:
                out.count("hist-op:" + (op["op"] if op["t"] in ("q", "push") else op["t"] + ("/" + op["mech"] + "/" + op["f"] if op["t"] == "set" else "")))
    fr.run_cases(ctx, out, cases, run_impl, to_coq, oracle, failure_key, HEADER,
                 dist_key=lambda c: c["op"] + ("/" + c["kind"] if "kind" in c else "") + ("/" + c["template"] if "template" in c else ""),
                 shrink=shrink, shard=200)
