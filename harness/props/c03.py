"""C03 - Initial allocation equals the exact geometric overlap
(frame/allocation/allocation.py: create_initial_allocation, Allocation.initial_allocation,
_detect_fixed_rectangles; Netlist.create_squares; Module.create_square)."""
from fractions import Fraction as F
import math
import traceback

from harness import core, fr
from harness.core import gq, gbool, gstr, glist, gnat
from harness.props import c01, c18

HEADER = """From FrameModel Require Import Num.QcTac Geometry.Rect Cases.Cmp Alloc.Alloc Alloc.Initial Cases.CmpC03
  Alloc.InitialHist Cases.CmpC03Hist Geometry.RectCoincide.
Open Scope Qc_scope."""

ASSUMPTIONS = [
    "the model takes the lists returned by the real die.floorplanning_rectangles() and the modules of the real Netlist "
    "(observed just before the call) as its input; the die decomposition is C01's business, die refinement C11's; a 'direct' "
    "stream calls Allocation(cells).initial_allocation(netlist) on cell lists that are not a die decomposition so that the "
    "assertions of _detect_fixed_rectangles are exercised",
    "math.sqrt is a section variable required to be exact (0 <= s, s*s = a) at the areas of the modules without rectangles; the "
    "harness instantiates it by a finite table of the exact roots of the perfect-square areas it generates (computed with "
    "Fractions, not taken from the implementation)",
    "the 1e-6 tolerance of _detect_fixed_rectangles, the 1e-9 rounding allowance of the repaired ratio and the class-wide area "
    "epsilon are parameters of the model; the harness passes the exact rationals of the floats 1e-6, 1e-9 and the value read "
    "back from Rectangle.area_epsilon()",
    "exact stream: coordinates are dyadic so every + - * the code performs is exact; a ratio is a sum of quotients overlap/area: "
    "compared exactly when the cell area is a power of two, else within (2 + number of rectangles) roundings of 2^-53; the oracle "
    "allows 2^-40",
    "decimal stream (multiples of 0.1): direct oracle only, tolerance 1e-9 on ratios, areas and on what counts as an overlap "
    "(a module listed in an abutting cell with a ratio of rounding-noise size, ~1e-16, is tolerated)",
    "theorems are about exact arithmetic; the model mirrors the code after fixes/C03-ratio-rounding.diff (under the theorems' "
    "hypotheses every exact ratio is at most 1, so the allowance never changes a value)",
    "'area of its shape lying on refinable or fixed cells' is read respectively: refinable cells for soft and hard modules, "
    "its own (fixed) cells for a fixed module - the part of a soft module lying on a fixed module's cell is not allocated to it",
    "the order of the cells and of the entries of a map is compared with the model (the code's order); the oracle does not demand it",
    "object histories (cases with 'ops', exact stream, die form): the real Netlist / Die pair goes through reads (bounding_box, "
    "area_overlap, find_location), Module.create_stog, allocations, in-place and setter moves / resizes of the rectangles of the "
    "movable modules, module-centre writes and Module.recenter_rectangles; after EVERY operation every module is read back through "
    "the public attributes and must equal the state of the model (Alloc/InitialHist.v; after Module.create_stog up to order and "
    "roles of the rectangles; the identity 'rectangles[0].center is module.center' is read back and followed by the model, not "
    "demanded); every allocation must agree with the model on the values read back just before it and is judged by "
    "the oracle on those values.  The die's cells are checked to be unchanged by every operation; fixed modules are never moved; "
    "recenter_rectangles is only used where the centroid is a dyadic rational (so that its quotient is exact in binary64)",
    "coincidence modules (feature 'coincide'): the rectangle (or default square) of a module is built from a target box - a "
    "specialised region, a fixed cell, the clean die, a grid cell, a lattice box, a cell of the direct form - by "
    "Geometry/RectCoincide.v::coincide (shared centre / corner x same shape / same area other shape / transposed / same width / "
    "same height / same perimeter / same aspect ratio); where the target is a cell of the observed die the correspondence also "
    "requires the module's rectangle to equal the model's construction from that cell.  Twin modules (feature 'twin'): a module "
    "whose rectangle or square is identical to that of another module",
]

TAGS = ["#", "#", "dsp", "BRAM", "r_1"]
SIDES = [F(1, 4), F(1, 2), F(3, 4), F(1), F(1), F(3, 2), F(2), F(2), F(5, 2), F(3), F(7, 2), F(4), F(5)]
FEPS = 1e-6
CEPS = 1e-9          # rounding allowance of the repaired code (fixes/C03-ratio-rounding.diff)
SIDES_DEC = [F(3, 10), F(1, 2), F(7, 10), F(1), F(6, 5), F(3, 2), F(2), F(21, 10), F(5, 2), F(33, 10)]


# --------------------------------------------------------------------------
# generator
# --------------------------------------------------------------------------
def rand_box(rng, W, H, q, allow_out=True, big=False):
    """a dyadic box (x0, y0, x1, y1), possibly sticking out of the die"""
    wmax = max(2, int((W if big else min(W, 4)) / q))
    hmax = max(2, int((H if big else min(H, 4)) / q))
    w = rng.randrange(1, wmax + 1) * q
    h = rng.randrange(1, hmax + 1) * q
    lo = -2 if allow_out else 0
    x0 = rng.randrange(lo, max(lo + 1, int(W / q) + (2 if allow_out else -int(w / q) + 1))) * q
    y0 = rng.randrange(lo, max(lo + 1, int(H / q) + (2 if allow_out else -int(h / q) + 1))) * q
    return fix_box([x0, y0, x0 + w, y0 + h])


def fix_box(b):
    """parse_yaml_rectangle wants a non-negative centre: shift the box if needed"""
    dx = max(F(0), -(b[0] + b[2]) / 2)
    dy = max(F(0), -(b[1] + b[3]) / 2)
    return [b[0] + dx, b[1] + dy, b[2] + dx, b[3] + dy]


def box_ov(a, b):
    w = min(a[2], b[2]) - max(a[0], b[0])
    h = min(a[3], b[3]) - max(a[1], b[1])
    return w * h if w > 0 and h > 0 else F(0)


def box2rect(b, tag=None):
    r = [(b[0] + b[2]) / 2, (b[1] + b[3]) / 2, b[2] - b[0], b[3] - b[1]]
    return r + [tag] if tag else r


def disjoint_boxes(rng, W, H, q, n, attach=True):
    """n pairwise disjoint boxes; the later ones preferably abut the first (an orthogon)"""
    out = [rand_box(rng, W, H, q)]
    tries = 0
    while len(out) < n and tries < 30:
        tries += 1
        t = out[0]
        if attach and rng.random() < 0.7:
            side = rng.choice("NSEW")
            w = rng.randrange(1, max(2, int((t[2] - t[0]) / q) + 1)) * q
            h = rng.randrange(1, max(2, int((t[3] - t[1]) / q) + 1)) * q
            if side == "E":
                b = [t[2], t[1], t[2] + w, t[1] + min(h, t[3] - t[1])]
            elif side == "W":
                b = [t[0] - w, t[1], t[0], t[1] + min(h, t[3] - t[1])]
            elif side == "N":
                b = [t[0], t[3], t[0] + min(w, t[2] - t[0]), t[3] + h]
            else:
                b = [t[0], t[1] - h, t[0] + min(w, t[2] - t[0]), t[1]]
        else:
            b = rand_box(rng, W, H, q)
        b = fix_box(b)
        if all(box_ov(b, o) == 0 for o in out):
            out.append(b)
    return out


def coincide_module(rng, name, target, co_list, anchor=None, rel=None, form=None):
    """a movable module whose rectangle (or default square) shares a point with the box `target` and whose shape stands in
    a stated relation to the target's (Geometry/RectCoincide.v); None if the result would not be a legal input"""
    t = {"cx": (target[0] + target[2]) / 2, "cy": (target[1] + target[3]) / 2, "w": target[2] - target[0], "h": target[3] - target[1]}
    anchor = anchor or rng.choice(c18.ANCHORS)
    rel = rel or rng.choice(c18.RELS)
    w, h, p = c18.coincide_shape(rng, rel, t["w"], t["h"])
    cx, cy = c18.coincide_geom(t, anchor, w, h)
    if cx < 0 or cy < 0:                                 # parse_yaml_rectangle wants a non-negative centre
        anchor = "centre"
        cx, cy = t["cx"], t["cy"]
    form = form or rng.choice(["square", "square", "soft", "soft", "hard", "soft2"])
    if form == "square" and w != h:
        form = "soft"
    rect = [cx, cy, w, h]
    if form == "square":
        m = {"name": name, "kind": "soft", "area": w * w, "center": [cx, cy], "rects": []}
    elif form == "hard":
        m = {"name": name, "kind": "hard", "rects": [rect]}
    else:
        rects = [rect]
        if form == "soft2":                              # a second rectangle abutting the first on the east
            e = rng.choice([F(1, 2), F(1), h]) if h > 0 else F(1)
            rects.append([cx + w / 2 + F(1, 2), cy, F(1), min(e, h)])
        m = {"name": name, "kind": "soft", "area": sum((r[2] * r[3] for r in rects), F(0)), "center": None, "rects": rects}
    co_list.append({"m": name, "t": list(target), "a": anchor, "rel": rel, "p": p})
    return m


def twin_module(rng, name, other):
    """a movable module whose rectangle / default square is identical to one of `other`'s"""
    if other["rects"]:
        r = list(rng.choice(other["rects"]))[:4]
    else:
        if other.get("center") is None:
            return None
        a = sum(other["area"].values()) if isinstance(other["area"], dict) else other["area"]
        sq = c18.exact_root(a)
        if sq is None:
            return None
        r = [other["center"][0], other["center"][1], sq, sq]
    form = rng.choice(["square", "square", "soft", "hard"])
    if form == "square" and r[2] == r[3]:
        return {"name": name, "kind": "soft", "area": r[2] * r[2], "center": [r[0], r[1]], "rects": []}
    if form == "hard":
        return {"name": name, "kind": "hard", "rects": [r]}
    return {"name": name, "kind": "soft", "area": r[2] * r[3], "center": None, "rects": [r]}


def gen_modules(rng, W, H, q, features, sides=SIDES, lattice=None, targets=None, co_list=None, others=()):
    modules = []
    co_list = co_list if co_list is not None else []
    for i in range(rng.choice([0, 1, 1, 2, 2, 3, 4])):
        kind = rng.choices(["square", "soft", "hard", "tile", "coincide", "twin"],
                           [5, 3, 3, 2 if lattice else 0, 2 if targets else 0, 1 if (modules or others) else 0])[0]
        if kind == "coincide":
            m = coincide_module(rng, f"C{i}", rng.choice(targets), co_list)
            features.append("coincide")
        elif kind == "twin":
            m = twin_module(rng, f"W{i}", rng.choice(modules + list(others)))
            if m is None:
                continue
            features.append("twin")
        elif kind == "tile":
            # a soft module whose rectangles tile a lattice-aligned box exactly (ratio 1 in the cells it fills)
            xs, ys = lattice
            i0, j0 = rng.randrange(len(xs) - 1), rng.randrange(len(ys) - 1)
            i1, j1 = rng.randrange(i0 + 1, len(xs)), rng.randrange(j0 + 1, len(ys))
            x0, x1, y0, y1 = xs[i0], xs[i1], ys[j0], ys[j1]
            n = int((x1 - x0) / q)
            cuts = sorted({x0, x1} | {x0 + rng.randrange(1, n) * q for _ in range(rng.choice([1, 1, 2])) if n > 1})
            boxes = [[a, y0, b, y1] for a, b in zip(cuts, cuts[1:])]
            m = {"name": f"T{i}", "kind": "soft", "area": sum((b[2] - b[0]) * (b[3] - b[1]) for b in boxes),
                 "center": None, "rects": [box2rect(b) for b in boxes]}
            features.append("tile")
        elif kind == "square":
            s = rng.choice(sides)
            where = rng.random()
            if where < 0.2:                                 # around a corner / border of the die: sticks out
                c = [rng.choice([F(0), W, W - s / 2, s / 4]), rng.choice([F(0), H, H - s / 4, s / 2])]
            elif where < 0.25:                              # far away: touches no cell
                c = [W + s + 1, H / 2]
                features.append("untouched")
            else:
                c = [rng.randrange(0, int(W / q) + 1) * q, rng.randrange(0, int(H / q) + 1) * q]
            m = {"name": f"S{i}", "kind": "soft", "area": s * s, "center": c, "rects": []}
            if rng.random() < 0.12:
                a1 = s * s / 4
                m["area"] = {"_": a1, "dsp": s * s - a1}
            if rng.random() < 0.04:
                m["center"] = None                          # create_square must raise
                features.append("no-centre")
        elif kind == "soft":
            n = rng.choice([1, 1, 2, 2, 3])
            if rng.random() < 0.08:
                b0 = rand_box(rng, W, H, q)
                boxes = [b0, [b0[0] + q, b0[1], b0[2] + q, b0[3]]]      # own rectangles overlap (outside the property)
                features.append("own-overlap")
            else:
                boxes = disjoint_boxes(rng, W, H, q, n, attach=rng.random() < 0.6)
            m = {"name": f"R{i}", "kind": "soft", "area": sum((b[2] - b[0]) * (b[3] - b[1]) for b in boxes),
                 "center": None, "rects": [box2rect(b, "dsp" if rng.random() < 0.1 else None) for b in boxes]}
        else:
            boxes = disjoint_boxes(rng, W, H, q, rng.choice([1, 1, 2, 3]))
            m = {"name": f"H{i}", "kind": "hard", "rects": [box2rect(b) for b in boxes]}
        modules.append(m)
    return modules


def gen_direct(rng):
    """Allocation(cells).initial_allocation(netlist): cells that are not a die decomposition, so that the
    checks of _detect_fixed_rectangles can fail"""
    from harness.props.alloc_common import guillotine
    q = F(1, 4)
    x0, y0 = F(rng.randrange(0, 4), 2), F(rng.randrange(0, 4), 2)
    W, H = F(rng.randrange(2, 16), 2), F(rng.randrange(2, 16), 2)
    boxes = [list(b) for b in guillotine(rng, (x0, y0, x0 + W, y0 + H), rng.randrange(1, 8))]
    if len(boxes) > 2 and rng.random() < 0.3:
        boxes = [b for b in boxes if rng.random() < 0.75] or boxes[:1]
    rng.shuffle(boxes)
    features = ["direct"]
    modules = []
    used = set()
    for k in range(rng.choice([0, 1, 1, 2])):
        b = list(rng.choice(boxes))
        style = rng.choices(["own", "own2", "half", "union", "shared", "inside", "shifted"], [6, 2, 3, 2, 1, 2, 2])[0]
        rects = [b]
        if style == "own2" and len(boxes) >= 2:
            rects = [list(x) for x in rng.sample(boxes, 2)]
        elif style == "half":
            rects = [[b[0], b[1], (b[0] + b[2]) / 2, b[3]]]
        elif style == "union":
            for o in boxes:
                if o != b and ((o[0] == b[2] or o[2] == b[0]) and o[1] == b[1] and o[3] == b[3]):
                    rects = [[min(o[0], b[0]), b[1], max(o[2], b[2]), b[3]]]
                    break
                if o != b and ((o[1] == b[3] or o[3] == b[1]) and o[0] == b[0] and o[2] == b[2]):
                    rects = [[b[0], min(o[1], b[1]), b[2], max(o[3], b[3])]]
                    break
        elif style == "inside":
            d = rng.choice([F(1, 2 ** 12), F(1, 2 ** 30), F(1, 16)])
            rects = [[b[0] + d * (b[2] - b[0]), b[1], b[2], b[3]]]          # ratio 1 - d
        elif style == "shifted":
            d = rng.choice([F(1, 2 ** 30), F(1, 4)])
            rects = [[b[0] + d, b[1], b[2] + d, b[3]]]
        if style not in ("shared",) and any(tuple(map(tuple, [r])) in used for r in rects):
            continue
        for r in rects:
            used.add(tuple(map(tuple, [r])))
        features.append("fixed-" + style)
        modules.append({"name": f"F{k}", "kind": "fixed", "rects": [box2rect(fix_box(r)) for r in rects]})
    co_list = []
    modules += gen_modules(rng, x0 + W, y0 + H, q, features, targets=[list(b) for b in boxes], co_list=co_list,
                           others=list(modules))
    rng.shuffle(modules)
    if not modules:
        modules.append({"name": "S0", "kind": "soft", "area": F(1), "center": [x0 + W / 2, y0 + H / 2], "rects": []})
    cells = []
    for b in boxes:
        r = box2rect(b)
        cells.append({"cx": r[0], "cy": r[1], "w": r[2], "h": r[3], "fixed": rng.random() < 0.06, "hard": False,
                      "region": rng.choice(["_", "_", "dsp"]), "loc": "NOPOLY"})
    return {"stream": "exact", "form": "direct", "cells": cells, "modules": modules, "inc0": rng.random() < 0.4,
            "features": sorted(set(features)), "regions": [], "refine": None, "co": co_list}


def gen_case(rng, stream=None):
    if stream is None:
        stream = rng.choices(["exact", "direct", "decimal"], [62, 18, 20])[0]
    if stream == "direct":
        return gen_direct(rng)
    dec = stream == "decimal"
    nx, ny = rng.choice([1, 2, 3, 3, 4, 5]), rng.choice([1, 2, 3, 3, 4, 5])
    q = F(1, 10) if dec else rng.choice([F(1, 8), F(1, 4), F(1, 2), F(1, 2)])
    xs = c01.lattice_lines(rng, nx, q, 60, narrow=False)
    ys = c01.lattice_lines(rng, ny, q, 60, narrow=False)
    W, H = xs[-1], ys[-1]
    pattern = rng.choices(["random", "ring", "tjunction", "full"], [12, 3, 3, 1])[0]
    refine = None
    style = rng.random()
    if style < 0.15:
        rects = []                                          # a clean die
        r = rng.random()
        if r < 0.6:
            nr, nc = rng.choice([1, 2, 2, 4, 3]), rng.choice([1, 2, 2, 4, 3])
            dy = lambda v: (v.denominator & (v.denominator - 1)) == 0 and v.denominator <= 1024
            if nr + nc > 2 and (dec or (dy(W / nc) and dy(H / nr) and dy(W / nc / 2) and dy(H / nr / 2))):
                refine = ["grid", nr, nc]
    else:
        rects = c01.place_regions(rng, nx, ny, rng.randrange(0, 7), pattern)
    if refine is None and rng.random() < 0.4:
        refine = ["split", rng.choice([F(3, 2), F(2), F(3), F(5)]), rng.choice([1, 2, 3, 4, 6, 8, 12])]
    regions, fixed_boxes = [], []
    for (i0, j0, i1, j1) in rects:
        box = [xs[i0], ys[j0], xs[i1], ys[j1]]
        if rng.random() < 0.35:
            fixed_boxes.append(box)
        else:
            regions.append(box2rect(box, rng.choice(TAGS)))
    modules = []
    # fixed modules: one or two of the fixed boxes each
    k = 0
    while fixed_boxes:
        n = 2 if len(fixed_boxes) >= 2 and rng.random() < 0.4 else 1
        mine, fixed_boxes = fixed_boxes[:n], fixed_boxes[n:]
        modules.append({"name": f"F{k}", "kind": "fixed", "rects": [box2rect(b) for b in mine]})
        k += 1
    features = []
    co_list = []
    targets = None
    if not dec:
        # boxes that are (or may be) cells of the die: specialised regions, fixed cells, the clean die or a cell of its
        # grid, some lattice boxes
        targets = [[r[0] - r[2] / 2, r[1] - r[3] / 2, r[0] + r[2] / 2, r[1] + r[3] / 2] for r in regions if r[4] != "#"]
        targets += [list(b) for m in modules for b in
                    ([r[0] - r[2] / 2, r[1] - r[3] / 2, r[0] + r[2] / 2, r[1] + r[3] / 2] for r in m["rects"])]
        if not rects:
            if refine and refine[0] == "grid":
                nr, nc = refine[1], refine[2]
                i, j = rng.randrange(nc), rng.randrange(nr)
                targets.append([W / nc * i, H / nr * j, W / nc * (i + 1), H / nr * (j + 1)])
            else:
                targets.append([F(0), F(0), W, H])
        for _ in range(2):
            i0, j0 = rng.randrange(len(xs) - 1), rng.randrange(len(ys) - 1)
            targets.append([xs[i0], ys[j0], xs[rng.randrange(i0 + 1, len(xs))], ys[rng.randrange(j0 + 1, len(ys))]])
    modules += gen_modules(rng, W, H, q, features, SIDES_DEC if dec else SIDES, (xs, ys), targets=targets, co_list=co_list,
                           others=() if dec else list(modules))
    rng.shuffle(modules)
    if not modules:
        modules.append({"name": "S0", "kind": "soft", "area": F(1), "center": [W / 2, H / 2], "rects": []})
    return {"stream": stream, "form": "die", "W": W, "H": H, "regions": regions, "modules": modules, "refine": refine,
            "inc0": rng.random() < 0.4, "features": sorted(set(features)), "co": co_list}


# --------------------------------------------------------------------------
# the implementation
# --------------------------------------------------------------------------
def fl(x):
    if isinstance(x, F):
        return float(x)
    if isinstance(x, list):
        return [fl(v) for v in x]
    if isinstance(x, dict):
        return {k: fl(v) for k, v in x.items()}
    return x


def netlist_tree(case):
    mods = {}
    for m in case["modules"]:
        d = {}
        if m["kind"] == "fixed":
            d["fixed"] = True
        elif m["kind"] == "hard":
            d["hard"] = True
        else:
            d["area"] = fl(m["area"])
            if m.get("center") is not None:
                d["center"] = fl(m["center"])
        if m["rects"]:
            d["rectangles"] = fl(m["rects"])
        mods[m["name"]] = d
    return {"Modules": mods, "Nets": []}


# --------------------------------------------------------------------------
# extra stream: input forms, names, orders, sizes, exact ties
# --------------------------------------------------------------------------
TRICKY_NAMES = ["H1", "H1_0", "H1_io", "H1_1", "H10", "M", "M_", "M1", "M10", "_", "_0", "__", "yes", "no", "null", "on",
                "off", "true", "y", "n", "x", "A_", "a", "A"]


def rename(case, rng):
    mods = case["modules"]
    new = rng.sample(TRICKY_NAMES, len(mods)) if len(mods) <= len(TRICKY_NAMES) else None
    if new is None:
        return case
    table = {m["name"]: n for m, n in zip(mods, new)}
    case = dict(case, modules=[dict(m, name=table[m["name"]]) for m in mods])
    if case.get("co"):
        case["co"] = [dict(c, m=table[c["m"]]) for c in case["co"]]
    if "ops" in case:
        case["ops"] = [[op[0], table[op[1]]] + list(op[2:]) if op[0] not in ("probe", "alloc") else op for op in case["ops"]]
    return case


NEAR_TAGS = {"dsp": ["DSP", "Dsp", "dsp_", "dsp1", "ds", "_dsp", "dsp"], "BRAM": ["bram", "Bram", "BRAM_", "BRAM0", "BRAM"],
             "r_1": ["R_1", "r__1", "r_11", "r1", "r_", "__", "_0", "r_1"]}


def retag(case):
    """specialised regions (and module rectangles) of one die tagged with names that differ only in letter case, by a trailing /
    leading underscore or digit, or that are prefixes of each other or of the ground name (dsp / DSP / dsp_ / dsp1 / ds, __ / _0);
    blockages stay blockages.  The choice is drawn from the case itself, not from the stream's generator."""
    import random
    r2 = random.Random("retag-" + repr(case["regions"]) + repr(case.get("W")))
    regs = [r[:4] + [r2.choice(NEAR_TAGS[r[4]])] if len(r) > 4 and r[4] in NEAR_TAGS else r for r in case["regions"]]
    mods = []
    for m in case["modules"]:
        rs = [list(r[:4]) + [r2.choice(NEAR_TAGS[r[4]])] if len(r) > 4 and r[4] in NEAR_TAGS else r for r in m["rects"]]
        mods.append(dict(m, rects=rs))
    return dict(case, regions=regs, modules=mods)


def gen_tie(rng):
    """direct form: a fixed module whose share of a cell is EXACTLY the tolerance 1e-6 of _detect_fixed_rectangles
    (neither 'below' nor 'within the tolerance of 1': the assertion fails), just below it, and just above"""
    e = F(FEPS)
    k = rng.choice([10, 20, 30])
    cw = F(1, 2 ** k)                                   # cell [0, cw] x [0, h]
    h = rng.choice([F(1), F(2), F(1, 2)])
    how = rng.choice(["exact", "below", "above"])
    t = e * cw * {"exact": 1, "below": F(2 ** 20 - 1, 2 ** 20), "above": F(2 ** 20 + 1, 2 ** 20)}[how]
    cells = [{"cx": cw / 2, "cy": h / 2, "w": cw, "h": h, "fixed": False, "hard": False, "region": "_", "loc": "NOPOLY"},
             {"cx": cw + 1, "cy": h / 2, "w": F(2), "h": h, "fixed": False, "hard": False, "region": "_", "loc": "NOPOLY"}]
    # the fixed module: [-t, t] x [0, h] (centre 0: representable), sharing t * h with the first cell
    mods = [{"name": "F0", "kind": "fixed", "rects": [[F(0), h / 2, 2 * t, h]]},
            {"name": "S1", "kind": "soft", "area": F(1), "center": [cw + 1, h / 2], "rects": []}]
    return {"stream": "exact", "form": "direct", "cells": cells, "modules": mods, "inc0": False,
            "features": ["direct", "tie-" + how], "regions": [], "refine": None}


CO_DIMS = [(F(4), F(1)), (F(1), F(4)), (F(8), F(2)), (F(2), F(8)), (F(9), F(1)), (F(1), F(9)), (F(9, 4), F(1)), (F(1), F(1, 4)),
           (F(2), F(1, 2)), (F(3), F(3, 4)), (F(2), F(3)), (F(3, 2), F(4)), (F(4), F(4)), (F(2), F(2)), (F(6), F(3, 2)),
           (F(1, 2), F(2)), (F(5), F(5, 4)), (F(3), F(2))]


def gen_coincide(rng, idx):
    """the systematic stream: every (shared point) x (shape relation), in turn, on a target that IS a cell: a specialised region,
    a clean die, a cell of a gridded die, a cell of the direct form; the module as a default square where the relation gives a
    square (a soft module of area 4 centred on a 4x1 region), else as a soft / hard rectangle; plus a twin and random modules"""
    import itertools
    combos = list(itertools.product(c18.ANCHORS, c18.RELS))
    anchor, rel = combos[idx % len(combos)]
    form = ["region", "flat", "grid", "direct"][(idx // len(combos)) % 4]
    tw, th = rng.choice(CO_DIMS)
    feats = ["coincide", "coincide-" + form]
    co_list = []
    regions, refine, cells = [], None, None
    if form == "region":
        x0, y0 = F(rng.randrange(0, 13), 2), F(rng.randrange(0, 13), 2)
        W, H = x0 + tw + F(rng.randrange(0, 9), 2), y0 + th + F(rng.randrange(0, 9), 2)
        target = [x0, y0, x0 + tw, y0 + th]
        regions = [box2rect(target, rng.choice(["dsp", "BRAM", "r_1"]))]
        if x0 >= 1 and rng.random() < 0.5:                    # something else on the die, left of the target
            regions.append(box2rect([F(0), F(0), x0 / 2, H / 2], rng.choice(TAGS)))
    elif form == "flat":
        W, H = tw, th
        target = [F(0), F(0), W, H]
    elif form == "grid":
        nr, nc = rng.choice([(1, 2), (2, 1), (2, 2), (4, 2), (2, 4), (1, 4)])
        W, H = tw * nc, th * nr
        refine = ["grid", nr, nc]
        i, j = rng.randrange(nc), rng.randrange(nr)
        target = [tw * i, th * j, tw * (i + 1), th * (j + 1)]
    else:
        x0, y0 = F(rng.randrange(0, 9), 2), F(rng.randrange(0, 9), 2)
        target = [x0, y0, x0 + tw, y0 + th]
        W, H = x0 + tw + 2, y0 + th
        boxes = [target, [x0 + tw, y0, x0 + tw + 2, y0 + th]]
        if rng.random() < 0.5:
            boxes.reverse()
        cells = [{"cx": (b[0] + b[2]) / 2, "cy": (b[1] + b[3]) / 2, "w": b[2] - b[0], "h": b[3] - b[1], "fixed": False,
                  "hard": False, "region": rng.choice(["_", "_", "dsp"]), "loc": "NOPOLY"} for b in boxes]
    mods = [coincide_module(rng, "C0", target, co_list, anchor, rel)]
    if rng.random() < 0.4:
        t = twin_module(rng, "W1", mods[0])
        if t is not None:
            mods.append(t)
            feats.append("twin")
    if rng.random() < 0.4:                                    # a second coincidence on the same cell (ratios add up, may exceed 1)
        mods.append(coincide_module(rng, "C2", target, co_list))
    mods += [dict(m, name="X" + m["name"]) for m in gen_modules(rng, W, H, F(1, 4), feats, SIDES, None)[:2]]
    rng.shuffle(mods)
    case = {"stream": "exact", "form": "direct" if form == "direct" else "die", "regions": regions, "modules": mods,
            "refine": refine, "inc0": rng.random() < 0.4, "features": sorted(set(feats)), "co": co_list}
    if form == "direct":
        case["cells"] = cells
    else:
        case["W"], case["H"] = W, H
    return case


def gen_extra(rng):
    kind = rng.choice(["inform", "inform", "names", "order", "size-cells", "size-cells", "size-modules", "tie"])
    if kind == "tie":
        return gen_tie(rng)
    if kind == "size-cells":
        q = F(1, 4)
        if rng.random() < 0.5:
            nr, nc = rng.choice([(3, 3), (2, 5), (5, 2), (4, 4), (4, 8), (8, 8), (10, 10), (1, 16), (3, 11)])
            W, H = nc * F(rng.randrange(1, 5), 4), nr * F(rng.randrange(1, 5), 4)
            refine = ["grid", nr, nc]
        else:
            W, H = F(rng.randrange(8, 33), 4), F(rng.randrange(8, 33), 4)
            refine = ["split", rng.choice([F(3, 2), F(2), F(3)]), rng.choice([9, 10, 15, 16, 17, 32, 33, 64, 100])]
        feats = ["size-cells"]
        mods = gen_modules(rng, W, H, q, feats, SIDES, None)
        if not mods:
            mods = [{"name": "S0", "kind": "soft", "area": F(4), "center": [W / 2, H / 2], "rects": []}]
        return {"stream": "exact", "form": "die", "W": W, "H": H, "regions": [], "modules": mods, "refine": refine,
                "inc0": rng.random() < 0.3, "features": sorted(set(feats))}
    case = gen_case(rng, "exact")
    while case.get("form") == "direct":
        case = gen_case(rng, "exact")
    feats = set(case["features"]) | {kind}
    if kind == "inform":
        case["inform"] = {"net": rng.choice(["text", "file", "dict"]), "die": rng.choice(["text", "file", "WxH", "dict"]),
                          "ints": rng.random() < 0.5}
        if rng.random() < 0.4:
            case = rename(case, rng)
    elif kind == "names":
        case = retag(rename(case, rng))
    elif kind == "order":
        regs = list(case["regions"])
        how = rng.choice(["reversed", "shuffled", "top-down"])
        if how == "reversed":
            regs.reverse()
        elif how == "shuffled":
            rng.shuffle(regs)
        else:
            regs.sort(key=lambda r: (-r[1], -r[0]))
        mods = []
        for m in case["modules"][::-1]:
            rs = list(m["rects"])
            rng.shuffle(rs)
            mods.append(dict(m, rects=rs))
        case = dict(case, regions=regs, modules=mods)
    elif kind == "size-modules":
        W, H = case["W"], case["H"]
        mods = [m for m in case["modules"] if m["kind"] == "fixed"]
        pool = []
        while len(pool) < rng.choice([9, 10, 11, 16]):
            pool += gen_modules(rng, W, H, F(1, 4), [], SIDES, None)
        for i, m in enumerate(pool):
            m["name"] = f"{m['name'][0]}{i}"              # S1 ... S10, S11: names that are prefixes of each other
        case = dict(case, modules=mods + pool)
    case["features"] = sorted(feats)
    return case


def as_input(tree, how, ints):
    """hand the tree over in another of the forms Netlist / Die accept: YAML text, a file name, (die only) '<W>x<H>'"""
    import io
    import os
    import tempfile
    from ruamel.yaml import YAML

    def conv(x):
        if isinstance(x, dict):
            return {k: conv(v) for k, v in x.items()}
        if isinstance(x, list):
            return [conv(v) for v in x]
        if ints and isinstance(x, float) and x == int(x):
            return int(x)
        return x
    tree = conv(tree)
    if how == "dict":
        return tree, None
    if how == "WxH":
        if "regions" in tree:
            return tree, None
        return f"{tree['width']!r}x{tree['height']!r}", None
    y = YAML(typ="safe")
    y.default_flow_style = None
    buf = io.StringIO()
    y.dump(tree, buf)
    text = buf.getvalue()
    if how == "text" and ": " in text:
        return text, None
    fd, path = tempfile.mkstemp(suffix=".yaml", prefix="c03_")
    with os.fdopen(fd, "w") as f:
        f.write(text)
    return path, path


def classify(e):
    msg = str(e)
    if msg == "RCells":
        return "RCells"
    frames = [f.name for f in traceback.extract_tb(e.__traceback__)]
    if isinstance(e, ZeroDivisionError):
        return "RZeroArea" if "initial_allocation" in frames and "_calculate_areas_and_centers" in frames else None
    if "create_square" in frames:
        return "RSquare"
    if "Incorrect fixed rectangle" in msg:
        return "RFixedRatio"
    if "Incorrect number of fixed rectangles" in msg:
        return "RFixedCount"
    if "__init__" in frames and "initial_allocation" in frames:
        return "RAlloc"
    if "__init__" in frames and "create_initial_allocation" in frames:
        return "RCells"
    return None


def run_impl(case):
    if "ops" in case:
        return run_hist_impl(case)
    from frame.geometry.geometry import Rectangle
    from frame.die.die import Die
    from frame.netlist.netlist import Netlist
    from frame.allocation.allocation import Allocation, create_initial_allocation
    Rectangle.undefine_epsilon()
    tmp = []
    inform = case.get("inform", {})
    try:
        try:
            net_in, p = as_input(netlist_tree(case), inform.get("net", "dict"), inform.get("ints", False))
            tmp.append(p)
            netlist = Netlist(net_in)
            if case.get("form") == "direct":
                cells = [fr.mk_rect(d) for d in case["cells"]]
                refinable, fixed = cells, []
            else:
                tree = {"width": float(case["W"]), "height": float(case["H"])}
                if case["regions"]:
                    tree["regions"] = fl(case["regions"])
                die_in, p = as_input(tree, inform.get("die", "dict"), inform.get("ints", False))
                tmp.append(p)
                die = Die(die_in, netlist)
                rf = case["refine"]
                if rf and rf[0] == "grid":
                    die.initial_grid(rf[1], rf[2])
                elif rf and rf[0] == "split":
                    die.split_refinable_regions(float(rf[1]), rf[2])
                refinable, fixed = die.floorplanning_rectangles()
        except (AssertionError, IndexError) as e:       # not a die/netlist pair (or C11: nothing to split)
            return {"setup": "rejected", "msg": f"{type(e).__name__}: {str(e)[:160]}"}
        obs = {"setup": "ok",
               "refinable": [fr.rect_obs(r) for r in refinable], "fixed": [fr.rect_obs(r) for r in fixed],
               "modules": [{"name": m.name, "fixed": bool(m.is_fixed), "hard": bool(m.is_hard),
                            "terminal": bool(m.is_terminal), "area": m.area(),
                            "center": None if m.center is None else [m.center.x, m.center.y],
                            "rects": [fr.rect_obs(r) for r in m.rectangles]} for m in netlist.modules],
               "aeps": Rectangle.area_epsilon()}
        try:
            if case.get("form") == "direct":
                try:
                    a0 = Allocation([(r, {}, 0) for r in cells])
                except AssertionError as e:
                    raise AssertionError("RCells") from e
                a = a0.initial_allocation(netlist, bool(case["inc0"]))
            else:
                a = create_initial_allocation(die, bool(case["inc0"]))
            obs["v"] = "accept"
            obs["cells"] = [{"rect": fr.rect_obs(x.rect), "alloc": [[m, v] for m, v in x.alloc.items()],
                             "depth": x.depth} for x in a.allocations]
        except (AssertionError, ZeroDivisionError) as e:
            obs["v"] = "reject"
            obs["cls"] = classify(e)
            obs["msg"] = f"{type(e).__name__}: {str(e)[:160]}"
        return obs
    finally:
        Rectangle.undefine_epsilon()
        for p in tmp:
            if p:
                __import__("os").unlink(p)


# --------------------------------------------------------------------------
# Gallina
# --------------------------------------------------------------------------
def qsqrt(a):
    """exact root of a perfect-square rational, else None"""
    a = core.frac(a)
    if a < 0:
        return None
    n, d = math.isqrt(a.numerator), math.isqrt(a.denominator)
    if n * n == a.numerator and d * d == a.denominator:
        return F(n, d)
    return None


def gmod(m):
    c = "None" if m["center"] is None else f"(Some ({gq(m['center'][0])}, {gq(m['center'][1])}))"
    return (f"(mkMod {gstr(m['name'])} {gbool(m['fixed'])} {gbool(m['hard'])} {gq(m['area'])} {c} "
            f"{glist([fr.grect(r) for r in m['rects']])})")


def is_pow2(x):
    x = core.frac(x)
    return x > 0 and (x.numerator & (x.numerator - 1)) == 0 and (x.denominator & (x.denominator - 1)) == 0


def co_conjuncts(case, obs):
    """the coincidence modules whose target is a cell of the observed die: the module's rectangle (or default square) must be
    the model's construction (Geometry/RectCoincide.v::coincide) from that cell"""
    out = []
    cells = {rbox(r): r for r in obs["refinable"] + obs["fixed"]}
    mods = {m["name"]: m for m in obs["modules"]}
    for co in case.get("co") or []:
        cell = cells.get(tuple(core.frac(v) for v in co["t"]))
        m = mods.get(co["m"])
        if cell is None or m is None:
            continue
        if m["rects"]:
            rs = m["rects"]                  # the netlist orders the rectangles of a module its own way: one of them
        else:
            sq = qsqrt(m["area"])
            if sq is None or m["center"] is None:
                continue
            rs = [{"cx": m["center"][0], "cy": m["center"][1], "w": sq, "h": sq}]
        C = fr.grect(cell)
        out.append(f"existsb (geom_eqb (coincide {c18.GANCHOR[co['a']]} {c18.gshaperel(co)} {C} {C})) "
                   f"{glist([fr.grect(r) for r in rs])}")
    return out


def to_coq(case, obs):
    if "ops" in case:
        return hist_to_coq(case, obs)
    if obs["setup"] != "ok" or case.get("stream") == "decimal":
        return "true"                     # decimal stream: oracle only (the theorems speak about exact arithmetic)
    extra = co_conjuncts(case, obs)
    main = to_coq_main(case, obs)
    return " && ".join(extra + [f"({main})"]) if extra else main


def to_coq_main(case, obs):
    table = []
    for m in obs["modules"]:
        if not m["rects"]:
            s = qsqrt(m["area"])
            if s is None:
                raise ValueError("area of a module without rectangles is not a perfect square")
            table.append(f"({gq(m['area'])}, {gq(s)})")
    call = (f"initial_allocation (table_sqrt {glist(table)}) {gq(FEPS)} {gq(CEPS)} {gq(obs['aeps'])} {gbool(case['inc0'])} "
            f"{glist([fr.grect(r) for r in obs['refinable']])} {glist([fr.grect(r) for r in obs['fixed']])} "
            f"{glist([gmod(m) for m in obs['modules']])}")
    if obs["v"] == "reject":
        # which assertion refused the input is a statistic, not part of the comparison (the property does not state it)
        return f"agree_reject ({call}) {obs['cls'] or 'RCells'}"
    nmax = max([len(m["rects"]) for m in obs["modules"]] + [1])
    ks = []
    for c in obs["cells"]:
        area = core.frac(c["rect"]["w"]) * core.frac(c["rect"]["h"])
        ks.append("0%Z" if is_pow2(area) else f"{nmax + 2}%Z")
    cells = glist([f"(mkCell {fr.grect(c['rect'])} "
                   f"{glist([f'({gstr(m)}, {gq(v)})' for m, v in c['alloc']])} {gnat(c['depth'])})"
                   for c in obs["cells"]])
    return f"agree_accept {glist(ks)} ({call}) {cells}"


# --------------------------------------------------------------------------
# direct oracle: the property text, in exact rationals, independent of the model
# --------------------------------------------------------------------------
TOL = F(1, 2 ** 40)


def rbox(d):
    cx, cy, w, h = (core.frac(d[k]) for k in ("cx", "cy", "w", "h"))
    return (cx - w / 2, cy - h / 2, cx + w / 2, cy + h / 2)


def barea(b):
    return (b[2] - b[0]) * (b[3] - b[1])


def shape_of(m, cm=None):
    """the module's shape: its rectangles (as the netlist holds them), or the square of its area around its
    centre (from the generated description `cm`, so that the root is exact also for decimal sides)"""
    if m["rects"]:
        return [rbox(r) for r in m["rects"]]
    if cm is not None:
        area = sum(cm["area"].values()) if isinstance(cm["area"], dict) else cm["area"]
        centre = cm.get("center")
    else:
        area, centre = m["area"], m["center"]
    if centre is None:
        return None
    s = qsqrt(area)
    if s is None or s <= 0:
        return None
    cx, cy = core.frac(centre[0]), core.frac(centre[1])
    return [(cx - s / 2, cy - s / 2, cx + s / 2, cy + s / 2)]


def oracle_one(case, obs):
    if obs["setup"] != "ok":
        return None
    mods = obs["modules"]
    if any(m["terminal"] for m in mods):
        return None
    dec = case.get("stream") == "decimal"
    tol = F(1, 10 ** 9) if dec else TOL       # on ratios and areas
    tola = F(1, 10 ** 9) if dec else F(0)     # an overlap up to this area is rounding noise of decimal coordinates
    cmods = {m["name"]: m for m in case["modules"]}
    shapes = {}
    for m in mods:
        sh = shape_of(m, cmods.get(m["name"]))
        if sh is None:
            return None                                     # no shape defined: outside the property
        for i in range(len(sh)):
            for j in range(i + 1, len(sh)):
                if box_ov(sh[i], sh[j]) > tola:
                    return None                             # own rectangles overlap: outside the property
        shapes[m["name"]] = sh
    incells = obs["refinable"] + obs["fixed"]
    allc = [rbox(r) for r in incells]
    if not allc:
        return None                                         # no cell at all
    for i in range(len(allc)):
        for j in range(i + 1, len(allc)):
            if box_ov(allc[i], allc[j]) > tola:
                return None
    fixed_mods = [m for m in mods if m["fixed"]]
    fixedc = [b for m in fixed_mods for b in shapes[m["name"]]]
    # "compatible": the fixed modules' rectangles are cells of the die, each of one module only,
    # and no other cell is fixed beforehand
    if len(set(fixedc)) != len(fixedc) or any(b not in allc for b in fixedc):
        return None
    if any(r["fixed"] and rbox(r) not in fixedc for r in incells):
        return None
    refin = [b for b in allc if b not in fixedc]

    def covered(cell, name):
        return sum((box_ov(cell, r) for r in shapes[name]), F(0))

    def avail(m):
        return shapes[m["name"]] if m["fixed"] else refin

    touches = {m["name"]: any(covered(c, m["name"]) > tola for c in avail(m)) for m in mods}
    if case["inc0"] and not all(touches.values()):
        return None                                         # zero entries only when every module touches some cell
    if obs["v"] != "accept":
        return f"a valid die/netlist pair was rejected{' (decimal coordinates)' if dec else ''}: {obs.get('msg', '')[:140]}"
    cells = obs["cells"]
    out = []
    for c in cells:
        al = {}
        for name, v in c["alloc"]:
            if name in al:
                return "a module is listed twice in a cell"
            al[name] = core.frac(v)
        out.append((rbox(c["rect"]), al, c["rect"]["fixed"]))
    names = {m["name"] for m in mods}
    for b, al, _ in out:
        for name in al:
            if name not in names:
                return "a cell lists an unknown module"
    # every cell of the die appears exactly once
    if sorted(b for b, _, _ in out) != sorted(allc):
        return "the cells of the allocation are not the refinable and fixed cells of the die"
    fixed_set = set(fixedc)
    for m in fixed_mods:
        own = sorted(shapes[m["name"]])
        got = sorted(b for b, al, _ in out if al.get(m["name"], F(0)) > (tol if dec else 0))
        if got != own:
            return "fixed-ownership: a fixed module is allocated to cells other than exactly its own rectangles"
    for b, al, fx in out:
        if b in fixed_set:
            owner = [m["name"] for m in fixed_mods if b in shapes[m["name"]]]
            if len(owner) != 1:
                return None
            if al != {owner[0]: F(1)}:
                return "fixed-ownership: a fixed module's cell is not wholly and only its own"
            if not fx:
                return "fixed-ownership: a fixed module's cell is not marked fixed"
            continue
        if fx:
            return "a refinable cell is marked fixed"
        for m in mods:
            want = F(0) if m["fixed"] else covered(b, m["name"]) / barea(b)
            got = al.get(m["name"])
            if got is None:
                if want * barea(b) > tola:
                    return "listing: a module covering part of a cell is not listed in it"
                continue
            if abs(got - want) > tol:
                return (f"ratio: cell {tuple(map(float, b))} module {m['name']}: recorded {float(got)!r}, "
                        f"covered fraction {float(want)!r}")
            if want == 0 and not case["inc0"] and not dec:
                return "listing: a module is listed in a cell it does not cover"
    for m in mods:
        got = sum((al.get(m["name"], F(0)) * barea(b) for b, al, _ in out), F(0))
        want = sum((covered(c, m["name"]) for c in avail(m)), F(0))
        if abs(got - want) > tol * max(F(1), want):
            return f"area: module {m['name']} is allocated {float(got)!r}, its shape covers {float(want)!r} of its cells"
    return None




# --------------------------------------------------------------------------
# object histories: the netlist / die objects are exercised and mutated before (and between) allocations
# --------------------------------------------------------------------------
def _mods_obs(netlist):
    return [{"name": m.name, "fixed": bool(m.is_fixed), "hard": bool(m.is_hard), "terminal": bool(m.is_terminal),
             "area": m.area(), "center": None if m.center is None else [m.center.x, m.center.y],
             "rects": [fr.rect_obs(r) for r in m.rectangles],
             "shared": bool(m.num_rectangles > 0 and m.center is not None and m.rectangles[0].center is m.center)}
            for m in netlist.modules]


def _alloc_obs(die, inc0):
    from frame.allocation.allocation import create_initial_allocation
    o = {}
    try:
        a = create_initial_allocation(die, bool(inc0))
        o["v"] = "accept"
        o["cells"] = [{"rect": fr.rect_obs(x.rect), "alloc": [[m, v] for m, v in x.alloc.items()],
                       "depth": x.depth} for x in a.allocations]
    except (AssertionError, ZeroDivisionError) as e:
        o["v"] = "reject"
        o["cls"] = classify(e)
        o["msg"] = f"{type(e).__name__}: {str(e)[:160]}"
    return o


def run_hist_impl(case):
    from frame.geometry.geometry import Rectangle, Point, Shape
    from frame.die.die import Die
    from frame.netlist.netlist import Netlist
    Rectangle.undefine_epsilon()
    try:
        try:
            netlist = Netlist(netlist_tree(case))
            tree = {"width": float(case["W"]), "height": float(case["H"])}
            if case["regions"]:
                tree["regions"] = fl(case["regions"])
            die = Die(tree, netlist)
            rf = case["refine"]
            if rf and rf[0] == "grid":
                die.initial_grid(rf[1], rf[2])
            elif rf and rf[0] == "split":
                die.split_refinable_regions(float(rf[1]), rf[2])
        except (AssertionError, IndexError) as e:
            return {"setup": "rejected", "msg": f"{type(e).__name__}: {str(e)[:160]}"}

        def cells():
            refinable, fixed = die.floorplanning_rectangles()
            return [fr.rect_obs(r) for r in refinable], [fr.rect_obs(r) for r in fixed]

        refinable, fixed = cells()
        obs = {"setup": "ok", "refinable": refinable, "fixed": fixed, "modules": _mods_obs(netlist),
               "aeps": Rectangle.area_epsilon(), "eps": Rectangle.distance_epsilon(), "steps": []}
        for op in case["ops"]:
            rec = {"raised": False}
            try:
                if op[0] == "probe":
                    rs = [r for m in netlist.modules for r in m.rectangles]
                    cs = [r for l in die.floorplanning_rectangles() for r in l]
                    for r in rs:
                        _ = r.bounding_box
                        for c in cs:
                            c.area_overlap(r)
                    for m in netlist.modules:
                        for a in m.rectangles:
                            for b in m.rectangles:
                                a.find_location(b)
                elif op[0] == "alloc":
                    rec["pre"] = obs["steps"][-1]["post"] if obs["steps"] else obs["modules"]
                    rec.update(_alloc_obs(die, op[1]))
                    rec["raised"] = rec["v"] != "accept"
                else:
                    m = netlist.get_module(op[1])
                    if op[0] == "move_rect":
                        _, _, ri, mech, x, y = op
                        r = m.rectangles[ri]
                        if mech == "attr":
                            r.center.x = float(x)
                            r.center.y = float(y)
                        elif mech == "iadd":
                            r.center.x += float(x) - r.center.x
                            r.center.y += float(y) - r.center.y
                        else:
                            r.center = Point(float(x), float(y))
                    elif op[0] == "resize_rect":
                        _, _, ri, mech, w, h = op
                        r = m.rectangles[ri]
                        if mech == "attr":
                            r.shape.w = float(w)
                            r.shape.h = float(h)
                        else:
                            r.shape = Shape(float(w), float(h))
                    elif op[0] == "set_center":
                        _, _, mech, x, y = op
                        if mech == "attr":
                            m.center.x = float(x)
                            m.center.y = float(y)
                        else:
                            m.center = Point(float(x), float(y))
                    elif op[0] == "recenter":
                        m.recenter_rectangles()
                    elif op[0] == "create_stog":
                        m.create_stog()
                    else:
                        raise ValueError(op[0])
            except (AssertionError, ZeroDivisionError, AttributeError, IndexError) as e:
                rec["raised"] = True
                rec["msg"] = f"{type(e).__name__}: {str(e)[:120]}"
            rec["post"] = _mods_obs(netlist)
            rec["cells_same"] = cells() == (refinable, fixed)
            obs["steps"].append(rec)
        return obs
    finally:
        Rectangle.undefine_epsilon()


def ghmod(m):
    return f"(mkH {gmod(m)} {gbool(m['shared'])})"


def gnop(op, names):
    mech = lambda s: "WSetter" if s == "setter" else "WInPlace"
    if op[0] == "probe":
        return "NProbe"
    if op[0] == "alloc":
        return f"NAlloc {gbool(op[1])}"
    mi = gnat(names.index(op[1]))
    if op[0] == "move_rect":
        return f"NMoveRect {mech(op[3])} {mi} {gnat(op[2])} {gq(op[4])} {gq(op[5])}"
    if op[0] == "resize_rect":
        return f"NResizeRect {mech(op[3])} {mi} {gnat(op[2])} {gq(op[4])} {gq(op[5])}"
    if op[0] == "set_center":
        return f"NSetCenter {mech(op[2])} {mi} {gq(op[3])} {gq(op[4])}"
    if op[0] == "recenter":
        return f"NRecenter {mi}"
    if op[0] == "create_stog":
        return f"NCreateStog {mi}"
    raise ValueError(op[0])


def hist_to_coq(case, obs):
    if obs["setup"] != "ok":
        return "true"
    names = [m["name"] for m in obs["modules"]]
    table = {}
    for st in [obs["modules"]] + [r["post"] for r in obs["steps"]]:
        for m in st:
            if not m["rects"] or m["shared"]:
                sq = qsqrt(m["area"])
                if sq is None:
                    raise ValueError("area of a module without rectangles is not a perfect square")
                table[core.frac(m["area"])] = sq
    tab = glist([f"({gq(a)}, {gq(v)})" for a, v in sorted(table.items())])
    steps = []
    for op, rec in zip(case["ops"], obs["steps"]):
        if not rec["cells_same"]:
            raise ValueError("an operation changed the cells of the die")
        o = "NONone"
        if op[0] == "alloc":
            if rec["v"] == "reject":
                o = f"(NOReject {rec['cls'] or 'RCells'})"
            else:
                nmax = max([len(m["rects"]) for m in rec["pre"]] + [1])
                ks = ["0%Z" if is_pow2(core.frac(c["rect"]["w"]) * core.frac(c["rect"]["h"])) else f"{nmax + 2}%Z"
                      for c in rec["cells"]]
                cells = glist([f"(mkCell {fr.grect(c['rect'])} "
                               f"{glist([f'({gstr(m)}, {gq(v)})' for m, v in c['alloc']])} {gnat(c['depth'])})"
                               for c in rec["cells"]])
                o = f"(NOAccept {glist(ks)} {cells})"
        steps.append(f"({gnop(op, names)}, {gbool(rec['raised'])}, {o}, {glist([ghmod(m) for m in rec['post']])})")
    return (f"nhist_check (table_sqrt {tab}) {gq(FEPS)} {gq(CEPS)} {gq(obs['aeps'])} {gq(obs['eps'])} {gq(obs['aeps'])} "
            f"{glist([fr.grect(r) for r in obs['refinable']])} {glist([fr.grect(r) for r in obs['fixed']])} "
            f"{glist([ghmod(m) for m in obs['modules']])} {glist(steps)}")


def hist_oracle(case, obs):
    """every allocation of the history judged on its own, on the modules as read back just before it"""
    if obs["setup"] != "ok":
        return None
    for k, (op, rec) in enumerate(zip(case["ops"], obs["steps"])):
        if op[0] != "alloc":
            continue
        sub_case = dict(case, modules=[], inc0=op[1])
        sub_obs = {"setup": "ok", "refinable": obs["refinable"], "fixed": obs["fixed"], "modules": rec["pre"],
                   "v": rec["v"], "cells": rec.get("cells"), "msg": rec.get("msg", "")}
        why = oracle_one(sub_case, sub_obs)
        if why:
            return f"{why} [operation {k} of the history: {' '.join(map(str, op))}]"
    return None


def hist_shrink(case):
    ops = case["ops"]
    for k in range(len(ops) - 1):
        yield dict(case, ops=ops[:k] + ops[k + 1:])
    used = {op[1] for op in ops if op[0] not in ("probe", "alloc")}
    mods = case["modules"]
    for i in range(len(mods)):
        if len(mods) > 1 and mods[i]["name"] not in used and mods[i]["kind"] != "fixed":
            yield dict(case, modules=mods[:i] + mods[i + 1:])
    if case["refine"]:
        yield dict(case, refine=None)


def centroid_dyadic(boxes):
    a = sum(((b[2] - b[0]) * (b[3] - b[1]) for b in boxes), F(0))
    if a == 0:
        return None
    x = sum(((b[0] + b[2]) / 2 * (b[2] - b[0]) * (b[3] - b[1]) for b in boxes), F(0)) / a
    y = sum(((b[1] + b[3]) / 2 * (b[2] - b[0]) * (b[3] - b[1]) for b in boxes), F(0)) / a
    ok = all(v.denominator & (v.denominator - 1) == 0 and v.denominator <= 2 ** 20 for v in (x, y))
    return (x, y) if ok else None


def gen_hist(rng):
    """a die-form exact case whose netlist is exercised and mutated through the public API before it is allocated"""
    template = rng.choice(["stale-box", "stale-box", "alloc-move-alloc", "alloc-move-alloc", "recenter", "square-alias",
                           "alloc-twice", "resize", "stog", "random", "random"])
    for _ in range(200):
        case = gen_case(rng, "exact")
        movable = [m for m in case["modules"] if m["kind"] != "fixed"]
        if not movable or "no-centre" in case["features"] or "own-overlap" in case["features"]:
            continue
        boxes = lambda m: [[r[0] - r[2] / 2, r[1] - r[3] / 2, r[0] + r[2] / 2, r[1] + r[3] / 2] for r in m["rects"]]
        if template == "recenter" and not any(m["kind"] == "hard" and centroid_dyadic(boxes(m)) for m in movable):
            continue
        if template == "square-alias" and not any(not m["rects"] for m in movable):
            continue
        if template == "stog" and not any(len(m["rects"]) > 1 for m in movable):
            continue
        if template == "resize" and not any(m["rects"] for m in movable):
            continue
        break
    W, H = case["W"], case["H"]
    q = F(1, 4)
    ops = []
    # the generator's own idea of where things are (boxes per module), to keep a module's rectangles disjoint
    cur = {m["name"]: [[r[0] - r[2] / 2, r[1] - r[3] / 2, r[0] + r[2] / 2, r[1] + r[3] / 2] for r in m["rects"]]
           for m in case["modules"]}
    centre = {m["name"]: (list(m["center"]) if m.get("center") is not None else None) for m in case["modules"]}
    squared = set()          # soft modules that got their square from an allocation
    with_rects = [m for m in movable if m["rects"]]
    squares = [m for m in movable if not m["rects"]]

    def mech():
        return rng.choice(["attr", "iadd", "setter"])

    def shift(m, dx, dy, one=None):
        """translate the module (rectangle by rectangle), or one rectangle if the result stays disjoint"""
        bs = cur[m["name"]]
        idx = range(len(bs)) if one is None else [one]
        for i in idx:
            b = bs[i]
            nb = [b[0] + dx, b[1] + dy, b[2] + dx, b[3] + dy]
            if one is not None and any(box_ov(nb, o) > 0 for j, o in enumerate(bs) if j != i):
                return False
            bs[i] = nb
            ops.append(["move_rect", m["name"], i, mech(), (nb[0] + nb[2]) / 2, (nb[1] + nb[3]) / 2])
        return True

    def delta():
        dx, dy = F(rng.randrange(-12, 13), 4), F(rng.randrange(-12, 13), 4)
        if rng.random() < 0.25:                     # an increment of exactly 0 in one axis only
            if rng.random() < 0.5:
                dx = F(0)
            else:
                dy = F(0)
        return dx, dy

    def alloc(inc0=None):
        ops.append(["alloc", case["inc0"] if inc0 is None else inc0])
        for m in squares:
            if m["name"] not in squared and centre[m["name"]] is not None:
                squared.add(m["name"])

    def move_some():
        if with_rects and (not squares or rng.random() < 0.7):
            m = rng.choice(with_rects)
            dx, dy = delta()
            if len(cur[m["name"]]) > 1 and rng.random() < 0.3:
                if not shift(m, dx, dy, one=rng.randrange(len(cur[m["name"]]))):
                    shift(m, dx, dy)
            else:
                shift(m, dx, dy)
        elif squares:
            m = rng.choice(squares)
            c = centre[m["name"]]
            if c is None:
                return
            dx, dy = delta()
            c[0], c[1] = max(F(0), c[0] + dx), max(F(0), c[1] + dy)
            if m["name"] in squared and rng.random() < 0.5:
                # the square itself, through its own centre
                ops.append(["move_rect", m["name"], 0, mech(), c[0], c[1]])
            else:
                ops.append(["set_center", m["name"], rng.choice(["attr", "setter"]), c[0], c[1]])

    if template == "stale-box":
        ops.append(["probe"])
        move_some()
        if rng.random() < 0.3:
            ops.append(["probe"])
            move_some()
    elif template == "alloc-move-alloc":
        alloc(rng.random() < 0.3)
        move_some()
        if rng.random() < 0.4:
            alloc(rng.random() < 0.3)
            move_some()
    elif template == "recenter":
        hard = [m for m in with_rects if m["kind"] == "hard" and centroid_dyadic(cur[m["name"]])]
        ops.append(["probe"] if rng.random() < 0.5 else ["alloc", False])
        if ops[-1][0] == "alloc":
            ops.pop()
            alloc(False)
        if hard:
            m = rng.choice(hard)
            cx, cy = centroid_dyadic(cur[m["name"]])
            dx, dy = delta()
            ops.append(["set_center", m["name"], rng.choice(["attr", "setter"]), cx + dx, cy + dy])
            ops.append(["recenter", m["name"]])
            cur[m["name"]] = [[b[0] + dx, b[1] + dy, b[2] + dx, b[3] + dy] for b in cur[m["name"]]]
        else:
            move_some()
        if squares and rng.random() < 0.3:
            ops.append(["recenter", rng.choice(squares)["name"]])      # asserts: not a hard module
    elif template == "square-alias":
        alloc(rng.random() < 0.3)
        for _ in range(rng.choice([1, 2])):
            move_some()
        if squares and rng.random() < 0.5:
            m = rng.choice(squares)
            if m["name"] in squared:
                ops.append(["resize_rect", m["name"], 0, rng.choice(["attr", "setter"]), F(1, 2), F(2)])
    elif template == "alloc-twice":
        alloc(rng.random() < 0.5)
        if rng.random() < 0.3:
            ops.append(["probe"])
    elif template == "resize":
        ops.append(["probe"])
        if with_rects:
            m = rng.choice(with_rects)
            i = rng.randrange(len(cur[m["name"]]))
            b = cur[m["name"]][i]
            w, h = (b[2] - b[0]) / rng.choice([1, 2, 2]), (b[3] - b[1]) / rng.choice([1, 2])
            c = ((b[0] + b[2]) / 2, (b[1] + b[3]) / 2)
            cur[m["name"]][i] = [c[0] - w / 2, c[1] - h / 2, c[0] + w / 2, c[1] + h / 2]
            ops.append(["resize_rect", m["name"], i, rng.choice(["attr", "setter"]), w, h])
        else:
            move_some()
    elif template == "stog":
        multi = [m for m in with_rects if len(m["rects"]) > 1]
        if multi:
            m = rng.choice(multi)
            dx, dy = delta()
            shift(m, dx, dy, one=rng.randrange(len(cur[m["name"]]))) or shift(m, dx, dy)
            ops.append(["create_stog", m["name"]])
            if rng.random() < 0.5:
                shift(m, -dx, -dy)
                ops.append(["create_stog", m["name"]])
        else:
            move_some()
            ops.append(["create_stog", rng.choice(movable)["name"]])
    else:
        for _ in range(rng.randrange(2, 7)):
            what = rng.choices(["probe", "alloc", "move", "stog"], [2, 2, 5, 1])[0]
            if what == "probe":
                ops.append(["probe"])
            elif what == "alloc":
                alloc(rng.random() < 0.3)
            elif what == "move":
                move_some()
            else:
                ops.append(["create_stog", rng.choice(movable)["name"]])
    alloc()
    case = dict(case, ops=ops, template=template)
    case["features"] = sorted(set(case["features"]) | {"history"})
    return case


def oracle(case, obs):
    if "ops" in case:
        return hist_oracle(case, obs)
    return oracle_one(case, obs)


def failure_key(case, why):
    why = why or ""
    if "valid die/netlist pair was rejected" in why:
        if "(decimal coordinates)" in why and "Invalid allocation" in why:
            return "C03/valid-rejected-ratio-rounding"
        return "C03/valid-rejected"
    if why.startswith("fixed-ownership") or "marked fixed" in why:
        return "C03/fixed-ownership"
    if why.startswith("ratio"):
        return "C03/ratio"
    if why.startswith("listing") or "listed twice" in why or "unknown module" in why:
        return "C03/listing"
    if why.startswith("area"):
        return "C03/area"
    if "cells of the allocation" in why:
        return "C03/cells"
    if "implementation raised" in why:
        return "C03/crash"
    return "C03/correspondence"


def shrink(case):
    if "ops" in case:
        yield from hist_shrink(case)
        return
    mods = case["modules"]
    if case.get("form") == "direct":
        cs = case["cells"]
        for i in range(len(cs)):
            if len(cs) > 1:
                yield dict(case, cells=cs[:i] + cs[i + 1:])
    for i in range(len(mods)):
        if len(mods) > 1:
            yield dict(case, modules=mods[:i] + mods[i + 1:])
    regs = case["regions"]
    for i in range(len(regs)):
        yield dict(case, regions=regs[:i] + regs[i + 1:])
    if case["refine"]:
        yield dict(case, refine=None)
    for i, m in enumerate(mods):
        if len(m["rects"]) > 1:
            for j in range(len(m["rects"])):
                m2 = dict(m, rects=m["rects"][:j] + m["rects"][j + 1:])
                if m["name"].startswith("T"):
                    continue                    # a tiling module is shrunk as a whole
                if m["kind"] == "soft":
                    m2["area"] = sum((r[2] * r[3] for r in m2["rects"]), F(0))
                yield dict(case, modules=mods[:i] + [m2] + mods[i + 1:])
    if case["inc0"]:
        yield dict(case, inc0=False)


def nontrivial(case):
    return (len(case["modules"]) >= 2 or len(case["regions"]) >= 1 or case["refine"] is not None
            or len(case.get("cells", [])) >= 2)


def run(ctx, out, replay=None):
    n = 2000 if ctx.quick() else 15000
    out.rule = ("dies on a coarse dyadic lattice (0-6 blockages / specialised regions / fixed-module rectangles, patterns as in "
                "C01; clean dies also gridded with initial_grid), optionally refined with split_refinable_regions; netlists of "
                "0-4 movable modules (soft with a centre and a perfect-square area -> square, possibly sticking out of the die or "
                "touching no cell; soft with 1-3 rectangles; hard with 1-3 rectangles) plus the fixed modules, in random order, "
                "overlapping each other, blockages and fixed cells; with and without include_area_zero; a few inputs outside "
                "the property (own rectangles overlapping, missing centre) for the reject clauses of the model; non-trivial = "
                "two or more modules, a region, or a refined die; distinct by canonical hash.  Extra stream: the netlist / die handed "
                "over as YAML text, as a file name, the die as '<W>x<H>', integral numbers as ints; module names that are prefixes "
                "of each other or YAML-special (H1 / H1_0 / H1_io / M / M_ / yes / null / on ...), S1 .. S16, with the regions of that die tagged by near-equal "
                "names (dsp / DSP / dsp_ / dsp1 / ds, BRAM / bram, r_1 / r__1 / __ / _0); regions reversed / "
                "shuffled / top-down, modules reversed, rectangles of a module shuffled; dies gridded into 9 .. 100 cells or split "
                "into 9 .. 100 regions; 9 - 16 movable modules; a fixed module whose share of a cell is exactly the tolerance "
                "1e-6, just below and just above it.  Coincidence stream (Geometry/RectCoincide.v): every combination of a shared "
                "point (centre / ll / ur / lr / ul corner) x a shape relation (same shape, same area other shape, transposed, same "
                "width, same height, same perimeter, same aspect ratio) between a module's rectangle or default square and a CELL "
                "(a specialised region, the clean die, a cell of a gridded die, a cell of the direct form; cell shapes 4x1, 8x2, "
                "9x1, 2x1/2 ... so that the square of the same area is dyadic: soft module of area 4 centred on a 4x1 region), "
                "with a twin module (identical rectangle / square in another module) and a second coincidence on the same cell; "
                "the same two module kinds occur at a lower rate in every other stream (targets: regions, fixed cells, clean die, "
                "grid cell, lattice boxes, direct cells) and hence in the histories.  Object histories: such a die-form "
                "exact case with at least one movable module, whose Netlist / Die objects go through 2-12 operations before the "
                "final allocation - templates: read the boxes then move a module in place (stale-box), allocate / move / "
                "allocate, set the module centre and recenter_rectangles, allocate then move the centre of a module that was "
                "given a square (in place: the square follows; setter: it does not) or the square itself, allocate twice, resize "
                "in place, move one rectangle and create_stog, random mixes; moves by attribute assignment, += and setters")
    cases = []
    if replay and "case" in replay:
        cases.append(fr.unjson(replay["case"]))
    cases += fr.load_corpus("C03")
    while len(cases) < n:
        cases.append(gen_case(ctx.rng))
    xrng = __import__("random").Random(f"C03-extra-{ctx.seed}")
    for _ in range(250 if ctx.quick() else 2500):
        cases.append(gen_extra(xrng))
    crng = __import__("random").Random(f"C03-coincide-{ctx.seed}")
    for k in range(280 if ctx.quick() else 2800):
        cases.append(gen_coincide(crng, k))
    nh = 700 if ctx.quick() else 6000
    hrng = __import__("random").Random(f"C03-hist-{ctx.seed}")
    for _ in range(nh):
        cases.append(gen_hist(hrng))
    out.extra["history_cases"] = nh
    for c in cases:
        if "ops" in c:
            out.count("history:" + c.get("template", "?"))
            for op in c["ops"]:
                out.count("op:" + op[0])
        for f in c.get("features", []):
            out.count("has:" + f)
        out.count("refine:" + (c["refine"][0] if c["refine"] else "none"))
        out.count("stream:" + ("direct" if c.get("form") == "direct" else c.get("stream", "exact")))
        out.count("include_zero" if c["inc0"] else "no_zero")
        for m in c["modules"]:
            out.count("module:" + (m["kind"] if m["rects"] else "square"))
    verdicts = {}

    def run_impl_counted(case):
        obs = run_impl(case)
        if obs["setup"] == "ok" and "ops" in case:
            for rec in obs["steps"]:
                if "v" in rec:
                    k = "history:" + (rec["v"] if rec["v"] == "accept" else "reject:" + str(rec["cls"]))
                    verdicts[k] = verdicts.get(k, 0) + 1
            return obs
        k = obs["setup"] if obs["setup"] != "ok" else (obs["v"] if obs["v"] == "accept" else "reject:" + str(obs["cls"]))
        verdicts[k] = verdicts.get(k, 0) + 1
        return obs

    fr.run_cases(ctx, out, cases, run_impl_counted, to_coq, oracle, failure_key, HEADER,
                 dist_key=None, nontrivial=nontrivial, shard=70, shrink=shrink)
    out.extra["verdicts"] = verdicts
