"""C01 - Die decomposition is an exact tiling of the die (frame/die/die.py, yaml_parse_die.py, gather_boundaries)."""
from fractions import Fraction as F
import io
import os
import random as _random
import re
import tempfile
import traceback

from harness import core, fr
from harness.core import gq, gstr, glist, gbool

HEADER = """From FrameModel Require Import Num.QcTac Geometry.Rect Cases.Cmp Cases.CmpC01
  Die.Boundaries Die.Cells Die.Cover Die.DieModel Die.DieInput Die.NetHistory.
Open Scope Qc_scope."""

ASSUMPTIONS = [
    "tolerances are parameters of the model; the harness passes the values the implementation used "
    "(Rectangle.distance_epsilon()/area_epsilon() read back after the call, Die._epsilon = min(W,H)*10e-12, inside tolerance max(W,H)*10e-12)",
    "the cover of the free cells is relational: the implementation's ground list is mapped to index-rectangles of the "
    "model's grid and must pass the verified checker is_cover (cover_sound); equality with the model's greedy_cover is not required",
    "on rejected descriptions the model's verdict is computed with the single-cell cover (cell_cover_is_cover); the verdict "
    "can depend on the cover only when slivers narrower than eps add up to more than aeps, which the generator avoids",
    "theorems assume eps-separated coordinates (equal or more than eps apart) and exact arithmetic; binary64 rounding is "
    "explored by the decimal stream with the direct oracle (tolerance 1e-9*max(W,H) on coordinates, 1e-9*W*H on the area sum)",
    "YAML scalars other than numbers/strings/lists (booleans, nan, inf) are not generated",
    "_check_rectangles is modelled after fixes/C01-inside-die-tolerance.diff and fixes/C01-area-sum-tolerance.diff",
    "input forms: dict, flat single-region dict, '<W>x<H>' string (float() grammar modelled on ASCII: white space, sign, point, "
    "exponent, underscores between digits, inf/nan), YAML text, file name, open stream (file object / io.StringIO), each with and "
    "without a netlist; the model gets the very string handed to Die; the YAML loader and the file system are Section variables of "
    "the model, instantiated per case with the file the harness wrote and with the tree the generated text was rendered from (number "
    "spellings restricted to those ruamel's safe loader reads as the same number: int, point, exponent, sign, '_' between digits)",
    "read_yaml is modelled as repaired by fixes/C19-read-yaml-stream.diff (the original isinstance(stream, typing.TextIO) refused every "
    "real stream: C01/valid-rejected-stream) and fixes/C19-read-yaml-text.diff (a str with a line break is a YAML text even without ': ')",
    "non-ASCII digits / spaces in the string form and exponents beyond binary64 range are not generated",
    "object reuse: that an argument object is left untouched is not demanded as such (the property does not say it): every further "
    "construction on the same objects is judged against the model on the objects as the user made them (DieInput.session), and when "
    "the harness sees an argument modified it constructs twice more (with / without the netlist); an open stream is rewound "
    "(seek(0)) by the harness between uses, a stream found closed is opened again",
    "netlist history: 'the fixed rectangles of the attached netlist' are the rectangles of the netlist's modules whose is_fixed is set, "
    "by value, at the moment Die(...) runs (read from netlist.modules right before every construction; never through "
    "Netlist.rectangles / fixed_rectangles(), which are operations of the history); mutators used: Netlist.assign_rectangles, "
    "Module.is_fixed / is_hard, Rectangle.center / shape (new objects or in place), Module.center + recenter_rectangles, "
    "Netlist.create_squares; not used: Rectangle.fixed set directly, Module.add_rectangle / clear_rectangles / create_square called "
    "behind the netlist's back, is_fixed set on a module without rectangles (module flag and rectangle flags would disagree: the "
    "property does not say which counts); flags and STOG location of the reported fixed rectangles are not compared in histories; "
    "recentring is generated only where the area-weighted centroid is a binary fraction (exact in binary64) in the exact stream; "
    "sqrt in create_square is external: the square is handed to the model (side generated, area = side^2 exact)",
]

TAGS = ["#"] * 10 + ["BRAM", "DSP", "reg1", "_x", "a_9", "Z", "BRAM", "DSP",
        # prefixes of each other, YAML-special words, words float() knows, the ground tag doubled
        "reg", "reg1_0", "null", "true", "yes", "on", "n", "inf", "nan", "x", "e5", "__", "_1", "True"]
LEGACY_TAGS = ["#", "#", "#", "BRAM", "DSP", "reg1", "_x", "a_9", "Z"]
BAD_TAGS = ["_", "9a", "a-b", "", "a b", "##", "reg.1", "BRAM ", " BRAM", "#x", "_#", "1e5", "a:b", "x,y"]


# --------------------------------------------------------------------------
# generator
# --------------------------------------------------------------------------
def lattice_lines(rng, n, quantum, maxv, narrow=True):
    """n+1 increasing lattice coordinates starting at 0, as multiples of `quantum` (Fraction)."""
    steps = []
    for _ in range(n):
        if narrow and rng.random() < 0.2:
            steps.append(1)                                  # a narrow column: near-misses
        else:
            steps.append(rng.randrange(1, max(2, maxv // n)))
    xs = [F(0)]
    for s in steps:
        xs.append(xs[-1] + s * quantum)
    return xs


def place_regions(rng, nx, ny, k, pattern):
    """k non-overlapping lattice rectangles (i0, j0, i1, j1), half-open in lattice indices."""
    occ = set()
    out = []

    def put(i0, j0, i1, j1):
        cells = {(i, j) for i in range(i0, i1) for j in range(j0, j1)}
        if not cells or cells & occ:
            return False
        occ.update(cells)
        out.append((i0, j0, i1, j1))
        return True

    if pattern == "ring" and nx >= 3 and ny >= 3:
        i = rng.randrange(1, nx - 1)
        j = rng.randrange(1, ny - 1)
        # four rectangles around the free cell (i, j): pinwheel => T-junctions + enclosed hole
        a, b = rng.randrange(0, i), rng.randrange(i + 1, nx) + 1
        c, d = rng.randrange(0, j), rng.randrange(j + 1, ny) + 1
        put(a, c, i + 1, j)          # south (covers column i)
        put(i + 1, c, b, j + 1)      # east
        put(i, j + 1, b, d)          # north
        put(a, j, i, d)              # west
    elif pattern == "full":
        # cover everything with vertical strips cut at random rows
        for i in range(nx):
            cuts = sorted(set([0, ny] + [rng.randrange(1, ny) for _ in range(rng.randrange(0, 2))])) if ny > 1 else [0, ny]
            for a, b in zip(cuts, cuts[1:]):
                put(i, a, i + 1, b)
    elif pattern == "tjunction" and nx >= 2 and ny >= 2:
        j = rng.randrange(1, ny)
        put(0, 0, nx, j) if rng.random() < 0.5 else put(0, j, nx, ny)
        i = rng.randrange(1, nx)
        if out[-1][1] == 0:
            put(i, j, min(nx, i + rng.randrange(1, 3)), ny)
        else:
            put(i, 0, min(nx, i + rng.randrange(1, 3)), j)
    if pattern == "many":
        cells = [(i, j) for i in range(nx) for j in range(ny)]
        rng.shuffle(cells)
        for (i, j) in cells[:k]:
            put(i, j, i + 1, j + 1)
        return out
    tries = 0
    while len(out) < k and tries < 40:
        tries += 1
        i0 = rng.randrange(nx)
        j0 = rng.randrange(ny)
        i1 = min(nx, i0 + rng.choice([1, 1, 2, 2, 3]))
        j1 = min(ny, j0 + rng.choice([1, 1, 2, 2, 3]))
        if rng.random() < 0.25:
            i0, i1 = (0, i1) if rng.random() < 0.5 else (i0, nx)     # push to the border
        put(i0, j0, i1, j1)
    return out[:max(k, 0)] if pattern == "random" else out


def lattice_stats(nx, ny, rects):
    """which of the interesting situations occur (on lattice indices)"""
    st = set()
    occ = {}
    for n, (i0, j0, i1, j1) in enumerate(rects):
        for i in range(i0, i1):
            for j in range(j0, j1):
                occ[(i, j)] = n
        if i0 == 0 or j0 == 0 or i1 == nx or j1 == ny:
            st.add("border")
    for a in range(len(rects)):
        for b in range(a + 1, len(rects)):
            p, q = rects[a], rects[b]
            xov = min(p[2], q[2]) - max(p[0], q[0])
            yov = min(p[3], q[3]) - max(p[1], q[1])
            if (xov == 0 and yov > 0) or (yov == 0 and xov > 0):
                st.add("touching")
                # T-junction: a corner of one lies strictly inside the shared side of the other
                if xov == 0 and not (p[1] == q[1] and p[3] == q[3]):
                    st.add("tjunction")
                if yov == 0 and not (p[0] == q[0] and p[2] == q[2]):
                    st.add("tjunction")
            if xov == 0 and yov == 0:
                st.add("corner-contact")
            if (xov == -1 and yov > 0) or (yov == -1 and xov > 0):
                st.add("near-miss")
    # enclosed hole: a component of free lattice cells that does not reach the border
    free = {(i, j) for i in range(nx) for j in range(ny)} - set(occ)
    seen = set()
    for start in list(free):
        if start in seen:
            continue
        comp, stack, border = set(), [start], False
        while stack:
            c = stack.pop()
            if c in comp:
                continue
            comp.add(c)
            i, j = c
            if i == 0 or j == 0 or i == nx - 1 or j == ny - 1:
                border = True
            for d in ((i + 1, j), (i - 1, j), (i, j + 1), (i, j - 1)):
                if d in free and d not in comp:
                    stack.append(d)
        seen |= comp
        if not border:
            st.add("hole")
    if not free:
        st.add("fully-covered")
    if nx != ny:
        st.add("nonsquare-lattice")
    return st


def gen_case(rng, stream=None):
    """A die case.  With an explicit `stream` (the callers in other property modules: C20 builds its dies from
    these) the plain generator is used: dict / flat / bare-string forms, 0-8 regions, the short tag list - none of
    the input forms, sizes, names, orders and histories that C01's own run adds."""
    legacy = stream is not None
    if stream is None:
        stream = rng.choices(["exact", "exact-eps", "decimal", "malformed", "badstring", "sd"], [42, 13, 27, 11, 3, 4])[0]
    if stream == "badstring":
        return gen_badstring(rng)
    if stream == "sd":
        return gen_sd(rng)
    nx, ny = rng.choice([1, 2, 3, 3, 4, 4, 5, 5, 6]), rng.choice([1, 2, 3, 3, 4, 4, 5, 5, 6])
    pattern = rng.choices(["random", "ring", "tjunction", "full"], [12, 5, 4, 1])[0]
    k = rng.randrange(0, 9)
    if not legacy and stream in ("exact", "decimal") and rng.random() < 0.025:
        nx, ny, pattern = 7, 7, "many"                      # many one-cell regions: 9, 10, 15, 16, 17, 32, 33
        k = rng.choice([9, 10, 15, 16, 17, 32, 33])
    if stream == "decimal":
        q = rng.choice([F(1, 10), F(1, 10), F(1, 100)])
        maxv = rng.choice([60, 600, 6000, 1000000 if q == F(1, 10) else 10000000])
        xs = lattice_lines(rng, nx, q, maxv)
        ys = lattice_lines(rng, ny, q, rng.choice([maxv, maxv, 60, 6000]))
    else:
        q = rng.choice([F(1, 8), F(1, 4), F(1, 2)]) if stream != "exact-eps" else F(1, 4)
        xs = lattice_lines(rng, nx, q, 120 if stream != "exact-eps" else 100)
        ys = lattice_lines(rng, ny, q, 120 if stream != "exact-eps" else 100)
    rects = place_regions(rng, nx, ny, k, pattern)
    stats = sorted(lattice_stats(nx, ny, rects))
    W, H = xs[-1], ys[-1]
    regions, fixed = [], []
    allfixed = not legacy and rng.random() < 0.15          # every rectangle comes from the netlist, none from the description
    for (i0, j0, i1, j1) in rects:
        box = [xs[i0], ys[j0], xs[i1], ys[j1]]
        if allfixed or rng.random() < 0.2:
            fixed.append(box)
        else:
            regions.append(box + [rng.choice(LEGACY_TAGS if legacy else TAGS)])
    case = {"stream": stream, "W": W, "H": H, "form": "dict", "eps": None, "stats": stats, "defect": None}
    if stream == "exact-eps":
        eps = F(1, 1024)
        case["eps"] = eps
        # perturb one side of some rectangles by an amount around eps
        for b in regions + fixed:
            if rng.random() < 0.5:
                side = rng.randrange(4)
                delta = rng.choice([-1, 1]) * rng.choice([F(1, 2048), F(1, 1024), F(1, 512), F(1, 1024)])
                b[side] += delta
        case["stats"] = stats + ["perturbed"]
        # a side that the duplicate removal drops (eps away from a kept boundary) and that passes exactly
        # through the centre of a cell 2*eps wide: decides whether point_inside is closed
        boxes = regions + fixed
        if len(boxes) >= 2 and rng.random() < 0.7:
            axis = rng.randrange(2)
            line = rng.choice(xs if axis == 0 else ys)
            on = [(b, s) for b in boxes for s in (axis, axis + 2) if abs(b[s] - line) <= F(1, 256)]
            if len(on) >= 2:
                (b1, s1), (b2, s2) = rng.sample(on, 2)
                sg = rng.choice([-1, 1])
                b1[s1] = line + sg * F(1, 512)
                b2[s2] = line + sg * F(1, 1024)
                case["stats"] = case["stats"] + ["centre-line"]
    if not legacy and rng.random() < 0.5:
        rng.shuffle(regions)                                 # the order in which regions are listed is arbitrary
        rng.shuffle(fixed)
    tree_regions = [[(b[0] + b[2]) / 2, (b[1] + b[3]) / 2, b[2] - b[0], b[3] - b[1], b[4]] for b in regions]
    case["fixed"] = [[(b[0] + b[2]) / 2, (b[1] + b[3]) / 2, b[2] - b[0], b[3] - b[1]] for b in fixed]
    tree = {"width": W, "height": H}
    if tree_regions:
        tree["regions"] = tree_regions
        if len(tree_regions) == 1 and rng.random() < 0.4:
            tree["regions"] = tree_regions[0]               # the flat single-rectangle form
            case["form"] = "single"
    if not legacy and stream == "exact" and rng.random() < 0.15:
        # modules that are NOT fixed but have rectangles (hard / soft): they must not appear in the die
        i0, j0 = rng.randrange(nx), rng.randrange(ny)
        b = [xs[i0], ys[j0], xs[min(nx, i0 + rng.randrange(1, 3))], ys[min(ny, j0 + rng.randrange(1, 3))]]
        case["hard"] = [[(b[0] + b[2]) / 2, (b[1] + b[3]) / 2, b[2] - b[0], b[3] - b[1], rng.choice(["hard", "soft"])]]
    if stream == "malformed":
        inject_defect(rng, case, tree, xs, ys)
    if legacy:
        if "regions" not in tree and not case["fixed"] and rng.random() < 0.3 and stream in ("exact", "decimal"):
            case["form"] = "string"                          # "<W>x<H>", plain repr spelling
        case["tree"] = tree
        return case
    if rng.random() < 0.2:
        keys = list(tree)
        rng.shuffle(keys)                                    # regions before width, height first, ...
        tree = {k: tree[k] for k in keys}
    case["tree"] = tree
    choose_form(rng, case, tree)
    if stream == "exact" and len(case["fixed"]) >= 2 and rng.random() < 0.4:
        sizes, left = [], len(case["fixed"])
        while left > 0:
            g = min(left, rng.choice([1, 2, 2, 3]))
            sizes.append(g)
            left -= g
        case["fixedgroups"] = sizes
    # history: the very same objects (description dict / str / file / rewound stream, Netlist object) handed to several
    # constructions in one process, with and without the netlist, in any order; EVERY construction is judged
    x = rng.random()
    if x < 0.27:
        case["reuse"] = [rng.choice("nb") for _ in range(rng.choice([1, 1, 1, 2, 2, 3]))]
        if rng.random() < 0.15:
            case["warm"] = "bare-first"
    elif x < 0.32:
        case["warm"] = "bare-first"
    if stream in ("exact", "decimal") and rng.random() < 0.2:
        add_net_history(rng, case, xs, ys, nx, ny, rects)
    return case


def gen_large(rng, big=False):
    """SIZE of the Hanan grid: a large, mostly free die with 16-28 one-cell regions whose sides give a cell matrix of
    24x24 .. 39x39 (70 000 .. 200 000 free index rectangles: the candidate set of the ground cover).  Two layouts:
    'perm' - n regions on a permutation, all 4n lines distinct, (2n+1)^2 cells; 'L' - regions along two borders of
    the die (touching them), distinct lines along each border, the rest of the die free.  Dyadic coordinates (exact)."""
    layout = rng.choice(["perm", "L"])
    if layout == "perm":
        n = rng.choice([16, 17, 18, 19] if big else [16, 17])
        cs = [2 * i + 1 for i in range(n)]
        rs = cs[:]
        rng.shuffle(rs)
        nx = ny = 2 * n + 1
    else:
        a, b = (rng.randrange(11, 15), rng.randrange(11, 15)) if big else (rng.randrange(11, 13), rng.randrange(11, 13))
        off = rng.choice([1, 2])                           # 1: the first region of a border is one cell away from the corner
        cs = [2 * i + off for i in range(a)] + [0] * b
        rs = [0] * a + [2 * i + off for i in range(b)]
        nx, ny = 2 * a + off, 2 * b + off
    if rng.random() < 0.5:
        cs = [nx - 1 - c for c in cs]                       # any corner of the die
    if rng.random() < 0.5:
        rs = [ny - 1 - r for r in rs]
    q = rng.choice([F(1, 4), F(1, 2), F(1, 8)])
    xs = lattice_lines(rng, nx, q, 5 * nx, narrow=False)
    ys = lattice_lines(rng, ny, q, 5 * ny, narrow=False)
    rects = [(c, r, c + 1, r + 1) for c, r in zip(cs, rs)]
    rng.shuffle(rects)
    W, H = xs[-1], ys[-1]
    regions, fixed = [], []
    for (i0, j0, i1, j1) in rects:
        box = [xs[i0], ys[j0], xs[i1], ys[j1]]
        if rng.random() < 0.15:
            fixed.append(box)
        else:
            regions.append(box + [rng.choice(TAGS)])
    if not regions:
        regions.append(fixed.pop() + ["#"])
    case = {"stream": "large", "W": W, "H": H, "form": "dict", "eps": None, "defect": None,
            "stats": sorted(lattice_stats(nx, ny, rects)) + ["large-" + layout], "matrix": [nx, ny]}
    case["fixed"] = [geom_of(b) for b in fixed]
    case["tree"] = {"width": W, "height": H, "regions": [geom_of(b) + [b[4]] for b in regions]}
    return case


# --------------------------------------------------------------------------
# the HISTORY of the attached Netlist object (model: coq/Die/NetHistory.v)
# --------------------------------------------------------------------------
def geom_of(box):
    return [(box[0] + box[2]) / 2, (box[1] + box[3]) / 2, box[2] - box[0], box[3] - box[1]]


def dyadic_small(x):
    d = x.denominator
    return d & (d - 1) == 0 and d <= 4096


def net_initial(case):
    """the modules of the generated netlist, in the order build_netlist lists them: [name, fixed, hard, square, rects]
    (values as generated; the square of a module is what create_square() makes of its centre and area)"""
    groups, rest = [], list(case["fixed"])
    for g in case.get("fixedgroups") or []:
        groups.append(rest[:g])
        rest = rest[g:]
    groups += [[r] for r in rest]
    mods = [[f"M{i}", True, True, None, [list(r) for r in g]] for i, g in enumerate(groups) if g]
    for i, r in enumerate(case.get("hard") or []):
        mods.append([f"H{i}", False, r[4] == "hard", None, [list(r[:4])]])
    for i, q in enumerate(case.get("squares") or []):
        mods.append([f"Q{i}", False, False, [q[0], q[1], q[2], q[2]], []])
    return mods


def net_apply(mods, op, conv=lambda v: v):
    """the operation on the VALUES (the Python twin of NetHistory.apply_op; exact rationals)"""
    k = op["op"]
    byname = {m[0]: m for m in mods}
    if k == "assign":
        byname[op["mod"]][4] = [[conv(v) for v in r] for r in op["rects"]]
    elif k == "fixed":
        byname[op["mod"]][1] = op["val"]
    elif k == "hard":
        byname[op["mod"]][2] = op["val"]
    elif k == "move":
        m = byname[op["mod"]]
        old = [conv(v) for v in op["old"]]
        i = m[4].index(old)
        m[4][i] = [conv(v) for v in op["new"]]
    elif k == "recenter":
        m = byname[op["mod"]]
        a = sum(r[2] * r[3] for r in m[4])
        mx = sum(r[0] * r[2] * r[3] for r in m[4]) / a
        my = sum(r[1] * r[2] * r[3] for r in m[4]) / a
        dx, dy = conv(op["center"][0]) - mx, conv(op["center"][1]) - my
        m[4] = [[r[0] + dx, r[1] + dy, r[2], r[3]] for r in m[4]]
    elif k == "squares":
        for m in mods:
            if not m[4]:
                m[4] = [[conv(v) for v in m[3]]]


def net_fixed_now(mods):
    return [list(r) for m in mods if m[1] for r in m[4]]


def net_replay(case, conv=lambda v: v):
    """the fixed rectangles every construction of the history (and the last one) is to be handed: replay on values"""
    mods = [[m[0], m[1], m[2], m[3], [[conv(v) for v in r] for r in m[4]]] for m in net_initial(case)]
    seen = []
    for op in case["nethist"]:
        if op["op"] == "die":
            seen.append(net_fixed_now(mods) if op["net"] else [])
        else:
            net_apply(mods, op, conv)
    seen.append(net_fixed_now(mods))
    return seen


def add_net_history(rng, case, xs, ys, nx, ny, rects):
    """the Netlist object is MODIFIED through its public mutators after it was read and before (and between) the
    constructions that attach it: assign_rectangles, is_fixed / is_hard, rectangle setters, recenter_rectangles,
    create_squares, reads, earlier dies.  Relocations go to free lattice boxes, so most states are valid layouts; a hard
    module made fixed where it stands and a translation that finds no room give layouts that must be refused."""
    exact = case["stream"] == "exact"
    occ = {(i, j) for (i0, j0, i1, j1) in rects for i in range(i0, i1) for j in range(j0, j1)}
    for h in case.get("hard") or []:                           # where a hard / soft module stands is not free either
        hb = box4(h)
        occ |= {(i, j) for i in range(nx) for j in range(ny)
                if xs[i] < hb[2] and xs[i + 1] > hb[0] and ys[j] < hb[3] and ys[j + 1] > hb[1]}
    spare = []
    for _ in range(30):
        if len(spare) >= 5:
            break
        i0, j0 = rng.randrange(nx), rng.randrange(ny)
        i1, j1 = min(nx, i0 + rng.choice([1, 1, 2])), min(ny, j0 + rng.choice([1, 1, 2]))
        cells = {(i, j) for i in range(i0, i1) for j in range(j0, j1)}
        if cells & occ:
            continue
        occ |= cells
        spare.append([xs[i0], ys[j0], xs[i1], ys[j1]])
    if spare and rng.random() < 0.3:
        b = spare.pop()
        side = min(b[2] - b[0], b[3] - b[1])
        case["squares"] = [[b[0] + side / 2, b[1] + side / 2, side]]
    if not case["fixed"] and not case.get("hard") and not case.get("squares"):
        if not spare:
            return
        case["fixed"] = [geom_of(spare.pop())]                 # a netlist with one fixed module to begin with
    case.pop("reuse", None)
    case.pop("warm", None)
    mods = net_initial(case)
    original = {m[0]: [list(r) for r in m[4]] for m in mods}
    W, H = case["W"], case["H"]
    ops = []

    def emit(op):
        ops.append(op)
        if op["op"] != "die":
            net_apply(mods, op)

    def with_rects():
        return [m for m in mods if m[4]]

    def disjoint(rs):
        """the rectangles of ONE module must not overlap (Netlist._create_rectangles refuses such a hard module: the
        netlist itself would be inconsistent, which is not the die's subject)"""
        bs = [box4(r) for r in rs]
        return all(ovl(bs[i], bs[j]) == (F(0), F(0)) for i in range(len(bs)) for j in range(i + 1, len(bs)))

    def gen_one():
        kind = rng.choices(["assign", "fixed", "hard", "move", "recenter", "squares", "read", "die"], [30, 22, 6, 14, 12, 8, 4, 4])[0]
        if kind == "assign":
            cands = [m for m in with_rects() if m[1]] * 3 + with_rects()
            if not cands:
                return
            m = rng.choice(cands)
            how = rng.choice(["relocate", "relocate", "extend", "restore", "same", "two"])
            if how == "restore" and m[4] != original[m[0]] and original[m[0]]:
                new = original[m[0]]
            elif how == "same":
                new = m[4]
            elif how == "extend" and spare:
                new = m[4] + [geom_of(spare.pop())]
            elif how == "two" and len(spare) >= 2:
                new = [geom_of(spare.pop()), geom_of(spare.pop())]
            elif spare:
                new = [geom_of(spare.pop())]
            else:
                return
            if not disjoint(new):
                return
            emit({"op": "assign", "mod": m[0], "rects": [list(r) for r in new]})
        elif kind == "fixed":
            cands = with_rects()
            if cands:
                m = rng.choice(cands)
                emit({"op": "fixed", "mod": m[0], "val": not m[1] if rng.random() < 0.9 else m[1]})
        elif kind == "hard":
            cands = [m for m in with_rects() if m[0][0] in "MH"]
            if cands:
                m = rng.choice(cands)
                emit({"op": "hard", "mod": m[0], "val": not m[2]})
        elif kind == "move":
            cands = with_rects()
            if cands and spare:
                m = rng.choice(cands)
                old, new = rng.choice(m[4]), geom_of(spare.pop())
                if disjoint([r for r in m[4] if r is not old] + [new]):
                    emit({"op": "move", "mod": m[0], "old": list(old), "new": new, "how": rng.choice(["objects", "inplace"])})
        elif kind == "recenter":
            cands = [m for m in with_rects() if m[0][0] in "MH"]
            if not cands:
                return
            m = rng.choice(cands)
            a = sum(r[2] * r[3] for r in m[4])
            cx, cy = sum(r[0] * r[2] * r[3] for r in m[4]) / a, sum(r[1] * r[2] * r[3] for r in m[4]) / a
            if exact and not (dyadic_small(cx) and dyadic_small(cy)):
                return
            bx = [min(r[0] - r[2] / 2 for r in m[4]), min(r[1] - r[3] / 2 for r in m[4]),
                  max(r[0] + r[2] / 2 for r in m[4]), max(r[1] + r[3] / 2 for r in m[4])]
            room = [b for b in spare if b[2] - b[0] >= bx[2] - bx[0] and b[3] - b[1] >= bx[3] - bx[1]]
            if room:
                b = rng.choice(room)
                spare.remove(b)
                dx, dy = b[0] - bx[0], b[1] - bx[1]
            elif rng.random() < 0.4:
                q = F(1, 8) if exact else F(1, 10)
                dx = rng.randrange(0, max(1, int((W - (bx[2] - bx[0])) / q) + 1)) * q - bx[0]
                dy = rng.randrange(0, max(1, int((H - (bx[3] - bx[1])) / q) + 1)) * q - bx[1]
            else:
                return
            was_fixed, was_hard = m[1], m[2]
            if was_fixed:
                emit({"op": "fixed", "mod": m[0], "val": False})
            if not was_hard:
                emit({"op": "hard", "mod": m[0], "val": True})
            if rng.random() < 0.2:
                emit({"op": "die", "net": True})                 # the die in between sees the module released, where it stood
            emit({"op": "recenter", "mod": m[0], "center": [cx + dx, cy + dy]})
            if was_fixed or rng.random() < 0.6:
                emit({"op": "fixed", "mod": m[0], "val": True})
        elif kind == "squares":
            qs = [m for m in mods if m[0][0] == "Q" and not m[4]]
            if qs:
                emit({"op": "squares"})
                if rng.random() < 0.3:
                    emit({"op": rng.choice(["die", "read"]), "net": True, "how": "num"})
                emit({"op": "fixed", "mod": qs[0][0], "val": True})
        elif kind == "read":
            emit({"op": "read", "how": rng.choice(["rectangles", "num", "fixed"])})
        else:
            emit({"op": "die", "net": rng.random() < 0.8})

    if rng.random() < 0.3:
        emit({"op": "die", "net": rng.random() < 0.85})          # a die before anything was modified
    for _ in range(rng.choice([1, 1, 1, 2, 2, 3, 4])):
        n0 = len(ops)
        gen_one()
        if len(ops) > n0:
            x = rng.random()
            if x < 0.12:
                emit({"op": "read", "how": rng.choice(["rectangles", "num", "fixed"])})   # a read refreshes what a cache keeps
            elif x < 0.4:
                emit({"op": "die", "net": rng.random() < 0.85})
    if not any(op["op"] not in ("die", "read") for op in ops):
        b = [m for m in with_rects() if m[1]]
        if b:
            emit({"op": "fixed", "mod": b[0][0], "val": False})
    case["nethist"] = ops
    case["stats"] = case["stats"] + ["netlist-history"]


def inject_defect(rng, case, tree, xs, ys):
    W, H = case["W"], case["H"]
    regs = tree.get("regions")
    if regs is not None and case["form"] == "single":
        regs = [regs]
        tree["regions"] = regs
        case["form"] = "dict"
    kinds = ["leave", "leave-neg", "unknown-key", "no-width", "bad-width", "empty-regions", "regions-not-list",
             "fixed-leaves", "fixed-leaves", "fixed-fixed", "fixed-fixed", "bad-entry"]
    if regs:
        kinds += ["overlap", "overlap", "neg-size", "zero-size", "bad-tag", "bad-tag", "arity", "not-number", "dup", "dup",
                  "dup-blockage", "dup-blockage", "leave", "fixed-overlap"]
    kind = rng.choice(kinds)
    case["defect"] = kind
    q = F(1, 8)
    if kind == "leave":
        w, h = rng.randrange(1, 9) * q, rng.randrange(1, 9) * q
        if rng.random() < 0.5:
            new = [W - w / 2 + rng.randrange(1, 5) * q, h / 2 + rng.randrange(0, 3) * q, w, h, rng.choice(TAGS)]
        else:
            new = [w / 2, H - h / 2 + rng.randrange(1, 5) * q, w, h, rng.choice(TAGS)]
        tree.setdefault("regions", []).append(new)
    elif kind == "leave-neg":
        w, h = rng.randrange(2, 9) * q, rng.randrange(2, 9) * q
        new = [w / 2 - q, h / 2, w, h, "#"] if rng.random() < 0.5 else [w / 2, h / 2 - q, w, h, "#"]
        if new[0] < 0 or new[1] < 0:
            new[0], new[1] = max(new[0], F(0)), max(new[1], F(0))
        tree.setdefault("regions", []).append(new)
    elif kind == "overlap":
        r = rng.choice(regs)
        dx = rng.choice([F(0), r[2] / 2, -r[2] / 2, r[2] / 4])
        dy = rng.choice([F(0), r[3] / 2, -r[3] / 4])
        new = [r[0] + dx, r[1] + dy, r[2], r[3], rng.choice(TAGS)]
        regs.insert(rng.randrange(len(regs) + 1), new)
    elif kind == "dup":
        regs.insert(rng.randrange(len(regs) + 1), list(rng.choice(regs)))
    elif kind == "dup-blockage":
        # two coinciding rectangles, at least one of them a blockage (same centre and shape, any order, any distance in the list)
        src = rng.choice([r for r in regs if r[4] == "#"] or regs)
        new = list(src)
        if src[4] != "#" or rng.random() < 0.3:
            new[4] = "#" if src[4] != "#" else rng.choice(TAGS)
        regs.insert(rng.randrange(len(regs) + 1), new)
    elif kind == "neg-size":
        r = rng.choice(regs)
        r[rng.choice([2, 3])] *= -1
    elif kind == "zero-size":
        r = rng.choice(regs)
        r[rng.choice([2, 3])] = F(0)
    elif kind == "bad-tag":
        r = rng.choice(regs)
        r[4] = rng.choice(BAD_TAGS + [F(3)])
    elif kind == "arity":
        i = rng.randrange(len(regs))
        regs[i] = regs[i][:4] if rng.random() < 0.5 else regs[i] + ["x"]
    elif kind == "not-number":
        r = rng.choice(regs)
        r[rng.randrange(4)] = rng.choice(["1.5", None, [F(1)]])
    elif kind == "bad-entry":
        tree.setdefault("regions", []).append(rng.choice(["abc", None, [], [[F(1), F(1), F(1), F(1), "#"]]]))
    elif kind == "unknown-key":
        tree[rng.choice(["Width", "regions2", "shape", "w"])] = F(3)
    elif kind == "no-width":
        tree.pop(rng.choice(["width", "height"]))
    elif kind == "bad-width":
        tree[rng.choice(["width", "height"])] = rng.choice([F(0), -W, "10", None, [W]])
    elif kind == "empty-regions":
        tree["regions"] = []
    elif kind == "regions-not-list":
        tree["regions"] = rng.choice(["none", F(5), None])
    elif kind == "fixed-leaves":
        w = rng.randrange(2, 9) * q
        case["fixed"].append([W, H / 2, w, min(H, w)])
    elif kind == "fixed-overlap":
        r = rng.choice(regs)
        case["fixed"].append([r[0], r[1], r[2], r[3]])
    elif kind == "fixed-fixed":
        w, h = min(W, rng.randrange(2, 9) * q), min(H, rng.randrange(2, 9) * q)
        case["fixed"].append([w / 2, h / 2, w, h])
        case["fixed"].append([w / 2 + rng.choice([F(0), w / 4]), h / 2, w, h] if w * 5 / 4 <= W else [w / 2, h / 2, w, h])


# --------------------------------------------------------------------------
# input forms: '<W>x<H>' strings, YAML text, files, streams
# --------------------------------------------------------------------------
FORMS = ["dict", "single", "string", "text", "file", "stream"]
FNAMES = ["die.yaml", "example_die.yml", "d 1.yaml", "layout.txt", "x.yaml", "die-2x.yaml"]
PLAIN_UNSAFE = {"null", "Null", "NULL", "true", "True", "TRUE", "false", "False", "FALSE", "y", "n", "yes", "no", "on", "off"}


def dec_digits(x):
    """exact decimal expansion of a non-negative rational that has a finite one: (integer digits, fractional digits)"""
    assert x >= 0
    k = 0
    while (x.numerator * 10 ** k) % x.denominator:
        k += 1
        assert k < 60
    m = x.numerator * 10 ** k // x.denominator
    return str(m // 10 ** k), (str(m % 10 ** k).zfill(k) if k else "")


def spell_number(rng, x, where):
    """one of the spellings of the rational x that float() (where='string') / the YAML loader (where='yaml')
    reads as exactly x (correctly rounded when x is not a binary64 number)"""
    if x < 0:
        return "-" + spell_number(rng, -x, where).lstrip("+")
    kind = rng.choice(["plain", "plain", "plain", "exp", "exp", "short"])
    e = 0
    if kind == "exp":
        e = rng.choice([-3, -2, -1, 0, 1, 1, 2, 3])
    ip, fp = dec_digits(x / F(10) ** e)
    if fp:
        body = ip + "." + fp
        if kind == "short" and ip == "0":
            body = "." + fp                                   # .5
    else:
        body = ip + rng.choice(["", "", ".0", "."])
    if kind != "exp" and len(ip) >= 2 and rng.random() < 0.12:
        k = rng.randrange(1, len(ip))
        body = body[:k] + "_" + body[k:]                       # 1_0 : '_' between two digits
    if where == "string" and rng.random() < 0.06:
        body = "0" * rng.choice([1, 1, 9, 17]) + body if body[0] != "." else body          # 010, 000000000010
    if "." in body and rng.random() < 0.05:
        body += "0" * rng.choice([1, 12, 16, 20, 40])          # 12.50000000000000000000 (more than 17 digits)
    if kind == "exp":
        body += rng.choice("eE") + (rng.choice(["", "+"]) if e >= 0 else "-") + str(abs(e))
    if rng.random() < 0.15:
        body = "+" + body
    return body


def render_string(case):
    """the '<W>x<H>' string of a case in string form"""
    tree = case["tree"]
    if case.get("raw") is not None:
        return case["raw"]
    sp = case.get("spell")
    if sp is None:                                             # cases recorded before the spellings existed
        t = py_tree(tree)
        return f"{t['width']!r}x{t['height']!r}"
    rng = _random.Random(sp["seed"])
    parts = []
    for key in ("width", "height"):
        b = spell_number(rng, tree[key], "string")
        if rng.random() < 0.25:
            b = rng.choice([" ", "  ", "\t", "\n", ""]) + b + rng.choice([" ", "\t ", "", "\n"])
        parts.append(b)
    return parts[0] + "x" + parts[1]


def yaml_scalar(rng, v):
    if isinstance(v, F):
        return spell_number(rng, v, "yaml")
    if isinstance(v, str):
        if IDENT.match(v) and v not in PLAIN_UNSAFE and rng.random() < 0.5:
            return v
        return rng.choice(["'%s'", '"%s"']) % v
    if v is None:
        return rng.choice(["~", "null"])
    if isinstance(v, list):
        return "[" + ", ".join(yaml_scalar(rng, u) for u in v) + "]"
    raise TypeError(type(v))


def render_text(case):
    """the YAML text of a case in text / file / stream form (deterministic in case['render'])"""
    rd = case["render"]
    rng = _random.Random(rd["seed"])
    tree = case["tree"]
    if rd["style"] == "flow":
        txt = "{" + ", ".join(f"{k}: {yaml_scalar(rng, v)}" for k, v in tree.items()) + "}" + rng.choice(["", "\n"])
    else:
        lines = []
        if rng.random() < 0.2:
            lines.append("# die description")
        if rng.random() < 0.03:
            lines.append("# " + "-" * rng.choice([4094, 4096, 5000]))      # the text is longer than 4096 characters
        if rng.random() < 0.15:
            lines.append("---")
        for k, v in tree.items():
            nested = (k == "regions" and isinstance(v, list) and v and all(isinstance(u, list) and u for u in v))
            if rd["style"] == "nextline" and not (nested and isinstance(v, list)):
                lines.append(f"{k}:")                           # no ': ' anywhere: the text is recognised by its line breaks
                lines.append(f"  {yaml_scalar(rng, v)}")
                continue
            if nested and rd["style"] in ("seq", "nested", "nextline"):
                ind = rng.choice(["", "  "])
                lines.append(f"{k}:")
                for u in v:
                    if rd["style"] in ("seq", "nextline") or not all(not isinstance(z, list) for z in u):
                        lines.append(f"{ind}- {yaml_scalar(rng, u)}")
                    else:
                        for n, z in enumerate(u):
                            lines.append(f"{ind}{'- ' if n == 0 else '  '}- {yaml_scalar(rng, z)}")
            else:
                lines.append(f"{k}: {yaml_scalar(rng, v)}" + ("   # " + k if rng.random() < 0.1 else ""))
            if rng.random() < 0.08:
                lines.append("")
        txt = "\n".join(lines) + "\n"
    td = case.get("textdefect")
    if td == "unbalanced":
        txt = txt.rstrip("\n") + "\nregions2: [[1, 2\n" if rd["style"] != "flow" else txt.rstrip("\n")[:-1]
    elif td == "dupkey":
        txt = "{width: 7, height: 7, width: 7}\n" if rd["style"] == "flow" else txt + f"{next(iter(tree))}: 1\n"
    elif td == "nondict":
        txt = "- width: 10\n- height: 9\n"
    return txt


def choose_form(rng, case, tree):
    """how the description is handed to Die(...)"""
    shape_only = (set(tree) == {"width", "height"} and all(isinstance(tree[k], F) and tree[k] > 0 for k in tree))
    if shape_only and rng.random() < 0.55:
        case["form"] = "string"
        case["spell"] = {"seed": rng.randrange(10 ** 6)}
        if rng.random() < 0.05:
            case["shadowfile"] = "width: 3\nheight: 3\n"      # a file of that very name exists: the string form wins
        return
    x = rng.random()
    if x < 0.55:
        return                                                # dict / single, as chosen before
    if case["form"] == "single":
        case["form"] = "dict"
    case["render"] = {"seed": rng.randrange(10 ** 6), "style": rng.choice(["block", "seq", "nested", "flow", "nextline"])}
    if x < 0.78:
        case["form"] = "text"
    elif x < 0.9:
        case["form"] = "file"
        case["fname"] = rng.choice(FNAMES)
    else:
        case["form"] = "stream"
        case["handle"] = rng.choice(["file", "stringio"])
    if case["stream"] == "malformed" and rng.random() < 0.25:
        case["textdefect"] = rng.choice(["unbalanced", "dupkey", "nondict"] + (["missing-file"] if case["form"] == "file" else []))
        case["defect"] = "text-" + case["textdefect"]


BAD_PARTS = ["", "1__0", "_10", "10_", "1e", "e5", "1.2.3", "+-1", "+ 1", "abc", "0b11", "1,5", "1 0", "1e_1", "1._5", ".", "--1", "1e1.5"]
NONPOS_PARTS = ["0", "-3", "0.0", "-0", "nan", "-inf", "-1e-3", "+0e5", "NaN"]


def gen_badstring(rng):
    """a str that is NOT a die: '<W>x<H>' broken in one place (the harness knows which)"""
    W, H = F(rng.randrange(1, 200), 4), F(rng.randrange(1, 200), 4)
    a, b = spell_number(rng, W, "string"), spell_number(rng, H, "string")
    kind = rng.choice(["sep", "sep", "part", "part", "part", "nonpos", "nonpos", "inf"])
    if kind == "sep":
        raw = rng.choice([a + "X" + b, a + "*" + b, a + " by " + b, a + "xx" + b, a + "x" + b + "x8", a + b, "x", a + "x",
                          a + "\nby " + b, a + "x\n" + b + "x", a + "X" + b + "\n"])
    elif kind == "part":
        bad = rng.choice(BAD_PARTS)
        raw = bad + "x" + b if rng.random() < 0.5 else a + "x" + bad
    elif kind == "nonpos":
        bad = rng.choice(NONPOS_PARTS)
        raw = bad + "x" + b if rng.random() < 0.5 else a + "x" + bad
    else:
        bad = rng.choice(["inf", "Infinity", "+INF", "iNf"])
        raw = bad + "x" + b if rng.random() < 0.5 else a + "x" + bad
    fixed = []
    if rng.random() < 0.3:
        fixed = [[W / 2, H / 2, W / 2, H / 2]]
    return {"stream": "badstring", "W": W, "H": H, "form": "string", "eps": None, "stats": [], "defect": "string-" + kind,
            "tree": {}, "fixed": fixed, "raw": raw}


SD_ALPHABET = "0123456789" * 3 + "..__++--eeEExxx  \t" + "infaINFnyX:,"


def gen_sd(rng):
    """a direct call of yaml_parse_die.string_die on a random short string (or on a mutated number pair);
    exponents of three and more digits (beyond the binary64 range: 1E934 is inf, 1E-934 is 0.0) are not generated"""
    while True:
        case = gen_sd_(rng)
        if not re.search(r"[eE][+-]?[0-9_]{3,}", case["raw"]):
            return case


def gen_sd_(rng):
    if rng.random() < 0.5:
        raw = "".join(rng.choice(SD_ALPHABET) for _ in range(rng.randrange(0, 9)))
    else:
        a = spell_number(rng, F(rng.randrange(0, 4000), rng.choice([1, 2, 4, 8, 10, 100])), "string")
        b = spell_number(rng, F(rng.randrange(0, 4000), rng.choice([1, 2, 4, 8, 10, 100])), "string")
        raw = a + "x" + b
        for _ in range(rng.randrange(0, 3)):
            k = rng.randrange(len(raw) + 1)
            raw = raw[:k] + rng.choice(SD_ALPHABET) + raw[k + rng.randrange(0, 2):]
    return {"stream": "sd", "form": "string", "raw": raw, "tree": {}, "fixed": [], "stats": [], "defect": None, "eps": None,
            "W": F(1), "H": F(1)}


# --------------------------------------------------------------------------
# running the implementation
# --------------------------------------------------------------------------
def py_value(x, as_int_ok=True):
    """the Python value handed to FRAME for a generated scalar"""
    if isinstance(x, F):
        if as_int_ok and x.denominator == 1 and abs(x) < 10 ** 6 and x.numerator % 3 == 0:
            return int(x)                                    # YAML integers occur too
        return float(x)
    if isinstance(x, list):
        return [py_value(v, as_int_ok) for v in x]
    return x


def py_tree(tree):
    return {k: py_value(v) for k, v in tree.items()}


def impl_numbers(case):
    """exact value of every number as the implementation receives it (floats of the generated rationals)"""
    def conv(x):
        if isinstance(x, F):
            return core.frac(py_value(x))
        if isinstance(x, list):
            return [conv(v) for v in x]
        return x
    return {k: conv(v) for k, v in case["tree"].items()}, [conv(r) for r in case["fixed"]]


def classify_assert(e):
    msg = str(e)
    frames = [f.name for f in traceback.extract_tb(e.__traceback__)]
    if "outside the die" in msg:
        return "ROutside"
    if "overlap" in msg.lower():
        return "ROverlap"
    if "total area" in msg:
        return "RArea"
    if "_check_rectangles" in frames:
        return "RCheck"                                      # the die's own consistency check, wording not recognised
    if frames and frames[-1] == "read_yaml":
        return "stream-type"                                 # isinstance(stream, TextIO) refused the stream object
    if "parse_yaml_die" in frames or "string_die" in frames:
        return "RParse"
    return None


def build_netlist(case):
    from frame.netlist.netlist import Netlist
    if not case["fixed"] and not case.get("hard") and not case.get("squares"):
        return None
    groups, rest = [], list(case["fixed"])
    for g in case.get("fixedgroups") or []:                  # fixed modules with several rectangles
        groups.append(rest[:g])
        rest = rest[g:]
    groups += [[r] for r in rest]
    mods = {f"M{i}": {"fixed": True, "rectangles": [py_value(r) for r in g]} for i, g in enumerate(groups) if g}
    for i, r in enumerate(case.get("hard") or []):
        mods[f"H{i}"] = ({"hard": True, "rectangles": [py_value(r[:4])]} if r[4] == "hard"
                         else {"area": float(r[2] * r[3]), "rectangles": [py_value(r[:4])]})
    for i, q in enumerate(case.get("squares") or []):
        # a soft module with centre and area and no rectangle: create_squares() gives it the square of that area
        mods[f"Q{i}"] = {"area": float(q[2] * q[2]), "center": [float(q[0]), float(q[1])]}
    if not case.get("squares"):
        mods["S"] = {"area": 1}                              # (no centre: create_squares() would refuse it)
    return Netlist({"Modules": mods, "Nets": []})


def impl_net_op(netlist, op):
    """one operation of case['nethist'] on the real Netlist object, through its public interface"""
    from frame.geometry.geometry import Point, Shape
    k = op["op"]
    if k == "assign":
        netlist.assign_rectangles({op["mod"]: [py_value(r) for r in op["rects"]]})
    elif k == "fixed":
        netlist.get_module(op["mod"]).is_fixed = op["val"]
    elif k == "hard":
        netlist.get_module(op["mod"]).is_hard = op["val"]
    elif k == "move":
        m = netlist.get_module(op["mod"])
        old = [float(v) for v in op["old"]]
        # the rectangle that has the value `old` (decimal coordinates: the nearest one - a recentred rectangle holds rounded values)
        dist = lambda r: max(abs(a - b) for a, b in zip([r.center.x, r.center.y, r.shape.w, r.shape.h], old))
        r = min(m.rectangles, key=dist)
        if dist(r) > 1e-9 * max(1.0, max(abs(v) for v in old)):
            raise ValueError("no rectangle with that value")
        x, y, w, h = (float(v) for v in op["new"])
        if op.get("how") == "inplace":
            r.center.x, r.center.y = x, y
            r.shape.w, r.shape.h = w, h
        else:
            r.center = Point(x, y)
            r.shape = Shape(w, h)
    elif k == "recenter":
        m = netlist.get_module(op["mod"])
        m.center = Point(float(op["center"][0]), float(op["center"][1]))
        m.recenter_rectangles()
    elif k == "squares":
        netlist.create_squares()
    elif k == "read":
        how = op.get("how")
        if how == "rectangles":
            len(netlist.rectangles)
        elif how == "fixed":
            netlist.fixed_rectangles()
        else:
            _ = netlist.num_rectangles


def modules_fixed_now(netlist):
    """the fixed rectangles of the netlist taken from its MODULES, by value (never through Netlist.rectangles /
    fixed_rectangles(): reading those is an operation of the history)"""
    return [fr.rect_obs(r) for m in netlist.modules if m.is_fixed for r in m.rectangles]


def input_text(case):
    """the text / string of the case, as handed to Die (None for dict forms)"""
    form = case["form"]
    if form == "string":
        return render_string(case)
    if form in ("text", "file", "stream"):
        return render_text(case)
    return None


def run_sd(case):
    from frame.die.yaml_parse_die import string_die
    try:
        sh = string_die(case["raw"])
    except AssertionError:
        return {"sd": 1}
    if sh is None:
        return {"sd": 0}
    if sh.w in (float("inf"),) or sh.h in (float("inf"),):
        return {"sd": 2}
    return {"sd": 3, "w": sh.w, "h": sh.h}


def run_impl(case):
    from frame.geometry.geometry import Rectangle
    from frame.die.die import Die
    Rectangle.undefine_epsilon()
    if case["stream"] == "sd":
        return run_sd(case)
    cwd = os.getcwd()
    tmp = None
    handles = []
    try:
        if case.get("eps") is not None:
            Rectangle.set_epsilon(float(case["eps"]))
        netlist = build_netlist(case)
        tree = py_tree(case["tree"])
        form = case["form"]
        txt = input_text(case)
        if form not in ("dict", "single"):
            # strings that are neither '<W>x<H>' nor YAML text are opened as files: run in an empty directory
            tmp = tempfile.mkdtemp(prefix="verif-c01-")
            os.chdir(tmp)
        state = {}

        def make_stream():
            """the object handed to Die: created ONCE per case and handed to every construction of the history (a dict is
            the same dict, a str the same str, a file the same file, an open stream the same stream rewound by its owner)"""
            if "obj" in state:
                obj = state["obj"]
                if form == "stream":
                    try:
                        obj.seek(0)
                    except ValueError:                      # closed by a reader: the owner opens it again
                        state.pop("obj")
                        return make_stream()
                return obj
            if form == "string":
                if case.get("shadowfile"):
                    with open(txt, "w") as f:
                        f.write(case["shadowfile"])
                obj = txt
            elif form == "text":
                obj = txt
            elif form == "file":
                if case.get("textdefect") != "missing-file":
                    with open(case["fname"], "w") as f:
                        f.write(txt)
                obj = case["fname"]
            elif form == "stream":
                if case["handle"] == "file":
                    with open("stream.yaml", "w") as f:
                        f.write(txt)
                    handles.append(open("stream.yaml"))
                    obj = handles[-1]
                else:
                    obj = io.StringIO(txt)
            else:
                obj = py_tree(case["tree"])
                state["copy"] = repr(py_tree(case["tree"]))
            state["obj"] = obj
            return obj

        w, h = tree.get("width"), tree.get("height")
        ok = all(isinstance(v, (int, float)) and not isinstance(v, bool) for v in (w, h))
        hist = case.get("nethist")
        if hist is not None:
            fixed_in = []
        else:
            fixed_in = [fr.rect_obs(r) for r in netlist.fixed_rectangles()] if netlist is not None else []

        def construct(with_netlist):
            """one construction on the shared objects, observed"""
            net = netlist if with_netlist else None
            stream = make_stream()
            obs = {}
            if hist is not None:
                obs["mods_now"] = modules_fixed_now(netlist) if net is not None else []
            try:
                die = Die(stream, net) if net is not None else Die(stream)
                obs["v"] = "accept"
                obs["ground"] = [fr.rect_obs(r) for r in die.ground_regions]
                obs["spec"] = [fr.rect_obs(r) for r in die.specialized_regions]
                obs["block"] = [fr.rect_obs(r) for r in die.blockages]
                obs["fixed"] = [fr.rect_obs(r) for r in die.fixed_regions]
                obs["x"] = list(getattr(die, "_x", []))
                obs["y"] = list(getattr(die, "_y", []))
                obs["WH"] = [die.width, die.height]
            except AssertionError as e:
                obs["v"] = "reject"
                obs["cls"] = classify_assert(e)
                obs["msg"] = str(e)[:200]
            except Exception as e:
                if form in ("dict", "single"):
                    raise
                # a str / stream that cannot be read: OSError, the YAML loader's errors
                frames = [f.name for f in traceback.extract_tb(e.__traceback__)]
                obs["v"] = "raise"
                obs["exc"] = type(e).__name__
                obs["in_reader"] = "read_yaml" in frames
                obs["msg"] = str(e)[:200]
            # the fixed rectangles the netlist had BEFORE any construction: what the user handed over
            obs["fixed_in"] = fixed_in if net is not None else []
            obs["eps"] = Rectangle.distance_epsilon() if Rectangle.epsilon_defined() else 0.0
            obs["aeps"] = Rectangle.area_epsilon() if Rectangle.epsilon_defined() else 0.0
            obs["deps"] = min(w, h) * 10e-12 if ok else 0.0
            obs["tin"] = max(w, h) * 10e-12 if ok else 0.0
            return obs

        # history: earlier constructions in the same process; legacy 'warm' steps are not judged (fresh objects in
        # cases recorded before 'reuse' existed), 'reuse' steps are constructions on the SAME objects and are judged
        warm = case.get("warm")
        try:
            if warm == "twice":
                construct(True)
            elif warm == "no-netlist-first":
                construct(False)
            elif warm == "bare-first" and ok:
                Die({"width": tree["width"], "height": tree["height"]}, netlist)
        except Exception:
            pass
        steps = []
        if hist is not None:
            # the Netlist object is modified through its public mutators before / between the constructions
            for k, op in enumerate(hist):
                if op["op"] == "die":
                    steps.append(dict(construct(op["net"]), step="n" if op["net"] else "b"))
                    continue
                try:
                    impl_net_op(netlist, op)
                except (AssertionError, ZeroDivisionError, StopIteration, ValueError) as e:
                    # the history itself was refused (only in shrunk / hand-written cases): nothing after it is judged
                    return {"v": "history-refused", "at": k, "msg": f"{type(e).__name__}: {e}"[:200], "steps": steps}
            obs = construct(True)
            obs["steps"] = steps
            return obs
        for st in case.get("reuse") or []:
            with_net = (st == "n")
            steps.append(dict(construct(with_net), step=st))
        obs = construct(True)
        mutated = "copy" in state and repr(state.get("obj")) != state["copy"]
        if netlist is not None and [fr.rect_obs(r) for r in netlist.fixed_rectangles()] != fixed_in:
            mutated = True
        if case.get("reuse"):
            if mutated:
                # an argument was modified by a construction: it is used once more in both ways (judged like the others)
                for st in "bn":
                    steps.append(dict(construct(st == "n"), step=st, after_mutation=True))
            obs["steps"] = steps
            obs["mutated"] = mutated
        return obs
    finally:
        for hd in handles:
            hd.close()
        os.chdir(cwd)
        if tmp is not None:
            import shutil
            shutil.rmtree(tmp, ignore_errors=True)
        Rectangle.undefine_epsilon()


# --------------------------------------------------------------------------
# Gallina
# --------------------------------------------------------------------------
def gtree(x):
    if isinstance(x, F):
        return f"(YNum {gq(x)})"
    if isinstance(x, str):
        return f"(YStr {gstr(x)})"
    if isinstance(x, list):
        return "(YList " + glist([gtree(v) for v in x]) + ")"
    return "YOther"


def gtext(s):
    """a Gallina string that may contain new lines and tabs"""
    assert all(32 <= ord(c) < 127 or c in "\n\t" for c in s), s
    parts = re.split(r"([\n\t])", s)
    out = []
    for t in parts:
        if t == "\n":
            out.append("nl")
        elif t == "\t":
            out.append("tab")
        elif t:
            out.append('"' + t.replace('"', '""') + '"')
    if not out:
        return '""%string'
    return "(" + " ++ ".join(out) + ")%string"


def gentries(tree):
    return glist([f"({gstr(k)}, {gtree(v)})" for k, v in tree.items()])


def model_input(case):
    """(the die_input term, the files, the loader's table) of a case"""
    tree, _ = impl_numbers(case)
    form = case["form"]
    if form in ("dict", "single"):
        return f"(InMap {gentries(tree)})", "[]", "[]"
    txt = input_text(case)
    if form == "string":
        files = "[]"
        loads = "[]"
        if case.get("shadowfile"):
            files = f"[({gtext(txt)}, {gtext(case['shadowfile'])})]"
            loads = f"[({gtext(case['shadowfile'])}, LMap [(\"width\"%string, YNum (qc 3 1)); (\"height\"%string, YNum (qc 3 1))])]"
        return f"(InStr {gtext(txt)})", files, loads
    td = case.get("textdefect")
    load = "LErr" if td in ("unbalanced", "dupkey") else "LOther" if td == "nondict" else f"(LMap {gentries(tree)})"
    loads = f"[({gtext(txt)}, {load})]"
    if form == "text":
        return f"(InStr {gtext(txt)})", "[]", loads
    if form == "file":
        files = "[]" if td == "missing-file" else f"[({gtext(case['fname'])}, {gtext(txt)})]"
        return f"(InStr {gtext(case['fname'])})", files, loads
    return f"(InStream {gtext(txt)})", "[]", loads


def to_coq(case, obs):
    if case["stream"] == "sd":
        w, h = (gq(obs["w"]), gq(obs["h"])) if obs["sd"] == 3 else ("0", "0")
        return f"sd_agrees {gtext(case['raw'])} {obs['sd']} {w} {h}"
    if case["stream"] == "decimal":
        return "true"                     # oracle only: the theorems speak about exact arithmetic
    inp, files, loads = model_input(case)
    if case.get("nethist") is not None:
        return nethist_to_coq(case, obs, inp, files, loads)
    if obs.get("steps") is None:
        fx = glist([fr.grect(d) for d in obs["fixed_in"]])
        return step_to_coq(obs, files, loads, inp, fx)
    # the same objects handed to several constructions: the model's session (DieInput.session) says what each
    # construction sees - the objects as the user made them - and each observation is compared on that
    allobs = obs["steps"] + [dict(obs, step="n")]
    fx = glist([fr.grect(d) for d in next((o["fixed_in"] for o in allobs if o["step"] == "n"), [])])
    flags = glist([gbool(o["step"] == "n") for o in allobs])
    chks = glist(["(fun i fx => " + step_to_coq(o, files, loads, "i", "fx") + ")" for o in allobs])
    return f"agree_steps (session (fun i fx => (i, fx)) (mkObjs {inp} {fx}) {flags}) {chks}"


def conv_impl(x):
    """the exact value of a generated number as the implementation receives it"""
    return core.frac(py_value(x))


def ggeom(r):
    return "(mkGeom " + " ".join(gq(conv_impl(v)) for v in r[:4]) + ")"


def gnetop(op):
    k = op["op"]
    if k == "assign":
        return f"(OAssign {gstr(op['mod'])} {glist([ggeom(r) for r in op['rects']])})"
    if k == "fixed":
        return f"(OSetFixed {gstr(op['mod'])} {gbool(op['val'])})"
    if k == "hard":
        return f"(OSetHard {gstr(op['mod'])} {gbool(op['val'])})"
    if k == "move":
        return f"(OMove {gstr(op['mod'])} {ggeom(op['old'])} {ggeom(op['new'])})"
    if k == "recenter":
        return f"(ORecenter {gstr(op['mod'])} {gq(conv_impl(op['center'][0]))} {gq(conv_impl(op['center'][1]))})"
    if k == "squares":
        return "OSquares"
    if k == "read":
        return "ORead"
    return f"(ODie {gbool(op['net'])})"


def gnetstate(case):
    return glist([f"(mkMod {gstr(m[0])} {gbool(m[1])} {gbool(m[2])} {'(Some ' + ggeom(m[3]) + ')' if m[3] else 'None'} "
                  f"{glist([ggeom(r) for r in m[4]])})" for m in net_initial(case)])


def nethist_to_coq(case, obs, inp, files, loads):
    """the history on the model's netlist (Die/NetHistory.v): the model says what every construction is handed (the
    fixed rectangles of the modules at that moment), each observed outcome is compared on that"""
    st = gnetstate(case)
    if obs["v"] == "history-refused":
        return f"ops_refused {st} {glist([gnetop(op) for op in case['nethist'][:obs['at'] + 1]])}"
    ops = glist([gnetop(op) for op in case["nethist"]] + ["(ODie true)"])
    allobs = obs["steps"] + [obs]
    chks = glist(["(fun i fx => " + step_to_coq(o, files, loads, "i", "fx", geometry_only=True) + ")" for o in allobs])
    return f"agree_nsteps (nsession (fun i fx => (i, fx)) {inp} {st} {ops}) {chks}"


def step_to_coq(obs, files, loads, inp, fx, geometry_only=False):
    pars = f"{gq(obs['eps'])} {gq(obs['aeps'])} {gq(obs['deps'])} {gq(obs['tin'])}"
    world = f"{files} {loads}"
    if obs["v"] == "raise":
        return f"agree_raise_in {world} {pars} {inp} {fx}"
    if obs["v"] == "reject":
        if obs["cls"] == "stream-type":
            # the unrepaired read_yaml refuses the stream object before reading it: nothing to compare
            # (the direct oracle reports the valid descriptions refused this way: C01/valid-rejected-stream)
            return "true"
        # which assertion fired (obs['cls']) is kept for diagnosis only: the property says "rejected"
        return f"agree_reject_in {world} {pars} {inp} {fx} None"
    L = lambda k: glist([fr.grect(r) for r in obs[k]])
    FX = L("fixed")
    if geometry_only:
        # a history: the model's netlist carries geometry only (NetHistory.fixed_rect); the flags and the STOG location of the
        # reported fixed rectangles are not compared (the property: reported unchanged, with its tag)
        FX = glist([fr.grect({"cx": r["cx"], "cy": r["cy"], "w": r["w"], "h": r["h"], "fixed": True, "region": r["region"]})
                    for r in obs["fixed"]])
    return f"agree_accept_in {world} {pars} {inp} {fx} {L('ground')} {L('spec')} {L('block')} {FX}"


# --------------------------------------------------------------------------
# direct oracle (independent of the model; exact rationals)
# --------------------------------------------------------------------------
IDENT = re.compile(r"[A-Za-z_][A-Za-z0-9_]*\Z")


def isnum(x):
    return isinstance(x, F)


def well_formed(tree):
    """the documented format of a die description"""
    if any(k not in ("width", "height", "regions") for k in tree):
        return False
    if not (isnum(tree.get("width")) and isnum(tree.get("height")) and tree["width"] > 0 and tree["height"] > 0):
        return False
    if "regions" in tree:
        rl = tree["regions"]
        if not isinstance(rl, list) or not rl:
            return False
        if isnum(rl[0]):
            rl = [rl]
        for r in rl:
            if not (isinstance(r, list) and len(r) == 5 and all(isnum(v) and v >= 0 for v in r[:4])):
                return False
            if not (r[2] > 0 and r[3] > 0 and isinstance(r[4], str)):
                return False
            if r[4] == "_" or not (r[4] == "#" or IDENT.match(r[4])):
                return False
    return True


def box4(r):
    cx, cy, w, h = r[:4]
    return (cx - w / 2, cy - h / 2, cx + w / 2, cy + h / 2)


def obs_box(d):
    return box4([core.frac(d[k]) for k in ("cx", "cy", "w", "h")])


def ovl(a, b):
    w = min(a[2], b[2]) - max(a[0], b[0])
    h = min(a[3], b[3]) - max(a[1], b[1])
    return (w, h) if w > 0 and h > 0 else (F(0), F(0))


def oracle(case, obs):
    """every construction of the case is judged: the constructions on the reused objects first (in the order they were
    made), then the last one; a construction without the netlist is judged as the description alone"""
    if case["stream"] == "sd":
        return None                       # string_die alone: correspondence only
    if case.get("nethist") is not None:
        return oracle_nethist(case, obs)
    steps = obs.get("steps") or []
    for k, o in enumerate(steps + [obs]):
        sub = case if o.get("step", "n") == "n" else dict(case, fixed=[], hard=[])
        why = oracle_one(sub, o)
        if why:
            if not steps:
                return why
            net = bool(case.get("fixed") or case.get("hard"))
            seq = ", ".join("Die(d, netlist)" if net and x.get("step", "n") == "n" else "Die(d)" for x in (steps + [obs])[:k + 1])
            note = " [an argument object was modified by a construction]" if obs.get("mutated") else ""
            return f"construction {k + 1} of {seq} on the same objects: {why}{note}"
    return None


def oracle_nethist(case, obs):
    """a history of the attached Netlist object: every construction is judged against the fixed rectangles the netlist's
    MODULES had when it ran (read by value right before it: obs['mods_now']).  For the geometry (is the layout valid,
    do the regions tile) the values the history gives on paper (net_replay, exact) are used when the modules hold
    exactly them (binary coordinates) or them within 1e-9 of the die (decimal coordinates, where the description's numbers
    are exact decimals too); otherwise the values read from the modules."""
    if obs["v"] == "history-refused":
        return None
    steps = obs.get("steps") or []
    allobs = steps + [obs]
    paper = net_replay(case)
    assert len(paper) == len(allobs)
    dec = case["stream"] == "decimal"
    tol = F(1, 10 ** 9) * max(case["W"], case["H"]) if dec else F(0)
    for k, (o, want) in enumerate(zip(allobs, paper)):
        with_net = o.get("step", "n") == "n"
        now = [[core.frac(d[c]) for c in ("cx", "cy", "w", "h")] for d in o.get("mods_now") or []]
        geo = now
        a, b = sorted(want), sorted(now)
        if len(a) == len(b) and all(abs(u - v) <= tol for p, q in zip(a, b) for u, v in zip(p, q)):
            geo = want
        sub = dict(case, fixed=geo if with_net else [], hard=[], want_fixed=now if with_net else [])
        why = oracle_one(sub, o)
        if why:
            said = []
            for op in case["nethist"]:
                if op["op"] == "die":
                    said.append("Die(d, netlist)" if op["net"] else "Die(d)")
                    if len([x for x in said if x.startswith("Die(")]) > k:
                        break
                else:
                    said.append(describe_netop(op))
            if k == len(allobs) - 1:
                said.append("Die(d, netlist)")
            return f"construction {k + 1} of the history {'; '.join(said)}: {why} [the netlist was modified after it was read]"
    return None


def describe_netop(op):
    k = op["op"]
    if k == "assign":
        return f"netlist.assign_rectangles({{{op['mod']}: {[[float(v) for v in r] for r in op['rects']]}}})"
    if k == "fixed":
        return f"{op['mod']}.is_fixed = {op['val']}"
    if k == "hard":
        return f"{op['mod']}.is_hard = {op['val']}"
    if k == "move":
        return f"rectangle {[float(v) for v in op['old']]} of {op['mod']} set to {[float(v) for v in op['new']]}"
    if k == "recenter":
        return f"{op['mod']}.center = {[float(v) for v in op['center']]}; {op['mod']}.recenter_rectangles()"
    if k == "squares":
        return "netlist.create_squares()"
    return "netlist." + {"rectangles": "rectangles", "fixed": "fixed_rectangles()"}.get(op.get("how"), "num_rectangles")


def oracle_one(case, obs):
    tree = case["tree"]
    dec = case["stream"] == "decimal"
    if not well_formed(tree) or case.get("textdefect") or case.get("raw") is not None:
        return None if obs["v"] in ("reject", "raise") else "a malformed description was accepted"
    if obs["v"] == "raise":
        obs = dict(obs, v="reject", msg=f"raised {obs['exc']}: {obs['msg']}")
    W, H = tree["width"], tree["height"]
    rl = tree.get("regions", [])
    if rl and isnum(rl[0]):
        rl = [rl]
    inputs = [box4(r) for r in rl] + [box4(r) for r in case["fixed"]]
    eps, aeps, deps = core.frac(obs["eps"]), core.frac(obs["aeps"]), core.frac(obs["tin"])
    tolc = F(1, 10 ** 9) * max(W, H) if dec else F(0)
    tola = F(1, 10 ** 9) * W * H if dec else F(0)
    leaves = max([F(0)] + [max(-b[0], -b[1], b[2] - W, b[3] - H) for b in inputs])
    ovmax = F(0)
    for i in range(len(inputs)):
        for j in range(i + 1, len(inputs)):
            w, h = ovl(inputs[i], inputs[j])
            ovmax = max(ovmax, w * h)
    xs = sorted({v for b in inputs for v in (b[0], b[2])} | {F(0), W})
    ys = sorted({v for b in inputs for v in (b[1], b[3])} | {F(0), H})
    margin = eps * (4 if dec else 1)
    separated = all(b - a > margin for a, b in zip(xs, xs[1:])) and all(b - a > margin for a, b in zip(ys, ys[1:]))
    if leaves > deps + tolc or ovmax > aeps + tola:
        if obs["v"] == "accept":
            return ("a description with a region leaving the die was accepted" if leaves > deps + tolc
                    else "a description with overlapping regions was accepted")
        return None
    strictly_valid = leaves == 0 and ovmax == 0 and separated
    if obs["v"] == "reject":
        if strictly_valid:
            note = ""
            if dec and obs.get("cls") in ("ROverlap", "RCheck") and 0 < obs["eps"] < obs["deps"] / 2:
                note = " [netlist-eps: the class-wide epsilon was defined by the netlist, smaller than the die's own]"
            if obs.get("cls") == "stream-type" and case["form"] == "stream":
                note = " [stream-handle: read_yaml refuses every open stream (isinstance(stream, typing.TextIO))]"
            return f"a valid description was rejected: {obs.get('msg', '')[:120]}{note}"
        return None
    # accepted: every input region reported unchanged with its tag, in its list
    nums, fixed_nums = impl_numbers(case)
    if case.get("want_fixed") is not None:
        fixed_nums = case["want_fixed"]          # a history: the values the netlist's modules held at construction time
    rl_impl = nums.get("regions", [])
    if rl_impl and isnum(rl_impl[0]):
        rl_impl = [rl_impl]
    want_block = sorted((tuple(r[:4]), r[4]) for r in rl_impl if r[4] == "#")
    want_spec = sorted((tuple(r[:4]), r[4]) for r in rl_impl if r[4] != "#")
    want_fixed = sorted((tuple(r[:4]), "_") for r in fixed_nums)
    key = lambda d: (tuple(core.frac(d[k]) for k in ("cx", "cy", "w", "h")), d["region"])
    if sorted(map(key, obs["block"])) != want_block:
        return "the blockages reported are not the blockages of the description"
    if sorted(map(key, obs["spec"])) != want_spec:
        return "the specialised regions reported are not those of the description (geometry or tag changed)"
    if sorted(map(key, obs["fixed"])) != want_fixed:
        return "the fixed rectangles reported are not those of the netlist"
    if any(d["region"] != "_" for d in obs["ground"]):
        return "a ground region does not carry the ground tag"
    if not strictly_valid:
        return None                       # tolerance band: accepted by design, exact tiling not promised
    allr = [obs_box(d) for k in ("spec", "ground", "block", "fixed") for d in obs[k]]
    for b in allr:
        if not (b[2] > b[0] and b[3] > b[1]):
            return "a reported region has no extent"
        if max(-b[0], -b[1], b[2] - W, b[3] - H) > tolc:
            return "a reported region is not inside the die"
    for i in range(len(allr)):
        for j in range(i + 1, len(allr)):
            w, h = ovl(allr[i], allr[j])
            if min(w, h) > tolc:
                return "two reported regions overlap"
    total = sum(((b[2] - b[0]) * (b[3] - b[1]) for b in allr), F(0))
    if abs(total - W * H) > tola:
        return "the areas of the reported regions do not add up to the area of the die"
    return None


def failure_key(case, why):
    s = case["stream"]
    why = why or ""
    if "valid description was rejected" in why and "[netlist-eps" in why:
        return "C01/valid-rejected-netlist-epsilon"
    if "valid description was rejected" in why and "[stream-handle" in why:
        return "C01/valid-rejected-stream"
    if "valid description was rejected" in why:
        return "C01/valid-rejected-" + ("decimal" if s == "decimal" else "exact") + ("-area" if "total area" in why else "")
    if "malformed" in why:
        return "C01/malformed-accepted"
    if "was accepted" in why:
        return "C01/invalid-accepted"
    if "not the blockages" in why or "not those of" in why or "ground tag" in why:
        return "C01/inputs-changed"
    if "implementation raised" in why:
        return "C01/crash"
    if why in ("disagree", "unprintable"):
        return "C01/correspondence"
    return "C01/tiling"


def shrink(case):
    if case["stream"] == "large":
        return                            # (seconds per construction, and the class is the size itself)
    tree = case["tree"]
    regs = tree.get("regions")
    if isinstance(regs, list) and regs and isinstance(regs[0], list):
        for i in range(len(regs)):
            t = dict(tree)
            rest = regs[:i] + regs[i + 1:]
            if rest:
                t["regions"] = rest
            else:
                t.pop("regions")
            yield dict(case, tree=t, form="dict" if case["form"] == "single" else case["form"])
    for i in range(len(case["fixed"]) if not case.get("nethist") else 0):     # (the operations of a history name the modules)
        yield dict(case, fixed=case["fixed"][:i] + case["fixed"][i + 1:], fixedgroups=None)
    if case.get("warm"):
        yield dict(case, warm=None)
    ru = case.get("reuse") or []
    for i in range(len(ru)):
        yield dict(case, reuse=ru[:i] + ru[i + 1:])
    nh = case.get("nethist")
    if nh:
        for i in range(len(nh)):
            yield dict(case, nethist=nh[:i] + nh[i + 1:])
    if case.get("hard") and not nh:
        yield dict(case, hard=[])
    if case["form"] in ("text", "file", "stream") and not case.get("textdefect") and case["render"]["style"] != "block":
        yield dict(case, render=dict(case["render"], style="block"))


def nontrivial(case):
    regs = case["tree"].get("regions") if isinstance(case.get("tree"), dict) else None
    n = (len(regs) if isinstance(regs, list) and regs and isinstance(regs[0], list) else (1 if regs else 0))
    return n + len(case["fixed"]) >= 2 or case["stream"] in ("malformed", "badstring") or bool(case.get("nethist")) or \
        (case["stream"] == "sd" and "x" in case["raw"])


def run_oracle_only(ctx, out):
    """used when the Coq development does not build: the direct oracle alone"""
    for _ in range(600):
        case = gen_case(ctx.rng)
        try:
            obs = run_impl(case)
            why = oracle(case, obs)
        except Exception as e:
            obs, why = {}, f"implementation raised {type(e).__name__}: {e}"
        out.add_case(fr.tojson(case), nontrivial(case))
        if why:
            out.failures.append({"key": failure_key(case, why), "why": why, "case": fr.tojson(case), "impl": fr.tojson(obs)})


def run(ctx, out, replay=None):
    n = 3500 if ctx.quick() else 24000
    out.rule = ("dies with 0-8 lattice-aligned regions (blockages, identifiers incl. YAML-special words and prefixes of each other, fixed "
                "rectangles through a generated netlist - one or several per fixed module, sometimes ALL rectangles, next to hard / soft "
                "modules that must not appear) on a coarse nx x ny lattice (1..6 each, narrow columns for near-misses; patterns random / "
                "pinwheel ring with enclosed hole / T-junction / fully covered / 9..33 one-cell regions); regions and keys in any order; "
                "streams exact (dyadic), exact-eps (explicit epsilon 2^-10, sides perturbed by 2^-11..2^-9), decimal (multiples of 0.1 / "
                "0.01, die up to 1e5; direct oracle only), malformed (one defect injected: description, netlist rectangles, or the text "
                "itself), badstring ('<W>x<H>' broken in one place), sd (string_die called on random strings); input forms dict / flat "
                "single region / '<W>x<H>' string (all float() spellings) / YAML text (4 layouts, number spellings, comments, > 4096 "
                "characters) / file name / open stream, each with and without netlist; a third of the cases are histories on the SAME "
                "objects (the description dict / str / file / rewound stream and the Netlist object handed to 2-4 constructions, with "
                "and without the netlist in any order, every construction judged; two more constructions when an argument was "
                "modified) or follow a bare die built with the same netlist; a fifth of the exact / decimal cases are HISTORIES OF THE "
                "NETLIST OBJECT: after it was read it is modified through its public mutators (assign_rectangles relocating / extending / "
                "restoring a module, is_fixed released / set, is_hard, rectangle setters, recenter_rectangles, create_squares + is_fixed; "
                "relocations go to free lattice boxes, a module fixed where it stands may overlap), with reads of netlist.rectangles / "
                "num_rectangles / fixed_rectangles() and dies with / without the netlist before, between and after, every construction "
                "judged against the fixed rectangles the netlist's modules hold at that moment; SIZE: 2 (quick) / 10 (thorough) large, mostly free dies "
                "(stream large: 16-28 one-cell regions on a permutation - all lines distinct - or along two borders, cell matrix 24x24 .. 39x39, "
                "70 000 - 200 000 free index rectangles; exact coordinates, oracle and correspondence); non-trivial = at least two regions or a refused input; distinct by canonical hash")
    cases = []
    if replay and "case" in replay:
        cases.append(fr.unjson(replay["case"]))
    cases += fr.load_corpus("C01")
    while len(cases) < n:
        cases.append(gen_case(ctx.rng))
    # (generated after the others, so that these are the cases they were before the large stream existed)
    cases += [gen_large(ctx.rng, big=not ctx.quick()) for _ in range(2 if ctx.quick() else 10)]
    for c in cases:
        for s in c.get("stats", []):
            out.count("has:" + s)
        if c.get("defect"):
            out.count("defect:" + c["defect"])
    fr.run_cases(ctx, out, cases, run_impl, to_coq, oracle, failure_key, HEADER,
                 dist_key=lambda c: "stream:" + c["stream"], nontrivial=nontrivial, shard=60, shrink=shrink)
    for c in cases:
        out.count("form:" + c.get("form", "dict") + ("+netlist" if c.get("fixed") else ""))
    ev = out.extra
    ev["share_of_cases"] = {k: round(v / max(1, out.evaluations), 3) for k, v in sorted(out.dist.items())}
