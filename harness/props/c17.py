"""C17 - disc-overlap area (tools/force/fruchterman_reingold.py::circle_circle_intersection_area).

Two independent parts, both run against the working tree of the repository on every run:

* correspondence by proof: for a batch of inputs the implementation's value v is turned into a
  Coq lemma  `agrees (overlap_code x1 y1 r1 x2 y2 r2) (v - tol) (v + tol)`  (rational inputs = the
  exact values of the floats, tol = 1e-5 * max(r1,r2)^2) about the Gallina model `Disc/Lens.v`,
  and proved with the `interval` tactic (`Disc/LensInterval.v`); a lemma that does not compile is
  a model/implementation disagreement;
* float exploration with a direct oracle: totality, symmetry, bounds, accuracy against a
  40-digit mpmath evaluation of the exact lens area, on many inputs concentrated at tangency.
"""
from __future__ import annotations

import math
import multiprocessing as mp
import os
import random
import re
import subprocess
from fractions import Fraction as F

from harness import core, fr

HEADER = """From Coq Require Import Reals.
From Interval Require Import Tactic.
From FrameModel Require Import Disc.Lens Disc.LensFacts Disc.LensInterval.
Open Scope R_scope."""

REL_TOL = F(1, 100000)          # "to within 1e-5 of the larger disc's squared radius"
UPPER_SLACK = 4 * 2.0 ** -52    # the bound pi*min(r)^2 is itself a rounded float product

ASSUMPTIONS = [
    "theorems are about the real-number model (Coq R); binary64 totality/accuracy cannot be proved (no formal libm) "
    "and is decided by exploration + per-case interval proofs",
    "explored domain: radii in [1e-3, 1e6] (ratio up to 1e6), centre coordinates up to ~1e7 in magnitude; radii whose "
    "square over- or underflows binary64 (r > ~1e154 or r < ~1e-154) make `r**2` raise/vanish and are outside the domain",
    "symmetry is demanded up to the stated accuracy (1e-5*max(r)^2), not bit for bit: the code subtracts d*r1*sin(alpha), "
    "which rounds differently from d*r2*sin(beta) (differences of a few ulp are observed on correct code)",
    "bounds: a negative result is a failure (zero is exact); the upper bound pi*min(r)^2 is compared with a slack of 4 ulp "
    "because the bound itself is a rounded product; accuracy tolerance exactly as stated (1e-5*max(r1,r2)^2) against the "
    "lens area of the exact real centre distance, evaluated with mpmath at 40 digits",
    "interval goals are generated at relative distance >= 1e-4 from exact tangency (the atan form of acos is singular at "
    "+-1); tangency itself (0..8 ulp) is covered by the float exploration only",
]

# The per-case lemmas are proved by `interval with (i_prec 90)`, whose multi-precision arithmetic is
# Bignums over Coq's primitive 63-bit integers: besides the Reals axioms allowed for the theorem file
# they depend on the standard library's PrimInt63 primitives and their Uint63 specification axioms
# (Coq.Numbers.Cyclic.Int63). Nothing else is accepted (no primitive floats are involved).
def interval_axiom_ok(name: str) -> bool:
    return name in core.ALLOWED_AXIOMS or name.startswith("Uint63.") or name.startswith("PrimInt63.")


# --------------------------------------------------------------------------
# running the implementation
# --------------------------------------------------------------------------
def _impl():
    from tools.force.fruchterman_reingold import circle_circle_intersection_area
    from frame.geometry.geometry import Point
    return circle_circle_intersection_area, Point


def call(case):
    """-> (v, w): f(c1,r1,c2,r2) and f(c2,r2,c1,r1); an exception is returned as ('exc', text)."""
    f, Point = _impl()
    x1, y1, r1, x2, y2, r2 = case
    res = []
    for a in ((Point(x1, y1), r1, Point(x2, y2), r2), (Point(x2, y2), r2, Point(x1, y1), r1)):
        try:
            res.append(f(*a))
        except Exception as e:  # noqa: BLE001 - totality is part of the property
            res.append(("exc", f"{type(e).__name__}: {e}"))
    return res[0], res[1]


def case_tuple(case) -> tuple:
    c = case
    return (float(c["c1"][0]), float(c["c1"][1]), float(c["r1"]), float(c["c2"][0]), float(c["c2"][1]), float(c["r2"]))


def case_dict(t, cls="") -> dict:
    return {"c1": [t[0], t[1]], "r1": t[2], "c2": [t[3], t[4]], "r2": t[5], "cls": cls}


def run_impl(case) -> dict:
    v, w = call(case_tuple(case))
    return {"v": v if not isinstance(v, tuple) else None, "v_exc": v[1] if isinstance(v, tuple) else None,
            "w": w if not isinstance(w, tuple) else None, "w_exc": w[1] if isinstance(w, tuple) else None}


# --------------------------------------------------------------------------
# reference and direct oracle
# --------------------------------------------------------------------------
def exact_class(t) -> str:
    """far / nested / lens, decided in exact rational arithmetic on the float inputs."""
    x1, y1, r1, x2, y2, r2 = (F(v) for v in t)
    D2 = (x1 - x2) ** 2 + (y1 - y2) ** 2
    if D2 >= (r1 + r2) ** 2:
        return "far"
    if D2 <= (r1 - r2) ** 2:
        return "nested"
    return "lens"


def reference(t):
    """Exact lens area of the two discs (mpmath, 40 digits), from the exact values of the floats."""
    import mpmath
    mpf = mpmath.mpf
    with mpmath.workdps(40):
        k = exact_class(t)
        x1, y1, r1, x2, y2, r2 = (F(v) for v in t)
        if k == "far":
            return mpf(0)
        if k == "nested":
            m = min(r1, r2)
            return mpmath.pi * mpf(m.numerator) / mpf(m.denominator) * mpf(m.numerator) / mpf(m.denominator)
        D2 = (x1 - x2) ** 2 + (y1 - y2) ** 2
        d2 = mpf(D2.numerator) / mpf(D2.denominator)
        d = mpmath.sqrt(d2)
        a, b = mpf(t[2]), mpf(t[5])
        # Heron / kite form, independent of the code's d*r1*sin(alpha)
        ca = (a * a + d2 - b * b) / (2 * a * d)
        cb = (b * b + d2 - a * a) / (2 * b * d)
        kite = mpmath.sqrt((-d + a + b) * (d + a - b) * (d - a + b) * (d + a + b)) / 2
        return a * a * mpmath.acos(ca) + b * b * mpmath.acos(cb) - kite


def judge(t, v, w):
    """The property as stated, on one input. Returns None or (kind, explanation)."""
    import mpmath
    for side, x in (("", v), (" (arguments swapped)", w)):
        if isinstance(x, tuple):
            kind = "domain-error" if "math domain error" in x[1] else "exception"
            return kind, f"the function raised {x[1]}{side}"
    for side, x in (("", v), (" (arguments swapped)", w)):
        if isinstance(x, bool) or not isinstance(x, (int, float)) or x != x or x in (math.inf, -math.inf):
            return "non-finite", f"result {x!r} is not a finite number{side}"
    r1, r2 = t[2], t[5]
    big2 = F(max(r1, r2)) ** 2
    tol = REL_TOL * big2
    small = math.pi * min(r1, r2) ** 2
    for side, x in (("", v), (" (arguments swapped)", w)):
        if x < 0:
            return "negative", f"negative area {x!r}{side}"
        if x > small * (1 + UPPER_SLACK):
            return "above-small-disc", f"area {x!r} exceeds the smaller disc's area {small!r}{side}"
    if abs(F(v) - F(w)) > tol:
        return "asymmetric", f"f(c1,r1,c2,r2) = {v!r} but f(c2,r2,c1,r1) = {w!r} (tolerance {float(tol):.3e})"
    ref = reference(t)
    with mpmath.workdps(40):
        err = abs(mpmath.mpf(v) - ref)
        if err > mpmath.mpf(tol.numerator) / mpmath.mpf(tol.denominator):
            return "inaccurate", (f"area {v!r} but the exact lens area is {mpmath.nstr(ref, 17)} "
                                  f"(error {mpmath.nstr(err, 3)} > {float(tol):.3e} = 1e-5*max(r)^2)")
    return None


def oracle(case, obs):
    t = case_tuple(case)
    v = obs["v"] if obs.get("v_exc") is None else ("exc", obs["v_exc"])
    w = obs["w"] if obs.get("w_exc") is None else ("exc", obs["w_exc"])
    j = judge(t, v, w)
    return None if j is None else f"{j[0]}: {j[1]}"


def readable(case) -> str:
    x1, y1, r1, x2, y2, r2 = case_tuple(case)
    return f"c1=({x1!r}, {y1!r}) r1={r1!r} c2=({x2!r}, {y2!r}) r2={r2!r}"


def fail_entry(case, obs, why, **more) -> dict:
    return {"key": failure_key(case, why), "why": why, "input": readable(case),
            "call": "tools.force.fruchterman_reingold.circle_circle_intersection_area(Point(*c1), r1, Point(*c2), r2)",
            "case": fr.tojson(case), "impl": fr.tojson(obs), **more}


def failure_key(case, why):
    kind = (why or "").split(":")[0]
    if kind not in ("domain-error", "exception", "non-finite", "negative", "above-small-disc", "asymmetric",
                    "inaccurate"):
        kind = "disagree"
    return f"C17/{kind}"


# --------------------------------------------------------------------------
# generators (floats)
# --------------------------------------------------------------------------
def ulps(x: float, k: int) -> float:
    for _ in range(abs(k)):
        x = math.nextafter(x, math.inf if k > 0 else -math.inf)
    return x


NICE = [0.1, 0.2, 0.3, 0.5, 0.7, 1.0, 1.1, 1.5, 2.0, 2.19, 2.5, 3.0, 3.3, 4.7, 10.0, 0.01, 100.0, 1e-3, 1e3, 1e6]


def radius(rng, s=None):
    if s is None:
        s = 10 ** rng.uniform(-3, 6)
    m = rng.random()
    if m < 0.15:
        return rng.choice(NICE)
    if m < 0.3:
        return round(s * rng.uniform(0.01, 1), rng.choice([1, 2, 3, 6])) or s
    return s * rng.uniform(0.01, 1)


def place(rng, d, generic):
    """Centres at (floating) distance d. Axis-aligned placements give exactly d back from norm()
    (up to pow's rounding); generic ones go through a rotation and an offset."""
    if not generic:
        o = rng.choice([(1, 0), (-1, 0), (0, 1), (0, -1)])
        return 0.0, 0.0, o[0] * d + 0.0, o[1] * d + 0.0
    th = rng.uniform(0, 2 * math.pi)
    if rng.random() < 0.3:
        a, b, c = rng.choice([(3, 4, 5), (5, 12, 13), (8, 15, 17), (7, 24, 25), (20, 21, 29)])
        ux, uy = a / c, b / c
    else:
        ux, uy = math.cos(th), math.sin(th)
    ox, oy = (rng.uniform(-1, 1) * d * rng.choice([0, 1, 10]) for _ in range(2))
    return ox, oy, ox + d * ux, oy + d * uy


CLASSES = ["ext-tangent-ulp", "int-tangent-ulp", "ext-tangent-generic", "int-tangent-generic", "tangent-decimal",
           "small-in-large-tangent", "equal-discs", "concentric", "far", "nested", "lens-scale-sweep", "lens-thin",
           "random"]
WEIGHTS = [18, 18, 8, 8, 5, 8, 8, 2, 3, 3, 10, 5, 4]


def gen_float_case(rng):
    cls = rng.choices(CLASSES, WEIGHTS)[0]
    s = 10 ** rng.uniform(-3, 6)
    r1, r2 = radius(rng, s), radius(rng, s)
    if cls in ("ext-tangent-ulp", "ext-tangent-generic"):
        d = ulps(r1 + r2, rng.randint(-8, 8))
        t = (*place(rng, d, cls.endswith("generic")),)
    elif cls in ("int-tangent-ulp", "int-tangent-generic"):
        if r1 == r2:
            r2 = r1 * rng.choice([0.5, 0.75, 0.9, 0.999])
        d = ulps(abs(r1 - r2), rng.randint(-8, 8))
        if d < 0:
            d = 0.0
        t = (*place(rng, d, cls.endswith("generic")),)
    elif cls == "tangent-decimal":
        a = round(rng.uniform(0.01, 10) * 10 ** rng.randint(-1, 2), rng.choice([1, 2, 3]))
        b = round(rng.uniform(0.01, 10) * 10 ** rng.randint(-1, 2), rng.choice([1, 2, 3]))
        a, b = a or 0.1, b or 0.2
        r1, r2 = a, b
        # the decimal the user means: d = a+b or |a-b| rounded to the written digits
        d = round(a + b, 3) if rng.random() < 0.5 else round(abs(a - b), 3)
        t = (*place(rng, d, False),)
    elif cls == "small-in-large-tangent":
        r1 = rng.choice([0.1, 0.01, 1.0, s * 1e-3 * rng.uniform(0.1, 1), rng.uniform(0.05, 0.5)])
        r2 = rng.uniform(1, 100) if rng.random() < 0.7 else r1 * 10 ** rng.uniform(1, 6)
        base = abs(r2 - r1) if rng.random() < 0.7 else r1 + r2
        d = ulps(base, rng.randint(-8, 8))
        t = (*place(rng, d, rng.random() < 0.2),)
        if rng.random() < 0.5:
            r1, r2 = r2, r1
    elif cls == "equal-discs":
        r2 = r1
        m = rng.random()
        if m < 0.15:
            d = 0.0
        elif m < 0.3:
            d = r1 * 10 ** rng.uniform(-17, -1)
        elif m < 0.6:
            d = ulps(2 * r1, rng.randint(-8, 8))
        else:
            d = r1 * rng.uniform(0, 2.2)
        t = (*place(rng, d, rng.random() < 0.3),)
    elif cls == "concentric":
        x, y = rng.uniform(-s, s), rng.uniform(-s, s)
        t = (x, y, x, y)
    elif cls == "far":
        d = (r1 + r2) * (1 + 10 ** rng.uniform(-12, 3))
        t = (*place(rng, d, rng.random() < 0.5),)
    elif cls == "nested":
        d = abs(r1 - r2) * (1 - 10 ** rng.uniform(-12, 0))
        t = (*place(rng, max(d, 0.0), rng.random() < 0.5),)
    elif cls == "lens-scale-sweep":
        lo, hi = abs(r1 - r2), r1 + r2
        d = lo + (hi - lo) * rng.random()
        t = (*place(rng, d, rng.random() < 0.5),)
    elif cls == "lens-thin":
        lo, hi = abs(r1 - r2), r1 + r2
        e = 10 ** rng.uniform(-15, -2)
        d = hi * (1 - e) if rng.random() < 0.5 else lo * (1 + e) + (hi - lo) * e * 1e-3
        t = (*place(rng, d, rng.random() < 0.5),)
    else:
        box = s * rng.choice([1, 3, 10])
        t = (rng.uniform(-box, box), rng.uniform(-box, box), rng.uniform(-box, box), rng.uniform(-box, box))
    return (t[0], t[1], r1, t[2], t[3], r2), cls


# --------------------------------------------------------------------------
# float exploration (parallel)
# --------------------------------------------------------------------------
def _explore_chunk(args):
    seed, n, repo = args
    import sys
    if repo not in sys.path:
        sys.path.insert(0, repo)
    rng = random.Random(seed)
    dist: dict[str, int] = {}
    fails: dict[str, list] = {}
    nfail: dict[str, int] = {}
    seen = set()
    asym_bits = 0
    for _ in range(n):
        t, cls = gen_float_case(rng)
        v, w = call(t)
        k = exact_class(t)
        dist[f"{cls}/{k}"] = dist.get(f"{cls}/{k}", 0) + 1
        seen.add(t)
        if v != w:
            asym_bits += 1
        j = judge(t, v, w)
        if j:
            nfail[j[0]] = nfail.get(j[0], 0) + 1
            lst = fails.setdefault(j[0], [])
            if len(lst) < 3:
                lst.append((t, cls, j[1], repr(v), repr(w)))
    return dist, fails, nfail, len(seen), asym_bits


def explore(ctx, out, total):
    nproc = min(14, os.cpu_count() or 2)
    per = 5000
    chunks = [(ctx.seed * 1_000_003 + i, min(per, total - i * per), str(core.REPO))
              for i in range((total + per - 1) // per)]
    with mp.get_context("fork").Pool(nproc) as pool:
        results = pool.map(_explore_chunk, chunks, chunksize=1)
    distinct = 0
    nfail: dict[str, int] = {}
    collected: dict[str, list] = {}
    asym_bits = 0
    for dist, fails, nf, nd, ab in results:
        for k, v in dist.items():
            out.count("float:" + k, v)
        distinct += nd
        asym_bits += ab
        for k, v in nf.items():
            nfail[k] = nfail.get(k, 0) + v
        for k, lst in fails.items():
            collected.setdefault(k, []).extend(lst)
    out.evaluations += total
    out.extra["float_cases"] = total
    out.extra["float_failures_by_kind"] = nfail
    out.extra["float_results_not_bitwise_symmetric"] = asym_bits
    for kind in sorted(collected):
        t, cls, why, v, w = collected[kind][0]
        case = case_dict(t, cls)
        small, obs, why2 = shrink_case(case, kind)
        entry = fail_entry(small, obs, why2, count_in_this_run=nfail[kind])
        if small != case:
            entry["shrunk_from"] = fr.tojson(case)
        out.failures.append(entry)
    return distinct


# --------------------------------------------------------------------------
# shrinking: towards origin / axis aligned / radius in [1,2) / few mantissa bits
# --------------------------------------------------------------------------
def _round_bits(x: float, bits: int) -> float:
    if x == 0:
        return x
    m, e = math.frexp(x)
    return math.ldexp(round(m * 2 ** bits) / 2 ** bits, e)


def shrink(case):
    x1, y1, r1, x2, y2, r2 = case_tuple(case)
    cls = case.get("cls", "")
    f, Point = _impl()
    d = (Point(x1, y1) - Point(x2, y2)).norm()
    if (x1, y1, y2) != (0.0, 0.0, 0.0) or x2 != d:
        yield case_dict((0.0, 0.0, r1, d, 0.0, r2), cls)
    big = max(r1, r2)
    if not 1 <= big < 2 and big > 0:
        k = 2.0 ** (-math.floor(math.log2(big)))
        yield case_dict((x1 * k, y1 * k, r1 * k, x2 * k, y2 * k, r2 * k), cls)
    for bits in (8, 16, 24, 32, 40):
        for which in (2, 5):
            t = [x1, y1, r1, x2, y2, r2]
            nv = _round_bits(t[which], bits)
            if nv != t[which] and nv > 0:
                t[which] = nv
                yield case_dict(tuple(t), cls)


def shrink_case(case, kind, budget=200):
    def fails(c):
        obs = run_impl(c)
        why = oracle(c, obs)
        return (why if why and why.startswith(kind) else None), obs
    why, obs = fails(case)
    improved = True
    while improved and budget > 0:
        improved = False
        for cand in shrink(case):
            budget -= 1
            w, o = fails(cand)
            if w:
                case, why, obs, improved = cand, w, o, True
                break
    return case, obs, why


# --------------------------------------------------------------------------
# correspondence by proof (interval goals)
# --------------------------------------------------------------------------
def gr(x) -> str:
    """Exact real-number literal of a float / Fraction."""
    f = core.frac(x)
    n, d = f.numerator, f.denominator
    s = f"({n})" if n < 0 else f"{n}"
    return s if d == 1 else f"({s} / {d})"


def dyadic(rng, s):
    """A float with a short mantissa at scale s (keeps the Coq literals small; still a generic input)."""
    return _round_bits(s * rng.uniform(0.05, 1), rng.choice([6, 12, 30, 52]))


def gen_proof_case(rng):
    cls = rng.choices(["lens", "lens-axis", "lens-near-ext", "lens-near-int", "far", "nested", "equal", "concentric",
                       "decimal"], [6, 4, 3, 3, 1, 1, 2, 1, 3])[0]
    s = 10 ** rng.uniform(-3, 6)
    r1, r2 = dyadic(rng, s), dyadic(rng, s)
    lo, hi = abs(r1 - r2), r1 + r2
    generic = True
    if cls == "lens":
        d = lo + (hi - lo) * rng.uniform(0.02, 0.98)
    elif cls == "lens-axis":
        d, generic = lo + (hi - lo) * rng.uniform(0.02, 0.98), False
    elif cls == "lens-near-ext":
        d = hi * (1 - 10 ** rng.uniform(-4, -2))
    elif cls == "lens-near-int":
        if r1 == r2:
            r2 = r1 / 2
            lo, hi = abs(r1 - r2), r1 + r2
        d = lo * (1 + 10 ** rng.uniform(-4, -2)) + (hi - lo) * 1e-4
    elif cls == "far":
        d = hi * (1 + 10 ** rng.uniform(-4, 1))
    elif cls == "nested":
        d = lo * (1 - 10 ** rng.uniform(-4, 0))
    elif cls == "equal":
        r2 = r1
        d = 2 * r1 * rng.uniform(0.02, 0.98)
    elif cls == "concentric":
        d = 0.0
    else:
        r1 = rng.choice(NICE[:15])
        r2 = rng.choice(NICE[:15])
        lo, hi = abs(r1 - r2), r1 + r2
        d = round(lo + (hi - lo) * rng.uniform(0.05, 0.95), 2)
        generic = False
    x1, y1, x2, y2 = place(rng, d, generic)
    if generic:
        x1, y1, x2, y2 = (_round_bits(v, 30) for v in (x1, y1, x2, y2))
    t = (x1, y1, r1, x2, y2, r2)
    # keep clear of the singular points of the atan form
    x1, y1, r1, x2, y2, r2 = (F(v) for v in t)
    D2 = (x1 - x2) ** 2 + (y1 - y2) ** 2
    for edge in ((r1 + r2) ** 2, (r1 - r2) ** 2):
        if edge and abs(D2 - edge) < edge * F(1, 5000):
            return gen_proof_case(rng)
        if not edge and 0 < D2 < (r1 + r2) ** 2 * F(1, 10 ** 8):   # equal discs almost concentric: d -> 0 in a divisor
            return gen_proof_case(rng)
    return case_dict(t, "proof:" + cls)


def proof_lemma(i, case, v) -> str:
    t = case_tuple(case)
    tol = REL_TOL * F(max(t[2], t[5])) ** 2
    lo, hi = F(v) - tol, F(v) + tol
    args = " ".join(gr(x) for x in t)
    return (f"Lemma case_{i} : agrees (overlap_code {args}) {gr(lo)} {gr(hi)}.\n"
            f"Proof. lens_goal. Qed.\n")


def prove_cases(ctx, out, cases, shard):
    """cases: list of (case, obs). Returns list of bool (proved?)."""
    todo = []
    results = [None] * len(cases)
    for i, (case, obs) in enumerate(cases):
        if obs.get("v") is None or isinstance(obs["v"], bool) or obs["v"] != obs["v"] or abs(obs["v"]) == math.inf:
            results[i] = False
            continue
        todo.append(i)
    files = []
    for k in range(0, len(todo), shard):
        idx = todo[k:k + shard]
        name = f"lens_cases_{k // shard}"
        body = [HEADER] + [proof_lemma(i, cases[i][0], cases[i][1]["v"]) for i in idx]
        if k == 0 or not ctx.quick():   # identical proof script everywhere: one audit per run (all shards when thorough)
            body.append(f"Print Assumptions case_{idx[0]}.\n")
        (ctx.work / f"{name}.v").write_text("\n".join(body))
        files.append((name, idx))
    axioms = set()

    def run_files(fs):
        procs = []
        res = {}
        pending = list(fs)
        while pending or procs:
            while pending and len(procs) < 14:
                name, idx = pending.pop(0)
                p = subprocess.Popen(["timeout", "600", "coqc", "-Q", str(core.COQ), "FrameModel", f"{name}.v"],
                                     cwd=ctx.work, stdout=subprocess.PIPE, stderr=subprocess.STDOUT, text=True)
                procs.append((name, idx, p))
            name, idx, p = procs.pop(0)
            o, _ = p.communicate()
            res[name] = (p.returncode, o)
        return res

    res = run_files(files)
    retry = []
    for name, idx in files:
        rc, o = res[name]
        if rc == 0:
            for i in idx:
                results[i] = True
            if "Axioms:" in o:
                axioms.update(re.findall(r"^([A-Za-z_][A-Za-z0-9_.']*)\s*:", o.split("Axioms:")[-1], flags=re.M))
        else:
            for i in idx:   # find the culprit(s): one file per lemma
                n1 = f"lens_single_{i}"
                (ctx.work / f"{n1}.v").write_text(HEADER + "\n" + proof_lemma(i, cases[i][0], cases[i][1]["v"]))
                retry.append((n1, [i]))
    if retry:
        res = run_files(retry)
        for name, idx in retry:
            rc, o = res[name]
            results[idx[0]] = rc == 0
            if rc != 0:
                out.extra.setdefault("coq_errors", []).append(re.sub(r"\s+", " ", o)[-600:])
    out.extra["interval_goal_axioms"] = sorted(axioms)
    bad_ax = sorted(a for a in axioms if not interval_axiom_ok(a))
    if bad_ax:
        ctx.notes.append("interval goals depend on axioms outside the allow-list: " + ", ".join(bad_ax))
        out.disagreements.append({"key": "C17/axioms", "case": None, "impl": None, "explained": False,
                                  "why": "per-case proofs depend on axioms outside the allow-list: " + ", ".join(bad_ax)})
    return results


# --------------------------------------------------------------------------
def run(ctx, out, replay=None):
    quick = ctx.quick()
    n_proof = 40 if quick else 400
    n_float = 120_000 if quick else 4_000_000
    out.rule = (
        "two streams. (1) proof stream: random discs (radii 1e-3..1e6, mantissas of 6..52 bits; generic and axis-aligned "
        "centres; lens / near-tangent (relative gap 1e-4..1e-2) / far / nested / equal / concentric / decimal inputs); for "
        "each, a Coq lemma bounding the model's value by the implementation's value +- 1e-5*max(r)^2 is proved by `interval`. "
        "(2) float stream: classes listed in `distribution` (float:<class>/<exact case>), most weight on centre distances "
        "within 0..8 ulp of r1+r2 and |r1-r2| (axis-aligned: exact ulp control; generic: through a rotation), decimal "
        "tangencies (0.1+0.2 vs 0.3), a small disc inside a large one, equal discs, concentric, far, nested, scale sweep "
        "1e-3..1e6, thin lenses, random; each case is evaluated in both argument orders and judged by the direct oracle "
        "(no exception, finite, symmetric, 0 <= v <= pi*min(r)^2, |v - mpmath reference| <= 1e-5*max(r)^2). "
        "distinct = distinct input tuples; all cases are non-trivial (each has its own radii and distance)")
    # ---- corpus / replay first: through impl + oracle + proof
    first = []
    if replay and "case" in replay and replay["case"]:
        first.append(fr.unjson(replay["case"]))
    first += fr.load_corpus("C17")
    proof_cases = []
    ndist = 0
    for case in first:
        obs = run_impl(case)
        out.add_case(fr.tojson(case), True)
        out.count("corpus/" + exact_class(case_tuple(case)))
        why = oracle(case, obs)
        if why:
            out.failures.append(fail_entry(case, obs, why))
    rng = ctx.rng
    while len(proof_cases) < n_proof:
        case = gen_proof_case(rng)
        obs = run_impl(case)
        out.add_case(fr.tojson(case), True)
        out.count(case["cls"] + "/" + exact_class(case_tuple(case)))
        why = oracle(case, obs)
        if why:
            out.failures.append(fail_entry(case, obs, why))
        proof_cases.append((case, obs, why))
    proved = prove_cases(ctx, out, [(c, o) for c, o, _ in proof_cases], shard=4 if quick else 10)
    nbad = 0
    for (case, obs, why), ok in zip(proof_cases, proved):
        if not ok:
            nbad += 1
            if nbad <= 50:
                out.disagreements.append({
                    "key": failure_key(case, why or "disagree"), "case": fr.tojson(case), "impl": fr.tojson(obs),
                    "explained": bool(why), "oracle": why,
                    "why": "Coq could not prove that the model's value lies within 1e-5*max(r)^2 of the implementation's",
                    "coq_check": proof_lemma(0, case, obs["v"]) if obs.get("v") is not None else None})
    out.extra["interval_goals"] = len(proof_cases)
    out.extra["interval_goals_proved"] = len(proof_cases) - nbad
    out.extra["model_impl_agreements"] = len(proof_cases) - nbad
    # ---- float exploration
    n_distinct_float = explore(ctx, out, n_float)
    base = len(out.distinct)

    class _Count:
        def __len__(self):
            return base + n_distinct_float
    out.distinct = _Count()


def run_oracle_only(ctx, out):
    for case in fr.load_corpus("C17"):
        obs = run_impl(case)
        out.add_case(fr.tojson(case), True)
        why = oracle(case, obs)
        if why:
            out.failures.append(fail_entry(case, obs, why))
    explore(ctx, out, 50_000)
