"""C17 - disc-overlap area (tools/force/fruchterman_reingold.py::circle_circle_intersection_area).

Two independent parts, both run against the working tree of the repository on every run:

* correspondence by proof: for a batch of inputs the implementation's value v is turned into a
  Coq lemma  `agrees (overlap_code x1 y1 r1 x2 y2 r2) (v - tol) (v + tol)`  (rational inputs = the
  exact values of the floats, tol = 1e-5 * max(r1,r2)^2) about the Gallina model `Disc/Lens.v`,
  and proved with the `interval` tactic (`Disc/LensInterval.v`); a lemma that does not compile is
  a model/implementation disagreement;
* float exploration with a direct oracle: totality, symmetry, bounds, accuracy against a
  40-digit mpmath evaluation of the exact lens area, on many inputs concentrated at tangency,
  plus a coincidence stream (radii and centre distance forming an exactly representable right
  triangle, a centre exactly on the other disc's boundary; Disc/LensCoincide.v);
* state runs: every explored input is evaluated again on reused Point objects with the class-wide
  Rectangle tolerances defined (small / ordinary / large, set_epsilon or a loaded Die) and once more
  with them undefined again; the function is a function of its arguments (Disc/LensState.v), so
  every such result must equal the first one bit for bit.
"""
from __future__ import annotations

import math
import multiprocessing as mp
import os
import random
import re
import subprocess
from fractions import Fraction as F

from harness import core, fr

HEADER = """From Coq Require Import Reals.
From Interval Require Import Tactic.
From FrameModel Require Import Disc.Lens Disc.LensFacts Disc.LensInterval.
Open Scope R_scope."""

REL_TOL = F(1, 100000)          # "to within 1e-5 of the larger disc's squared radius"
UPPER_SLACK = 4 * 2.0 ** -52    # the bound pi*min(r)^2 is itself a rounded float product

ASSUMPTIONS = [
    "theorems are about the real-number model (Coq R); binary64 totality/accuracy cannot be proved (no formal libm) "
    "and is decided by exploration + per-case interval proofs",
    "explored domain: radii in [1e-3, 1e6] (ratio up to 1e6), centre coordinates up to ~1e7 in magnitude; radii whose "
    "square over- or underflows binary64 (r > ~1e154 or r < ~1e-154) make `r**2` raise/vanish and are outside the domain",
    "symmetry is demanded up to the stated accuracy (1e-5*max(r)^2), not bit for bit: the code subtracts d*r1*sin(alpha), "
    "which rounds differently from d*r2*sin(beta) (differences of a few ulp are observed on correct code)",
    "bounds: a negative result is a failure (zero is exact); the upper bound pi*min(r)^2 is compared with a slack of 4 ulp "
    "because the bound itself is a rounded product; accuracy tolerance exactly as stated (1e-5*max(r1,r2)^2) against the "
    "lens area of the exact real centre distance, evaluated with mpmath at 40 digits",
    "interval goals are generated at relative distance >= 1e-4 from exact tangency (the atan form of acos is singular at "
    "+-1); tangency itself (0..8 ulp) is covered by the float exploration only",
    "coincidence stream: integer right triangles (centre offset up to 40, radii up to ~72) and their images under "
    "scaling / translation, radii kept within [1e-3, 1e6]; the centre-on-boundary class lets the smaller radius go down "
    "to 1e-12 of the larger one (there the tolerance 1e-5*max(r)^2 exceeds the whole small disc: only totality, "
    "finiteness, sign and the upper bound are effectively tested); integral inputs are also passed as Python ints "
    "(what a YAML netlist with integer centres produces)",
    "function of its arguments: the process state varied is the pair of class-wide Rectangle tolerances (the only "
    "mutable state frame.geometry has), through set_epsilon, undefine_epsilon and Die loading; results in different "
    "states are compared bit for bit (the code does not read the state: same instructions, same result); a state "
    "that cannot be established (Die refuses the size) is skipped, not reported",
]

# The per-case lemmas are proved by `interval with (i_prec 90)`, whose multi-precision arithmetic is
# Bignums over Coq's primitive 63-bit integers: besides the Reals axioms allowed for the theorem file
# they depend on the standard library's PrimInt63 primitives and their Uint63 specification axioms
# (Coq.Numbers.Cyclic.Int63). Nothing else is accepted (no primitive floats are involved).
def interval_axiom_ok(name: str) -> bool:
    return name in core.ALLOWED_AXIOMS or name.startswith("Uint63.") or name.startswith("PrimInt63.")


# --------------------------------------------------------------------------
# running the implementation
# --------------------------------------------------------------------------
def _impl():
    from tools.force.fruchterman_reingold import circle_circle_intersection_area
    from frame.geometry.geometry import Point
    return circle_circle_intersection_area, Point


# Process state: the class-wide Rectangle tolerances. A state is plain data:
#   ["eps", e]       Rectangle.set_epsilon(e)            (area tolerance sqrt(e))
#   ["eps2", e, a]   Rectangle.set_epsilon(e, a)
#   ["die", "WxH"]   a Die is loaded while the tolerances are undefined (defines them: 1e-11 * min(W, H))
#   ["undef"]        Rectangle.undefine_epsilon()        (the state of the first evaluation, again)
def apply_state(st) -> bool:
    """Establishes the state; False when it could not be established (not this property's business)."""
    from frame.geometry.geometry import Rectangle
    Rectangle.undefine_epsilon()
    try:
        if st[0] == "eps":
            Rectangle.set_epsilon(float(st[1]))
        elif st[0] == "eps2":
            Rectangle.set_epsilon(float(st[1]), float(st[2]))
        elif st[0] == "die":
            from frame.die.die import Die
            Die(str(st[1]))
            if not Rectangle.epsilon_defined():
                return False
        return True
    except Exception:  # noqa: BLE001
        Rectangle.undefine_epsilon()
        return False


def state_text(st) -> str:
    if st[0] == "eps":
        return f"after Rectangle.set_epsilon({float(st[1])!r})"
    if st[0] == "eps2":
        return f"after Rectangle.set_epsilon({float(st[1])!r}, {float(st[2])!r})"
    if st[0] == "die":
        return f"after Die({st[1]!r}) was loaded (tolerances undefined before)"
    return "after Rectangle.undefine_epsilon(), on the Point objects of the earlier calls"


def _integral(t) -> bool:
    return all(float(v).is_integer() and abs(v) < 2 ** 53 for v in t)


def call(case, states=(), form="float"):
    """-> (v, w, extra): f(c1,r1,c2,r2) and f(c2,r2,c1,r1) on fresh Point objects with the Rectangle tolerances
    undefined; an exception is returned as ('exc', text). extra[i] = the same pair evaluated in states[i], all on
    ONE pair of Point objects (the same object twice when the centres coincide); None when the state could not be
    established. form "int": integral inputs are passed as Python ints."""
    f, Point = _impl()
    from frame.geometry.geometry import Rectangle
    Rectangle.undefine_epsilon()
    x1, y1, r1, x2, y2, r2 = case
    if form == "int" and _integral(case):
        x1, y1, r1, x2, y2, r2 = (int(v) for v in case)

    def one(*a):
        try:
            return f(*a)
        except Exception as e:  # noqa: BLE001 - totality is part of the property
            return ("exc", f"{type(e).__name__}: {e}")

    v = one(Point(x1, y1), r1, Point(x2, y2), r2)
    w = one(Point(x2, y2), r2, Point(x1, y1), r1)
    extra = []
    if states:
        p1 = Point(x1, y1)
        p2 = p1 if (x1, y1) == (x2, y2) else Point(x2, y2)
        for st in states:
            try:
                if apply_state(st):
                    extra.append((one(p1, r1, p2, r2), one(p2, r2, p1, r1)))
                else:
                    extra.append(None)
            finally:
                Rectangle.undefine_epsilon()
    return v, w, extra


def call_history(steps, form="float"):
    """steps: input tuples t_0..t_k, evaluated in this order. Each step is evaluated on fresh Point objects (both
    argument orders) and then on ONE pair of Point objects that lives through the whole history and is moved in place
    (p.x = ..., p.y = ...) to the step's centres. -> list of ((v, w), (v', w')) per step."""
    f, Point = _impl()
    from frame.geometry.geometry import Rectangle
    Rectangle.undefine_epsilon()

    def one(*a):
        try:
            return f(*a)
        except Exception as e:  # noqa: BLE001
            return ("exc", f"{type(e).__name__}: {e}")

    p1 = p2 = None
    res = []
    for t in steps:
        x1, y1, r1, x2, y2, r2 = (int(v) for v in t) if form == "int" and _integral(t) else t
        fresh = (one(Point(x1, y1), r1, Point(x2, y2), r2), one(Point(x2, y2), r2, Point(x1, y1), r1))
        if p1 is None:
            p1, p2 = Point(x1, y1), Point(x2, y2)
        else:
            p1.x, p1.y, p2.x, p2.y = x1, y1, x2, y2
        res.append((fresh, (one(p1, r1, p2, r2), one(p2, r2, p1, r1))))
    return res


def case_tuple(case) -> tuple:
    c = case
    return (float(c["c1"][0]), float(c["c1"][1]), float(c["r1"]), float(c["c2"][0]), float(c["c2"][1]), float(c["r2"]))


def case_dict(t, cls="", states=None, form=None, before=None) -> dict:
    d = {"c1": [t[0], t[1]], "r1": t[2], "c2": [t[3], t[4]], "r2": t[5], "cls": cls}
    if before:
        d["before"] = [list(b) for b in before]
    if states:
        d["states"] = [list(st) for st in states]
    if form and form != "float":
        d["form"] = form
    return d


def _res(x) -> dict:
    return {"v": x if not isinstance(x, tuple) else None, "v_exc": x[1] if isinstance(x, tuple) else None}


def _unres(d, k="v"):
    return d[k] if d.get(k + "_exc") is None else ("exc", d[k + "_exc"])


def run_impl(case) -> dict:
    if case.get("before"):
        # a history: the earlier steps, then this input; observation = this input on fresh objects + every step twice
        steps = [tuple(float(x) for x in b) for b in case["before"]] + [case_tuple(case)]
        res = call_history(steps, case.get("form", "float"))
        (v, w) = res[-1][0]
        return {"v": _res(v)["v"], "v_exc": _res(v)["v_exc"], "w": _res(w)["v"], "w_exc": _res(w)["v_exc"],
                "history": [{"fresh": [_res(a[0]), _res(a[1])], "reused": [_res(b[0]), _res(b[1])]} for a, b in res]}
    v, w, extra = call(case_tuple(case), case.get("states") or (), case.get("form", "float"))
    obs = {"v": v if not isinstance(v, tuple) else None, "v_exc": v[1] if isinstance(v, tuple) else None,
           "w": w if not isinstance(w, tuple) else None, "w_exc": w[1] if isinstance(w, tuple) else None}
    if extra:
        obs["states"] = [None if e is None else
                         {"v": _res(e[0])["v"], "v_exc": _res(e[0])["v_exc"],
                          "w": _res(e[1])["v"], "w_exc": _res(e[1])["v_exc"]} for e in extra]
    return obs


# --------------------------------------------------------------------------
# reference and direct oracle
# --------------------------------------------------------------------------
def exact_class(t) -> str:
    """far / nested / lens, decided in exact rational arithmetic on the float inputs."""
    x1, y1, r1, x2, y2, r2 = (F(v) for v in t)
    D2 = (x1 - x2) ** 2 + (y1 - y2) ** 2
    if D2 >= (r1 + r2) ** 2:
        return "far"
    if D2 <= (r1 - r2) ** 2:
        return "nested"
    return "lens"


def reference(t):
    """Exact lens area of the two discs (mpmath, 40 digits), from the exact values of the floats."""
    import mpmath
    mpf = mpmath.mpf
    with mpmath.workdps(40):
        k = exact_class(t)
        x1, y1, r1, x2, y2, r2 = (F(v) for v in t)
        if k == "far":
            return mpf(0)
        if k == "nested":
            m = min(r1, r2)
            return mpmath.pi * mpf(m.numerator) / mpf(m.denominator) * mpf(m.numerator) / mpf(m.denominator)
        D2 = (x1 - x2) ** 2 + (y1 - y2) ** 2
        d2 = mpf(D2.numerator) / mpf(D2.denominator)
        d = mpmath.sqrt(d2)
        a, b = mpf(t[2]), mpf(t[5])
        # Heron / kite form, independent of the code's d*r1*sin(alpha)
        ca = (a * a + d2 - b * b) / (2 * a * d)
        cb = (b * b + d2 - a * a) / (2 * b * d)
        kite = mpmath.sqrt((-d + a + b) * (d + a - b) * (d - a + b) * (d + a + b)) / 2
        return a * a * mpmath.acos(ca) + b * b * mpmath.acos(cb) - kite


def judge(t, v, w):
    """The property as stated, on one input. Returns None or (kind, explanation)."""
    import mpmath
    for side, x in (("", v), (" (arguments swapped)", w)):
        if isinstance(x, tuple):
            kind = "domain-error" if "math domain error" in x[1] else "exception"
            return kind, f"the function raised {x[1]}{side}"
    for side, x in (("", v), (" (arguments swapped)", w)):
        if isinstance(x, bool) or not isinstance(x, (int, float)) or x != x or x in (math.inf, -math.inf):
            return "non-finite", f"result {x!r} is not a finite number{side}"
    r1, r2 = t[2], t[5]
    big2 = F(max(r1, r2)) ** 2
    tol = REL_TOL * big2
    small = math.pi * min(r1, r2) ** 2
    for side, x in (("", v), (" (arguments swapped)", w)):
        if x < 0:
            return "negative", f"negative area {x!r}{side}"
        if x > small * (1 + UPPER_SLACK):
            return "above-small-disc", f"area {x!r} exceeds the smaller disc's area {small!r}{side}"
    if abs(F(v) - F(w)) > tol:
        return "asymmetric", f"f(c1,r1,c2,r2) = {v!r} but f(c2,r2,c1,r1) = {w!r} (tolerance {float(tol):.3e})"
    ref = reference(t)
    with mpmath.workdps(40):
        err = abs(mpmath.mpf(v) - ref)
        if err > mpmath.mpf(tol.numerator) / mpmath.mpf(tol.denominator):
            return "inaccurate", (f"area {v!r} but the exact lens area is {mpmath.nstr(ref, 17)} "
                                  f"(error {mpmath.nstr(err, 3)} > {float(tol):.3e} = 1e-5*max(r)^2)")
    return None


def _bits(x):
    """Value-level identity of a result: exception text, or the bits of the number."""
    if isinstance(x, tuple):
        return x
    try:
        return float(x).hex()
    except Exception:  # noqa: BLE001
        return repr(x)


def judge_states(t, v, w, states, extra):
    """The function is a function of its arguments: the results obtained with the class-wide Rectangle tolerances
    defined (and afterwards undefined again, on reused Point objects) are those of the first evaluation."""
    for st, e in zip(states, extra):
        if e is None:
            continue
        for side, base, got in (("", v, e[0]), (" (arguments swapped)", w, e[1])):
            if _bits(base) != _bits(got):
                def show(x):
                    return f"raises {x[1]}" if isinstance(x, tuple) else f"= {x!r}"
                j = judge(t, e[0], e[1])
                more = f"; that result violates the property by itself ({j[0]}: {j[1]})" if j else ""
                return "state-dependent", (f"f{side} {show(base)} with the Rectangle tolerances undefined but "
                                           f"{show(got)} {state_text(st)}{more}")
    return None


def judge_history(steps, res):
    """Reused, moved-in-place Point objects must give what fresh objects with the same coordinates give."""
    for i, (t, (fresh, reused)) in enumerate(zip(steps, res)):
        for side, a, b in (("", fresh[0], reused[0]), (" (arguments swapped)", fresh[1], reused[1])):
            if _bits(a) != _bits(b):
                def show(x):
                    return f"raises {x[1]}" if isinstance(x, tuple) else f"= {x!r}"
                return "history-dependent", (
                    f"step {i} of a history of {len(steps)} calls, c1=({t[0]!r}, {t[1]!r}) r1={t[2]!r} c2=({t[3]!r}, "
                    f"{t[4]!r}) r2={t[5]!r}: f{side} {show(a)} on fresh Point objects but {show(b)} on the two Point "
                    f"objects of the earlier calls moved in place to these centres")
    return None


def oracle(case, obs):
    t = case_tuple(case)
    v = obs["v"] if obs.get("v_exc") is None else ("exc", obs["v_exc"])
    w = obs["w"] if obs.get("w_exc") is None else ("exc", obs["w_exc"])
    j = judge(t, v, w)
    if j is None and obs.get("history"):
        steps = [tuple(float(x) for x in b) for b in case["before"]] + [t]
        res = [((_unres(h["fresh"][0]), _unres(h["fresh"][1])), (_unres(h["reused"][0]), _unres(h["reused"][1])))
               for h in obs["history"]]
        j = judge_history(steps, res)
    if j is None and obs.get("states"):
        extra = [None if e is None else (_unres(e, "v"), _unres(e, "w")) for e in obs["states"]]
        j = judge_states(t, v, w, case.get("states") or [], extra)
    return None if j is None else f"{j[0]}: {j[1]}"


def readable(case) -> str:
    t = case_tuple(case)
    if case.get("form") == "int" and _integral(t):
        t = tuple(int(v) for v in t)
    x1, y1, r1, x2, y2, r2 = t
    txt = f"c1=({x1!r}, {y1!r}) r1={r1!r} c2=({x2!r}, {y2!r}) r2={r2!r}"
    if case.get("before"):
        txt += "; evaluated after the calls " + "; ".join(
            f"c1=({b[0]!r}, {b[1]!r}) r1={b[2]!r} c2=({b[3]!r}, {b[4]!r}) r2={b[5]!r}" for b in case["before"]) + \
            " (each on fresh Point objects and on one reused pair moved in place)"
    if case.get("states"):
        txt += "; evaluated first with the Rectangle tolerances undefined, then " + ", then ".join(
            state_text(st) for st in case["states"])
    return txt


def fail_entry(case, obs, why, **more) -> dict:
    return {"key": failure_key(case, why), "why": why, "input": readable(case),
            "call": "tools.force.fruchterman_reingold.circle_circle_intersection_area(Point(*c1), r1, Point(*c2), r2)",
            "case": fr.tojson(case), "impl": fr.tojson(obs), **more}


def failure_key(case, why):
    kind = (why or "").split(":")[0]
    if kind not in ("domain-error", "exception", "non-finite", "negative", "above-small-disc", "asymmetric",
                    "inaccurate", "state-dependent", "history-dependent"):
        kind = "disagree"
    return f"C17/{kind}"


# --------------------------------------------------------------------------
# generators (floats)
# --------------------------------------------------------------------------
def ulps(x: float, k: int) -> float:
    for _ in range(abs(k)):
        x = math.nextafter(x, math.inf if k > 0 else -math.inf)
    return x


NICE = [0.1, 0.2, 0.3, 0.5, 0.7, 1.0, 1.1, 1.5, 2.0, 2.19, 2.5, 3.0, 3.3, 4.7, 10.0, 0.01, 100.0, 1e-3, 1e3, 1e6]


def radius(rng, s=None):
    if s is None:
        s = 10 ** rng.uniform(-3, 6)
    m = rng.random()
    if m < 0.15:
        return rng.choice(NICE)
    if m < 0.3:
        return round(s * rng.uniform(0.01, 1), rng.choice([1, 2, 3, 6])) or s
    return s * rng.uniform(0.01, 1)


def place(rng, d, generic):
    """Centres at (floating) distance d. Axis-aligned placements give exactly d back from norm()
    (up to pow's rounding); generic ones go through a rotation and an offset."""
    if not generic:
        o = rng.choice([(1, 0), (-1, 0), (0, 1), (0, -1)])
        return 0.0, 0.0, o[0] * d + 0.0, o[1] * d + 0.0
    th = rng.uniform(0, 2 * math.pi)
    if rng.random() < 0.3:
        a, b, c = rng.choice([(3, 4, 5), (5, 12, 13), (8, 15, 17), (7, 24, 25), (20, 21, 29)])
        ux, uy = a / c, b / c
    else:
        ux, uy = math.cos(th), math.sin(th)
    ox, oy = (rng.uniform(-1, 1) * d * rng.choice([0, 1, 10]) for _ in range(2))
    return ox, oy, ox + d * ux, oy + d * uy


CLASSES = ["ext-tangent-ulp", "int-tangent-ulp", "ext-tangent-generic", "int-tangent-generic", "tangent-decimal",
           "small-in-large-tangent", "equal-discs", "concentric", "far", "nested", "lens-scale-sweep", "lens-thin",
           "random"]
WEIGHTS = [18, 18, 8, 8, 5, 8, 8, 2, 3, 3, 10, 5, 4]


def gen_float_case(rng):
    cls = rng.choices(CLASSES, WEIGHTS)[0]
    s = 10 ** rng.uniform(-3, 6)
    r1, r2 = radius(rng, s), radius(rng, s)
    if cls in ("ext-tangent-ulp", "ext-tangent-generic"):
        d = ulps(r1 + r2, rng.randint(-8, 8))
        t = (*place(rng, d, cls.endswith("generic")),)
    elif cls in ("int-tangent-ulp", "int-tangent-generic"):
        if r1 == r2:
            r2 = r1 * rng.choice([0.5, 0.75, 0.9, 0.999])
        d = ulps(abs(r1 - r2), rng.randint(-8, 8))
        if d < 0:
            d = 0.0
        t = (*place(rng, d, cls.endswith("generic")),)
    elif cls == "tangent-decimal":
        a = round(rng.uniform(0.01, 10) * 10 ** rng.randint(-1, 2), rng.choice([1, 2, 3]))
        b = round(rng.uniform(0.01, 10) * 10 ** rng.randint(-1, 2), rng.choice([1, 2, 3]))
        a, b = a or 0.1, b or 0.2
        r1, r2 = a, b
        # the decimal the user means: d = a+b or |a-b| rounded to the written digits
        d = round(a + b, 3) if rng.random() < 0.5 else round(abs(a - b), 3)
        t = (*place(rng, d, False),)
    elif cls == "small-in-large-tangent":
        r1 = rng.choice([0.1, 0.01, 1.0, s * 1e-3 * rng.uniform(0.1, 1), rng.uniform(0.05, 0.5)])
        r2 = rng.uniform(1, 100) if rng.random() < 0.7 else r1 * 10 ** rng.uniform(1, 6)
        base = abs(r2 - r1) if rng.random() < 0.7 else r1 + r2
        d = ulps(base, rng.randint(-8, 8))
        t = (*place(rng, d, rng.random() < 0.2),)
        if rng.random() < 0.5:
            r1, r2 = r2, r1
    elif cls == "equal-discs":
        r2 = r1
        m = rng.random()
        if m < 0.15:
            d = 0.0
        elif m < 0.3:
            d = r1 * 10 ** rng.uniform(-17, -1)
        elif m < 0.6:
            d = ulps(2 * r1, rng.randint(-8, 8))
        else:
            d = r1 * rng.uniform(0, 2.2)
        t = (*place(rng, d, rng.random() < 0.3),)
    elif cls == "concentric":
        x, y = rng.uniform(-s, s), rng.uniform(-s, s)
        t = (x, y, x, y)
    elif cls == "far":
        d = (r1 + r2) * (1 + 10 ** rng.uniform(-12, 3))
        t = (*place(rng, d, rng.random() < 0.5),)
    elif cls == "nested":
        d = abs(r1 - r2) * (1 - 10 ** rng.uniform(-12, 0))
        t = (*place(rng, max(d, 0.0), rng.random() < 0.5),)
    elif cls == "lens-scale-sweep":
        lo, hi = abs(r1 - r2), r1 + r2
        d = lo + (hi - lo) * rng.random()
        t = (*place(rng, d, rng.random() < 0.5),)
    elif cls == "lens-thin":
        lo, hi = abs(r1 - r2), r1 + r2
        e = 10 ** rng.uniform(-15, -2)
        d = hi * (1 - e) if rng.random() < 0.5 else lo * (1 + e) + (hi - lo) * e * 1e-3
        t = (*place(rng, d, rng.random() < 0.5),)
    else:
        box = s * rng.choice([1, 3, 10])
        t = (rng.uniform(-box, box), rng.uniform(-box, box), rng.uniform(-box, box), rng.uniform(-box, box))
    return (t[0], t[1], r1, t[2], t[3], r2), cls


# --------------------------------------------------------------------------
# coincidence stream: exact right triangles, a centre exactly on the other boundary
# --------------------------------------------------------------------------
def _isq(n: int):
    r = math.isqrt(n)
    return r if r * r == n else None


_BASES: dict = {}


def coincidence_bases(N: int, M: int) -> list:
    """Integer configurations (a, b, r1, r2, kind): centre offset (a, b) with 0 <= b <= a <= N, d^2 = a^2 + b^2, and
    'right-angle': d^2 + r1^2 = r2^2 (the common chord passes through the centre of disc 1; r1 <= M) - all
    Pythagorean triples (b = 0 or d integral) and all (a,b)-offset right triangles; 'orthogonal': r1^2 + r2^2 = d^2."""
    if (N, M) not in _BASES:
        out = []
        for a in range(1, N + 1):
            for b in range(0, a + 1):
                d2 = a * a + b * b
                for r1 in range(1, M + 1):
                    r2 = _isq(d2 + r1 * r1)
                    if r2:
                        out.append((a, b, r1, r2, "right-angle"))
                    if r1 * r1 < d2:
                        r2 = _isq(d2 - r1 * r1)
                        if r2 and r2 >= r1:
                            out.append((a, b, r1, r2, "orthogonal"))
        _BASES[(N, M)] = out
    return _BASES[(N, M)]


def bases_of(N, M, kind) -> list:
    if (N, M, kind) not in _BASES:
        _BASES[(N, M, kind)] = [x for x in coincidence_bases(N, M) if x[4] == kind]
    return _BASES[(N, M, kind)]


SYMMETRIES = [(1, 1, 0), (1, -1, 0), (-1, 1, 0), (-1, -1, 0), (1, 1, 1), (1, -1, 1), (-1, 1, 1), (-1, -1, 1)]
DECIMAL_SCALES = ["0.1", "0.01", "0.001", "0.25", "0.3", "0.5", "0.7", "1.1", "1.5", "2.5", "10", "100", "1000",
                  "0.05", "0.125", "12.5", "1e4"]
PRODUCT_SCALES = [0.1, 0.3, 1 / 3, 0.7, 1.1, math.pi, 1e-2, 1e3]


def _sym(a, b, k):
    sa, sb, sw = SYMMETRIES[k]
    a, b = sa * a, sb * b
    return (b, a) if sw else (a, b)


def coincidence_exhaustive(N=24, M=40) -> list:
    """Every base configuration under the 8 symmetries of the offset, at the origin, unscaled; with the disc whose
    centre lies on the chord first (the evaluation swaps the arguments itself) - as floats, and as Python ints for
    one symmetry of each."""
    out = []
    for a, b, r1, r2, kind in coincidence_bases(N, M):
        seen = set()
        for k in range(8):
            o = _sym(a, b, k)
            if o in seen:
                continue
            seen.add(o)
            out.append(((0.0, 0.0, float(r1), float(o[0]), float(o[1]), float(r2)), f"coinc-{kind}-unit", "float"))
        o = _sym(a, b, (a + b + r1) % 8)
        out.append(((0.0, 0.0, float(r1), float(o[0]), float(o[1]), float(r2)), f"coinc-{kind}-int", "int"))
    return out


def gen_coincidence_case(rng):
    """A random transformation of a base configuration: symmetry of the offset, scale (power of two: exact;
    decimal as written; floating product), position of the first centre (origin, integers, dyadic, large, decimal),
    order of the two discs, int / float form. Or a disc whose centre lies exactly on the other disc's boundary."""
    m = rng.random()
    if m < 0.22:
        return gen_boundary_case(rng)
    want = "right-angle" if rng.random() < 0.65 else "orthogonal"
    a, b, r1, r2, kind = rng.choice(bases_of(40, 60, want))
    a, b = _sym(a, b, rng.randrange(8))
    vals = [F(a), F(b), F(r1), F(r2)]
    m = rng.random()
    product = None
    if m < 0.25:
        sk, sc = "unit", F(1)
    elif m < 0.6:
        sk, sc = "pow2", F(2) ** rng.randint(-9, 14)
    elif m < 0.9:
        sk, sc = "decimal", F(rng.choice(DECIMAL_SCALES))
    else:
        sk, sc, product = "product", F(1), rng.choice(PRODUCT_SCALES)
    while max(vals[2], vals[3]) * sc > 10 ** 6:
        sc /= 2
    m = rng.random()
    if m < 0.4:
        ox, oy = F(0), F(0)
    elif m < 0.6:
        ox, oy = F(rng.randint(-10, 10)), F(rng.randint(-10, 10))
    elif m < 0.75:
        ox, oy = F(rng.randint(-80, 80), 8), F(rng.randint(-80, 80), 8)
    elif m < 0.85:
        ox, oy = F(rng.randint(-9, 9) * 2 ** 20), F(rng.randint(-9, 9) * 2 ** 20)
    else:
        ox, oy = F(rng.randint(-100, 100), 10), F(rng.randint(-100, 100), 10)
    if product is not None:
        fa, fb, fr1, fr2 = (float(v) * product for v in vals)
        x1, y1 = float(ox), float(oy)
        t = (x1, y1, fr1, x1 + fa, y1 + fb, fr2)
    elif rng.random() < 0.5:
        # the decimal the user writes: every number rounded once from its exact value
        t = (float(ox), float(oy), float(vals[2] * sc), float(ox + vals[0] * sc), float(oy + vals[1] * sc),
             float(vals[3] * sc))
    else:
        # computed in floating point from the written scale
        fs = float(sc)
        x1, y1 = float(ox), float(oy)
        t = (x1, y1, float(vals[2]) * fs, x1 + float(vals[0]) * fs, y1 + float(vals[1]) * fs, float(vals[3]) * fs)
    if rng.random() < 0.5:
        t = (t[3], t[4], t[5], t[0], t[1], t[2])
    form = "int" if _integral(t) and rng.random() < 0.5 else "float"
    if form == "float" and rng.random() < 0.1:
        # the neighbours of the coincidence: one number moved by 1..3 ulp (the chord passes next to the centre)
        i = rng.randrange(6)
        t = t[:i] + (ulps(t[i], rng.choice([-3, -2, -1, 1, 2, 3])),) + t[i + 1:]
        if min(t[2], t[5]) <= 0:
            return gen_coincidence_case(rng)
        sk += "-ulp"
    return t, f"coinc-{kind}-{sk}", form


def gen_boundary_case(rng):
    """d == r2 exactly in binary64 (the centre of disc 1 on the boundary of disc 2), r1 from equal to 1e-12 * r2:
    for a small r1, d^2 + r1^2 - r2^2 is r1^2 or - by absorption - exactly 0."""
    a, b = rng.randint(1, 40), rng.randint(0, 40)
    if rng.random() < 0.4:
        b = 0
    a, b = _sym(a, b, rng.randrange(8))
    sc = rng.choice([1.0, 1.0, 2.0 ** rng.randint(-9, 14), float(F(rng.choice(DECIMAL_SCALES)))])
    ox, oy = rng.choice([(0.0, 0.0), (0.0, 0.0), (float(rng.randint(-10, 10)), float(rng.randint(-10, 10))),
                         (rng.randint(-80, 80) / 8, rng.randint(-80, 80) / 8)])
    x2, y2 = ox + a * sc, oy + b * sc
    d = ((ox - x2) ** 2 + (oy - y2) ** 2) ** (1 / 2)       # as Point.norm computes it
    m = rng.random()
    if m < 0.15:
        r1 = d
    elif m < 0.45:
        r1 = d * 2.0 ** -rng.randint(1, 40)
    elif m < 0.75:
        r1 = d * 10.0 ** -rng.randint(1, 12)
    elif m < 0.85:
        r1 = d * rng.choice([0.5, 1.5, 1.25, 1.75, 1.999, 2.0 - 2.0 ** -40])
    else:
        r1 = d * rng.uniform(0.01, 1.99)
    t = (ox, oy, r1, x2, y2, d)
    if rng.random() < 0.5:
        t = (t[3], t[4], t[5], t[0], t[1], t[2])
    return t, "coinc-centre-on-boundary", "float"


def realised(t) -> bool:
    """Does the coincidence survive in binary64 (as the code computes its terms)? - for the evidence only."""
    x1, y1, r1, x2, y2, r2 = t
    d = ((x1 - x2) ** 2 + (y1 - y2) ** 2) ** (1 / 2)
    return (r1 ** 2 + d ** 2 - r2 ** 2 == 0 or r2 ** 2 + d ** 2 - r1 ** 2 == 0 or d ** 2 - r1 ** 2 - r2 ** 2 == 0
            or d == r1 or d == r2)


# --------------------------------------------------------------------------
# histories: the same two Point objects moved in place from call to call
# --------------------------------------------------------------------------
def gen_trajectory(rng, K=6):
    """A layout-like history: a starting configuration (any class of the float stream, or a coincidence) and K-1
    follow-ups - a centre moved by a relative step 1e-12..0.05 of the offset (or by an absolute fraction of the radius
    when the centres coincide), a radius changed, radii or centres exchanged, the first configuration revisited,
    fresh radii at the same centres."""
    if rng.random() < 0.3:
        t0, cls, _ = gen_coincidence_case(rng)
    else:
        t0, cls = gen_float_case(rng)
    steps = [t0]
    for _ in range(K - 1):
        x1, y1, r1, x2, y2, r2 = steps[-1]
        u = rng.choice([1e-12, 1e-9, 1e-6, 1e-3, 0.05]) * rng.choice([-1, 1])
        dx, dy = (x2 - x1) or r1, (y2 - y1) or (r2 * rng.choice([0, 1]))
        m = rng.random()
        if m < 0.3:
            x2, y2 = x2 + dx * u, y2 + dy * u
        elif m < 0.45:
            x1, y1 = x1 - dx * u, y1 + dy * u
        elif m < 0.6:
            r2 = r2 * (1 + u)
        elif m < 0.7:
            r1, r2 = r2, r1
        elif m < 0.8:
            x1, y1, x2, y2 = x2, y2, x1, y1
        elif m < 0.9:
            x1, y1, r1, x2, y2, r2 = steps[0]
        else:
            s = max(r1, r2)
            r1, r2 = radius(rng, s), radius(rng, s)
        steps.append((x1, y1, r1, x2, y2, r2))
    return steps, "traj:" + cls


# --------------------------------------------------------------------------
# process states for the state runs
# --------------------------------------------------------------------------
ABS_EPS = [0.0, 1e-300, 1e-12, 1e-9, 1e-6, 1e-3, 0.3, 1.0, 1e3, 1e12]


def pick_states(rng, t) -> list:
    """Small, ordinary and large tolerances relative to the larger radius s (and absolute ones), through
    set_epsilon(e), set_epsilon(e, a) or a loaded Die; then undefined again."""
    s = max(t[2], t[5])
    out = [["eps", s * rng.choice([1e-15, 1e-12, 1e-11, 1e-9])]]
    e = s * rng.choice([1e-6, 1e-3, 0.05, 0.3]) if rng.random() < 0.7 else rng.choice(ABS_EPS)
    if rng.random() < 0.3:
        out.append(["eps2", e, rng.choice([0.0, e, e * s, s * s * rng.choice([1e-9, 1e-3, 0.3, 10.0])])])
    else:
        out.append(["eps", e])
    m = rng.random()
    if m < 0.06:
        # Die: tolerance 1e-11 * min(W, H)
        k = rng.choice([1e9, 1e10, 3e10, 1e11, 1e12])
        lo = max(1, int(s * k))
        out.append(["die", f"{lo * rng.choice([1, 2, 5])}x{lo}"])
    elif m < 0.2:
        big = s * rng.choice([1.0, 10.0, 1e6])
        out.append(["eps2", big, s * s * rng.choice([0.0, 1e-6, 1.0, 100.0])])
    else:
        out.append(["eps", s * rng.choice([1.0, 10.0, 1e6])])
    out.append(["undef"])
    return out


# --------------------------------------------------------------------------
# float exploration (parallel)
# --------------------------------------------------------------------------
def _explore_chunk(args):
    mode, seed, payload, repo = args
    import sys
    if repo not in sys.path:
        sys.path.insert(0, repo)
    rng = random.Random(seed)
    srng = random.Random(seed * 7919 + 17)      # states: a stream of their own (the input stream stays as it was)
    dist: dict[str, int] = {}
    fails: dict[str, list] = {}
    nfail: dict[str, int] = {}
    seen = set()
    asym_bits = 0
    nreal = 0
    nstate = 0
    if mode == "traj":
        nsteps = 0
        for _ in range(payload):
            steps, cls = gen_trajectory(rng)
            res = call_history(steps)
            nsteps += len(steps)
            dist[cls + "/steps"] = dist.get(cls + "/steps", 0) + len(steps)
            j, at = None, len(steps) - 1
            for i, (t, (fresh, _r)) in enumerate(zip(steps, res)):
                seen.add((t, "traj"))
                j = judge(t, fresh[0], fresh[1])
                if j:
                    at = i
                    break
            j = j or judge_history(steps, res)
            if j:
                if j[0] == "history-dependent":
                    at = int(j[1].split()[1])
                nfail[j[0]] = nfail.get(j[0], 0) + 1
                lst = fails.setdefault(j[0], [])
                if len(lst) < 3:
                    lst.append((steps[at], cls, j[1], None, None, None, "float", steps[:at]))
        return dist, fails, nfail, len(seen), 0, 0, 0, nsteps
    if mode == "float":
        items = ((*gen_float_case(rng), "float") for _ in range(payload))
    elif mode == "coinc":
        items = (gen_coincidence_case(rng) for _ in range(payload))
    else:
        items = iter(payload)
    for t, cls, form in items:
        states = pick_states(srng, t)
        v, w, extra = call(t, states, form)
        k = exact_class(t)
        dist[f"{cls}/{k}"] = dist.get(f"{cls}/{k}", 0) + 1
        seen.add((t, form))
        if v != w:
            asym_bits += 1
        if mode != "float" and realised(t):
            nreal += 1
        nstate += sum(1 for e in extra if e is not None)
        j = judge(t, v, w) or judge_states(t, v, w, states, extra)
        if j:
            nfail[j[0]] = nfail.get(j[0], 0) + 1
            lst = fails.setdefault(j[0], [])
            if len(lst) < 3:
                lst.append((t, cls, j[1], repr(v), repr(w), states, form, None))
    return dist, fails, nfail, len(seen), asym_bits, nreal, nstate, 0


def explore(ctx, out, total, n_coinc=0, n_traj=0):
    nproc = min(14, os.cpu_count() or 2)
    per = 5000
    repo = str(core.REPO)
    chunks = [("float", ctx.seed * 1_000_003 + i, min(per, total - i * per), repo)
              for i in range((total + per - 1) // per)]
    n_list = 0
    if n_coinc:
        ex = coincidence_exhaustive()
        if n_coinc < len(ex):      # oracle-only runs: a deterministic sample
            ex = ex[::max(1, len(ex) // n_coinc)]
        n_list = len(ex)
        for i in range(0, len(ex), 2500):
            chunks.append(("list", ctx.seed * 1_000_003 + 500_000 + i, ex[i:i + 2500], repo))
        rest = max(0, n_coinc - len(ex))
        for i in range((rest + 2500 - 1) // 2500):
            chunks.append(("coinc", ctx.seed * 1_000_003 + 700_000 + i, min(2500, rest - i * 2500), repo))
    for i in range((n_traj + 500 - 1) // 500):
        chunks.append(("traj", ctx.seed * 1_000_003 + 900_000 + i, min(500, n_traj - i * 500), repo))
    with mp.get_context("fork").Pool(nproc) as pool:
        results = pool.map(_explore_chunk, chunks, chunksize=1)
    distinct = 0
    nsteps = 0
    nfail: dict[str, int] = {}
    collected: dict[str, list] = {}
    asym_bits = nreal = nstate = 0
    for dist, fails, nf, nd, ab, nr, ns, nst in results:
        nsteps += nst
        for k, v in dist.items():
            out.count("float:" + k, v)
        distinct += nd
        asym_bits += ab
        nreal += nr
        nstate += ns
        for k, v in nf.items():
            nfail[k] = nfail.get(k, 0) + v
        for k, lst in fails.items():
            collected.setdefault(k, []).extend(lst)
    n_all = total + n_list + max(0, n_coinc - n_list)
    out.evaluations += n_all + nsteps
    out.extra["float_cases"] = n_all
    out.extra["coincidence_cases"] = n_all - total
    out.extra["histories"] = n_traj
    out.extra["history_steps"] = nsteps
    out.extra["coincidence_cases_exact_in_binary64"] = nreal
    out.extra["state_runs"] = nstate
    out.extra["float_failures_by_kind"] = nfail
    out.extra["float_results_not_bitwise_symmetric"] = asym_bits
    for kind in sorted(collected):
        t, cls, why, v, w, states, form, before = collected[kind][0]
        case = case_dict(t, cls, states if kind == "state-dependent" else None, form, before)
        small, obs, why2 = shrink_case(case, kind)
        entry = fail_entry(small, obs, why2, count_in_this_run=nfail[kind])
        if small != case:
            entry["shrunk_from"] = fr.tojson(case)
        out.failures.append(entry)
    return distinct


# --------------------------------------------------------------------------
# shrinking: towards origin / axis aligned / radius in [1,2) / few mantissa bits
# --------------------------------------------------------------------------
def _round_bits(x: float, bits: int) -> float:
    if x == 0:
        return x
    m, e = math.frexp(x)
    return math.ldexp(round(m * 2 ** bits) / 2 ** bits, e)


def shrink(case):
    x1, y1, r1, x2, y2, r2 = case_tuple(case)
    cls = case.get("cls", "")
    states, form = case.get("states"), case.get("form")
    before = case.get("before")
    if before:
        # shorter histories first; the other shrinking steps would change the relation between the steps
        yield case_dict((x1, y1, r1, x2, y2, r2), cls, states, form)
        for i in range(len(before)):
            yield case_dict((x1, y1, r1, x2, y2, r2), cls, states, form, before[:i] + before[i + 1:])
        return
    if states and len(states) > 1:
        for st in states:
            yield case_dict((x1, y1, r1, x2, y2, r2), cls, [st], form)
    if form:
        yield case_dict((x1, y1, r1, x2, y2, r2), cls, states, None)
    f, Point = _impl()
    d = (Point(x1, y1) - Point(x2, y2)).norm()
    if (x1, y1, y2) != (0.0, 0.0, 0.0) or x2 != d:
        yield case_dict((0.0, 0.0, r1, d, 0.0, r2), cls, states, form)
    big = max(r1, r2)
    if not 1 <= big < 2 and big > 0:
        k = 2.0 ** (-math.floor(math.log2(big)))
        sts = None
        if states:
            sts = [[st[0]] + [float(x) * k for x in st[1:]] if st[0] in ("eps", "eps2") else list(st) for st in states]
        yield case_dict((x1 * k, y1 * k, r1 * k, x2 * k, y2 * k, r2 * k), cls, sts, form)
    for bits in (8, 16, 24, 32, 40):
        for which in (2, 5):
            t = [x1, y1, r1, x2, y2, r2]
            nv = _round_bits(t[which], bits)
            if nv != t[which] and nv > 0:
                t[which] = nv
                yield case_dict(tuple(t), cls, states, form)


def shrink_case(case, kind, budget=200):
    def fails(c):
        obs = run_impl(c)
        why = oracle(c, obs)
        return (why if why and why.startswith(kind) else None), obs
    why, obs = fails(case)
    improved = True
    while improved and budget > 0:
        improved = False
        for cand in shrink(case):
            budget -= 1
            w, o = fails(cand)
            if w:
                case, why, obs, improved = cand, w, o, True
                break
    return case, obs, why


# --------------------------------------------------------------------------
# correspondence by proof (interval goals)
# --------------------------------------------------------------------------
def gr(x) -> str:
    """Exact real-number literal of a float / Fraction."""
    f = core.frac(x)
    n, d = f.numerator, f.denominator
    s = f"({n})" if n < 0 else f"{n}"
    return s if d == 1 else f"({s} / {d})"


def dyadic(rng, s):
    """A float with a short mantissa at scale s (keeps the Coq literals small; still a generic input)."""
    return _round_bits(s * rng.uniform(0.05, 1), rng.choice([6, 12, 30, 52]))


def gen_proof_case(rng):
    cls = rng.choices(["lens", "lens-axis", "lens-near-ext", "lens-near-int", "far", "nested", "equal", "concentric",
                       "decimal"], [6, 4, 3, 3, 1, 1, 2, 1, 3])[0]
    s = 10 ** rng.uniform(-3, 6)
    r1, r2 = dyadic(rng, s), dyadic(rng, s)
    lo, hi = abs(r1 - r2), r1 + r2
    generic = True
    if cls == "lens":
        d = lo + (hi - lo) * rng.uniform(0.02, 0.98)
    elif cls == "lens-axis":
        d, generic = lo + (hi - lo) * rng.uniform(0.02, 0.98), False
    elif cls == "lens-near-ext":
        d = hi * (1 - 10 ** rng.uniform(-4, -2))
    elif cls == "lens-near-int":
        if r1 == r2:
            r2 = r1 / 2
            lo, hi = abs(r1 - r2), r1 + r2
        d = lo * (1 + 10 ** rng.uniform(-4, -2)) + (hi - lo) * 1e-4
    elif cls == "far":
        d = hi * (1 + 10 ** rng.uniform(-4, 1))
    elif cls == "nested":
        d = lo * (1 - 10 ** rng.uniform(-4, 0))
    elif cls == "equal":
        r2 = r1
        d = 2 * r1 * rng.uniform(0.02, 0.98)
    elif cls == "concentric":
        d = 0.0
    else:
        r1 = rng.choice(NICE[:15])
        r2 = rng.choice(NICE[:15])
        lo, hi = abs(r1 - r2), r1 + r2
        d = round(lo + (hi - lo) * rng.uniform(0.05, 0.95), 2)
        generic = False
    x1, y1, x2, y2 = place(rng, d, generic)
    if generic:
        x1, y1, x2, y2 = (_round_bits(v, 30) for v in (x1, y1, x2, y2))
    t = (x1, y1, r1, x2, y2, r2)
    if not clear_of_tangency(t):
        return gen_proof_case(rng)
    return case_dict(t, "proof:" + cls)


def clear_of_tangency(t) -> bool:
    """keep clear of the singular points of the atan form"""
    x1, y1, r1, x2, y2, r2 = (F(v) for v in t)
    D2 = (x1 - x2) ** 2 + (y1 - y2) ** 2
    for edge in ((r1 + r2) ** 2, (r1 - r2) ** 2):
        if edge and abs(D2 - edge) < edge * F(1, 5000):
            return False
        if not edge and 0 < D2 < (r1 + r2) ** 2 * F(1, 10 ** 8):   # equal discs almost concentric: d -> 0 in a divisor
            return False
    return True


def gen_coincidence_proof_case(rng):
    """An exact coincidence (right angle at a centre / orthogonal circles; unscaled or scaled by a power of two;
    either order; origin or integer position) as an interval goal: the model's value there (cosine exactly 0,
    Disc/LensCoincide.v) against the implementation's."""
    while True:
        want = "right-angle" if rng.random() < 0.7 else "orthogonal"
        a, b, r1, r2, kind = rng.choice(bases_of(24, 40, want))
        a, b = _sym(a, b, rng.randrange(8))
        sc = 2.0 ** rng.choice([0, 0, 0, -3, -2, -1, 1, 2, 5])
        ox, oy = rng.choice([(0.0, 0.0), (float(rng.randint(-10, 10)), float(rng.randint(-10, 10)))])
        t = (ox, oy, r1 * sc, ox + a * sc, oy + b * sc, r2 * sc)
        if rng.random() < 0.5:
            t = (t[3], t[4], t[5], t[0], t[1], t[2])
        if clear_of_tangency(t):
            return case_dict(t, "proof:coincidence-" + kind)


def proof_lemma(i, case, v) -> str:
    t = case_tuple(case)
    tol = REL_TOL * F(max(t[2], t[5])) ** 2
    lo, hi = F(v) - tol, F(v) + tol
    args = " ".join(gr(x) for x in t)
    return (f"Lemma case_{i} : agrees (overlap_code {args}) {gr(lo)} {gr(hi)}.\n"
            f"Proof. lens_goal. Qed.\n")


def prove_cases(ctx, out, cases, shard):
    """cases: list of (case, obs). Returns list of bool (proved?)."""
    todo = []
    results = [None] * len(cases)
    for i, (case, obs) in enumerate(cases):
        if obs.get("v") is None or isinstance(obs["v"], bool) or obs["v"] != obs["v"] or abs(obs["v"]) == math.inf:
            results[i] = False
            continue
        todo.append(i)
    files = []
    for k in range(0, len(todo), shard):
        idx = todo[k:k + shard]
        name = f"lens_cases_{k // shard}"
        body = [HEADER] + [proof_lemma(i, cases[i][0], cases[i][1]["v"]) for i in idx]
        if k == 0 or not ctx.quick():   # identical proof script everywhere: one audit per run (all shards when thorough)
            body.append(f"Print Assumptions case_{idx[0]}.\n")
        (ctx.work / f"{name}.v").write_text("\n".join(body))
        files.append((name, idx))
    axioms = set()

    def run_files(fs):
        procs = []
        res = {}
        pending = list(fs)
        while pending or procs:
            while pending and len(procs) < 14:
                name, idx = pending.pop(0)
                p = subprocess.Popen(["timeout", "600", "coqc", "-Q", str(core.COQ), "FrameModel", f"{name}.v"],
                                     cwd=ctx.work, stdout=subprocess.PIPE, stderr=subprocess.STDOUT, text=True)
                procs.append((name, idx, p))
            name, idx, p = procs.pop(0)
            o, _ = p.communicate()
            res[name] = (p.returncode, o)
        return res

    res = run_files(files)
    retry = []
    for name, idx in files:
        rc, o = res[name]
        if rc == 0:
            for i in idx:
                results[i] = True
            if "Axioms:" in o:
                axioms.update(re.findall(r"^([A-Za-z_][A-Za-z0-9_.']*)\s*:", o.split("Axioms:")[-1], flags=re.M))
        else:
            for i in idx:   # find the culprit(s): one file per lemma
                n1 = f"lens_single_{i}"
                (ctx.work / f"{n1}.v").write_text(HEADER + "\n" + proof_lemma(i, cases[i][0], cases[i][1]["v"]))
                retry.append((n1, [i]))
    if retry:
        res = run_files(retry)
        for name, idx in retry:
            rc, o = res[name]
            results[idx[0]] = rc == 0
            if rc != 0:
                out.extra.setdefault("coq_errors", []).append(re.sub(r"\s+", " ", o)[-600:])
    out.extra["interval_goal_axioms"] = sorted(axioms)
    bad_ax = sorted(a for a in axioms if not interval_axiom_ok(a))
    if bad_ax:
        ctx.notes.append("interval goals depend on axioms outside the allow-list: " + ", ".join(bad_ax))
        out.disagreements.append({"key": "C17/axioms", "case": None, "impl": None, "explained": False,
                                  "why": "per-case proofs depend on axioms outside the allow-list: " + ", ".join(bad_ax)})
    return results


# --------------------------------------------------------------------------
def run(ctx, out, replay=None):
    quick = ctx.quick()
    n_proof = 40 if quick else 400
    n_proof_coinc = 6 if quick else 60
    n_float = 120_000 if quick else 4_000_000
    n_coinc = 24_000 if quick else 300_000
    n_traj = 2_000 if quick else 40_000
    out.rule = (
        "two streams. (1) proof stream: random discs (radii 1e-3..1e6, mantissas of 6..52 bits; generic and axis-aligned "
        "centres; lens / near-tangent (relative gap 1e-4..1e-2) / far / nested / equal / concentric / decimal inputs); for "
        "each, a Coq lemma bounding the model's value by the implementation's value +- 1e-5*max(r)^2 is proved by `interval`. "
        "(2) float stream: classes listed in `distribution` (float:<class>/<exact case>), most weight on centre distances "
        "within 0..8 ulp of r1+r2 and |r1-r2| (axis-aligned: exact ulp control; generic: through a rotation), decimal "
        "tangencies (0.1+0.2 vs 0.3), a small disc inside a large one, equal discs, concentric, far, nested, scale sweep "
        "1e-3..1e6, thin lenses, random; each case is evaluated in both argument orders and judged by the direct oracle "
        "(no exception, finite, symmetric, 0 <= v <= pi*min(r)^2, |v - mpmath reference| <= 1e-5*max(r)^2). "
        "(3) coincidence stream (float:coinc-*): radii and centre distance forming an exactly representable right "
        "triangle - every integer solution of d^2 + r1^2 = r2^2 (chord through a centre) and r1^2 + r2^2 = d^2 "
        "(orthogonal circles) with centre offset (a,b), 0 <= b <= a <= 24, r1 <= 40, under the 8 symmetries of the "
        "offset, as floats and as Python ints (exhaustive part), then random transformations of the solutions with "
        "a <= 40, r1 <= 60: scale (power of two / decimal as written / floating product), position (origin, "
        "integers, eighths, multiples of 2^20, tenths), order of the discs, int form; and discs whose centre lies "
        "exactly on the other's boundary (d == r2 in binary64, r1 from r2 down to 1e-12*r2); "
        "`coincidence_cases_exact_in_binary64` counts those where the coincidence survives rounding. "
        "(4) state runs: every case of (2) and (3) is evaluated again, on one reused pair of Point objects (the same "
        "object twice for coincident centres), with the class-wide Rectangle tolerances defined - small (1e-15..1e-9 "
        "of the larger radius), ordinary / absolute, large (1..1e6 radii), via set_epsilon(e), set_epsilon(e, a) or "
        "a Die loaded while they are undefined - and finally undefined again; each result must equal the first "
        "evaluation bit for bit (kind state-dependent). "
        "(5) histories (float:traj:*): 6 related configurations in a row (a centre moved by a relative step 1e-12..0.05, "
        "a radius changed, radii / centres exchanged, the first configuration revisited, fresh radii), each evaluated "
        "on fresh Point objects (judged by the oracle) and on one pair of Point objects moved in place from step to "
        "step; the two must agree bit for bit (kind history-dependent). "
        "distinct = distinct input tuples; all cases are non-trivial (each has its own radii and distance)")
    # ---- corpus / replay first: through impl + oracle + proof
    first = []
    if replay and "case" in replay and replay["case"]:
        first.append(fr.unjson(replay["case"]))
    first += fr.load_corpus("C17")
    proof_cases = []
    ndist = 0
    for i, case in enumerate(first):
        if not case.get("states"):      # stored cases too are evaluated in several process states
            case = dict(case, states=pick_states(random.Random(i), case_tuple(case)))
        obs = run_impl(case)
        out.add_case(fr.tojson(case), True)
        out.count("corpus/" + exact_class(case_tuple(case)))
        why = oracle(case, obs)
        if why:
            out.failures.append(fail_entry(case, obs, why))
    rng = ctx.rng
    while len(proof_cases) < n_proof + n_proof_coinc:
        case = gen_proof_case(rng) if len(proof_cases) < n_proof else gen_coincidence_proof_case(rng)
        obs = run_impl(case)
        out.add_case(fr.tojson(case), True)
        out.count(case["cls"] + "/" + exact_class(case_tuple(case)))
        why = oracle(case, obs)
        if why:
            out.failures.append(fail_entry(case, obs, why))
        proof_cases.append((case, obs, why))
    proved = prove_cases(ctx, out, [(c, o) for c, o, _ in proof_cases], shard=4 if quick else 10)
    nbad = 0
    for (case, obs, why), ok in zip(proof_cases, proved):
        if not ok:
            nbad += 1
            if nbad <= 50:
                out.disagreements.append({
                    "key": failure_key(case, why or "disagree"), "case": fr.tojson(case), "impl": fr.tojson(obs),
                    "explained": bool(why), "oracle": why,
                    "why": "Coq could not prove that the model's value lies within 1e-5*max(r)^2 of the implementation's",
                    "coq_check": proof_lemma(0, case, obs["v"]) if obs.get("v") is not None else None})
    out.extra["interval_goals"] = len(proof_cases)
    out.extra["interval_goals_proved"] = len(proof_cases) - nbad
    out.extra["model_impl_agreements"] = len(proof_cases) - nbad
    # ---- float exploration
    n_distinct_float = explore(ctx, out, n_float, n_coinc, n_traj)
    base = len(out.distinct)

    class _Count:
        def __len__(self):
            return base + n_distinct_float
    out.distinct = _Count()


def run_oracle_only(ctx, out):
    for case in fr.load_corpus("C17"):
        obs = run_impl(case)
        out.add_case(fr.tojson(case), True)
        why = oracle(case, obs)
        if why:
            out.failures.append(fail_entry(case, obs, why))
    explore(ctx, out, 50_000, 10_000, 500)
