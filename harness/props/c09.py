"""C09 - the legaliser's constraint system admits exactly the legal floorplans.

Per case: one netlist of single-trunk orthogons + die + aspect-ratio limit + a set of
configurations.  The real code builds `Model(...)` (never solved); every equation is dumped
structurally and compared in Coq (vm_compute) with the model's generated list; the
configurations are assigned to the model's variables and `is_equation_met()` of every
equation is compared (a) with a transcription of Sem.v applied to the dumped trees and
(b) with the direct oracle: an independent geometric statement of "legal floorplan".
"""
from __future__ import annotations

import contextlib
import io
import math
import os
import random
import re
import shutil
import tempfile
from fractions import Fraction as F

from harness import core, fr
from harness.core import gq, gbool, glist, gopt, gstr, gnat

HEADER = """From Coq Require Import List String.
From FrameModel Require Import Num.QcTac Cases.Cmp Legal.Syntax Legal.Build Cases.CmpC09.
Import ListNotations.
Open Scope Qc_scope.
Notation C := Cst (only parsing). Notation V := Var (only parsing).
Notation E := mkEq (only parsing). Notation B := mkBox (only parsing)."""

ASSUMPTIONS = [
    "the system = the equation groups Area, Inter, Fix, Bounds, Shapes, Attach, Intra of the built Model; the annealing "
    "clock ('Exact Value': time == fixed_t) and the per-iteration trust region ('radius': Cap_* step caps around the "
    "current point) are not floorplan constraints and are excluded (their presence and shape is still checked)",
    "GEKKO variable bounds (w,h >= 0.1, x in [0,dw] ...) are not equations and are not seen by is_equation_met; "
    "theorems assume positive widths/heights and an aspect-ratio limit >= 1",
    "tolerance exactly as Equation.is_equation_met: epsilon + 1e-6 for the (all soft) floorplan equations, with "
    "epsilon = 0.3*0.9**time read as 0 below 1e-6; theorems hold for every epsilon >= 0",
    "roles (trunk / N / S / E / W) are those assigned by create_stog when the Netlist is loaded (C06); the model takes "
    "them as input",
    "real-number semantics (Coq R) versus binary64: configurations are dyadic and either satisfy every clause exactly "
    "or violate one by more than 10*(epsilon+1e-6) (+2*tau for overlaps), so rounding cannot change a verdict; the "
    "semantics file Sem.v is tied to ExpressionTree.evaluate/is_equation_met by a line-by-line Python transcription "
    "(py_eval/py_met) run on every equation of every configuration",
    "constants of Inter (4*tau*tau, tau = 0.01*min(dw,dh)/#modules) and Shapes (10*thin(r,1)) involve non-dyadic "
    "decimals and are compared within 1e-12 relative; every other constant exactly on the integer/dyadic stream, "
    "within 1e-12 on the decimal stream (model run on the exact binary values the implementation received)",
    "sqrt(CST) and CST**CST with a non-natural exponent (folded by the overloads with libm) are not modelled; the "
    "equation generator never produces them (a Sqrt/Pow node over a variable is always built)",
]

GROUPS = {"Area": "GArea", "Inter": "GInter", "Fix": "GFix", "Bounds": "GBounds", "Shapes": "GShapes",
          "Attach": "GAttach", "Intra": "GIntra"}
CLAUSE_GROUP = {"inside": "Bounds", "aspect": "Shapes", "area": "Area", "attach": "Attach", "order": "Intra",
                "overlap": "Inter", "rigid": "Fix"}
SIDES = ["NORTH", "SOUTH", "EAST", "WEST"]
LOCS = {"TRUNK": "LTrunk", "NORTH": "LNorth", "SOUTH": "LSouth", "EAST": "LEast", "WEST": "LWest",
        "NO_POLYGON": "LNoPoly"}
TIMES = [1, 30, 60, 200]          # epsilon = 0.27, 0.0127, 5.4e-4, 0 (below the 1e-6 cut)


def eps_of_time(t):
    e = 0.3 * 0.9 ** t
    return 0.0 if e < 1e-6 else e


# ----------------------------------------------------------------------------------
# geometry helpers (boxes are (x, y, w, h) with centre coordinates, exact Fractions)
# ----------------------------------------------------------------------------------
def edges(b):
    x, y, w, h = b
    return x - w / 2, y - h / 2, x + w / 2, y + h / 2


def from_edges(x0, y0, x1, y1):
    return [(x0 + x1) / 2, (y0 + y1) / 2, x1 - x0, y1 - y0]


def structure(locs):
    """rectangle ids of the legaliser's variables: trunk 0, then N, S, E, W branches in netlist
    order.  Returns (order, sides): order[i] = position in the module's rectangle list of
    variable-rectangle i; sides[i] = role of variable-rectangle i."""
    trunk = [k for k, l in enumerate(locs) if l == "TRUNK"]
    order = [trunk[0]]
    sides = ["TRUNK"]
    for s in SIDES:
        for k, l in enumerate(locs):
            if l == s:
                order.append(k)
                sides.append(s)
    return order, sides


# ----------------------------------------------------------------------------------
# generator
# ----------------------------------------------------------------------------------
def gen_module(rng, kind, slot, q, ratio, force_sides=None):
    """A single-trunk orthogon inside slot=(x0,y0,x1,y1); coordinates multiples of 1/q.
    Returns list of boxes (trunk first) + intended roles."""
    sx0, sy0, sx1, sy1 = slot
    for _ in range(200):
        tw = F(rng.randrange(2 * q, 8 * q + 1), q)
        th = F(rng.randrange(2 * q, 8 * q + 1), q)
        if q == 1:                       # integer stream: even sizes so that centres are integers
            tw, th = 2 * (tw // 2 + 1), 2 * (th // 2 + 1)
        if tw > ratio * th or th > ratio * tw:
            continue
        nb = rng.choice([0, 1, 1, 2, 2, 3, 3]) if force_sides is None else len(force_sides)
        side_list = force_sides if force_sides is not None else [rng.choice(SIDES) for _ in range(nb)]
        if rng.random() < 0.35 and nb >= 2 and force_sides is None:
            side_list = [side_list[0]] * nb          # several branches on one side
        depth = {s: F(0) for s in SIDES}
        per_side = {s: side_list.count(s) for s in SIDES}
        # place the trunk leaving room for 3 units of branch on each used side
        room = {s: (F(3) if per_side[s] else F(0)) for s in SIDES}
        lo_x, hi_x = sx0 + room["WEST"], sx1 - room["EAST"] - tw
        lo_y, hi_y = sy0 + room["SOUTH"], sy1 - room["NORTH"] - th
        if hi_x < lo_x or hi_y < lo_y:
            continue
        step = F(1, q) if q > 1 else F(1)
        tx0 = lo_x + step * rng.randrange(0, int((hi_x - lo_x) / step) + 1)
        ty0 = lo_y + step * rng.randrange(0, int((hi_y - lo_y) / step) + 1)
        t = (tx0, ty0, tx0 + tw, ty0 + th)
        rects = [from_edges(*t)]
        roles = ["TRUNK"]
        ok = True
        for s in SIDES:
            k = per_side[s]
            if k == 0:
                continue
            lo, hi = (t[0], t[2]) if s in ("NORTH", "SOUTH") else (t[1], t[3])
            L = hi - lo
            # k disjoint sub-intervals of [lo, hi], cut points multiples of `step` (2*step for ints)
            unit = step if q > 1 else F(2)
            n_units = int(L / unit)
            if n_units < k:
                ok = False
                break
            cuts = sorted(rng.sample(range(0, n_units + 1), min(2 * k, n_units + 1)))
            if len(cuts) < 2 * k:
                # not enough cut points: use consecutive unit cells
                cuts = []
                for c in range(k):
                    cuts += [c, c + 1]
            ivs = [(lo + unit * cuts[2 * c], lo + unit * cuts[2 * c + 1]) for c in range(k)]
            if rng.random() < 0.25 and k == 1:
                ivs = [(lo, hi)]                      # flush with both corners
            elif rng.random() < 0.3 and k == 1 and n_units >= 3:
                u = rng.randrange(1, (n_units - 1) // 2 + 1)
                ivs = [(lo + unit * u, hi - unit * u)]   # centred on the trunk side, not flush: offset 0 along the side
            rng.shuffle(ivs)                          # netlist order != spatial order
            for (a, b) in ivs:
                wd = b - a
                # depth between wd/ratio and min(3, wd*ratio)
                dmin = wd / ratio
                dmax = min(F(3), wd * ratio)
                cand = [d for d in (unit * c for c in range(1, int(F(3) / unit) + 1)) if dmin <= d <= dmax]
                if not cand:
                    ok = False
                    break
                d = rng.choice(cand)
                if s == "NORTH":
                    rects.append(from_edges(a, t[3], b, t[3] + d))
                elif s == "SOUTH":
                    rects.append(from_edges(a, t[1] - d, b, t[1]))
                elif s == "EAST":
                    rects.append(from_edges(t[2], a, t[2] + d, b))
                else:
                    rects.append(from_edges(t[0] - d, a, t[0], b))
                roles.append(s)
            if not ok:
                break
        if not ok:
            continue
        # shuffle branches in the netlist (trunk stays first so that create_stog tries it first)
        br = list(zip(rects[1:], roles[1:]))
        rng.shuffle(br)
        rects = [rects[0]] + [b for b, _ in br]
        roles = ["TRUNK"] + [r for _, r in br]
        return rects, roles
    # fallback: a plain square
    c = from_edges(sx0 + 4, sy0 + 4, sx0 + 8, sy0 + 8)
    return [c], ["TRUNK"]


def gen_netlist(rng):
    q = rng.choice([1, 1, 2, 4, 4, 8, 10])          # 10: decimal coordinates (multiples of 0.1 / 0.05)
    ratio = rng.choice([F(2), F(2), F(3), F(4), F(5, 2), F(8)])
    cols, rows = rng.choice([(1, 1), (2, 1), (2, 2), (2, 2), (3, 2), (3, 1), (1, 2)])
    S = F(16)
    dw, dh = S * cols + rng.choice([0, 0, 4]), S * rows + rng.choice([0, 0, 2])
    slots = [(S * c, S * r, S * (c + 1), S * (r + 1)) for r in range(rows) for c in range(cols)]
    rng.shuffle(slots)
    nmod = rng.randrange(1, min(len(slots), 5) + 1)
    mods = []
    # now and then ONE rigid module is drawn with a laxer limit than the die's, so that some of its rectangles may be
    # thinner than the aspect-ratio limit allows: the input configuration then breaks the aspect clause (and only
    # that one), and the system must say so although the rectangle is pinned
    over = rng.random() < 0.12
    for k in range(nmod):
        kind = rng.choice(["soft", "soft", "soft", "hard", "hard", "fixed"])
        force = None
        if k == 0 and rng.random() < 0.3:
            force = ["NORTH", "SOUTH", "EAST", "WEST"][:rng.randrange(2, 5)]
        rr = ratio
        if over and kind in ("hard", "fixed"):
            rr, over = ratio * 4, False
        rects, roles = gen_module(rng, kind, slots[k], q, rr, force)
        m = {"name": "M%d" % k, "kind": kind, "rects": rects, "slot": list(slots[k]),
             "intfmt": rng.random() < 0.7}
        if kind == "soft":
            tot = sum(r[2] * r[3] for r in rects)
            m["area"] = rng.choice([tot, tot / 2, tot * F(3, 4), tot])
        mods.append(m)
    # now and then a second FIXED module sits on top of a fixed one (same shape as its trunk, a quarter of the trunk's size
    # further up and right): neither can move, the input configuration breaks the no-overlap clause and only that one,
    # and the system must say so although no variable is involved
    if rng.random() < 0.1:
        fx = [m for m in mods if m["kind"] == "fixed"]
        if fx:
            src = rng.choice(fx)
            t = src["rects"][0]
            r = [t[0] + t[2] / 4, t[1] + t[3] / 4, t[2], t[3]]
            if r[0] + r[2] / 2 <= dw and r[1] + r[3] / 2 <= dh:
                mods.append({"name": "M%d" % len(mods), "kind": "fixed", "rects": [r], "slot": list(src["slot"]),
                             "intfmt": src["intfmt"] and all(v == int(v) for v in r)})
    nets = []
    names = [m["name"] for m in mods]
    if len(names) >= 2:
        for _ in range(rng.randrange(0, 3)):
            nets.append(rng.sample(names, 2))
    return {"dw": dw, "dh": dh, "ratio": ratio, "modules": mods, "nets": nets, "q": q}


AREA_REGIONS = ["dsp", "lut", "bram"]


def region_areas(rng, case, p=1.0):
    """The input form of the required area: a soft module may state it PER REGION ({_: a, dsp: b} or {dsp: a},
    i.e. with and without a part on the ground region); the requirement is the total.  m["areafmt"] = list of
    (region, share) with dyadic shares adding up to 1."""
    for m in case["modules"]:
        if m["kind"] != "soft" or rng.random() >= p:
            continue
        form = rng.choice(["ground+1", "ground+1", "one", "one", "two", "ground+2", "ground-last"])
        regs = rng.sample(AREA_REGIONS, 2)
        if form == "one":
            m["areafmt"] = [[regs[0], F(1)]]
        elif form == "two":
            m["areafmt"] = [[regs[0], F(1, 4)], [regs[1], F(3, 4)]]
        elif form == "ground+2":
            m["areafmt"] = [["_", F(1, 4)], [regs[0], F(1, 4)], [regs[1], F(1, 2)]]
        elif form == "ground-last":
            m["areafmt"] = [[regs[0], F(3, 4)], ["_", F(1, 4)]]
        else:
            s = rng.choice([F(1, 2), F(1, 4), F(3, 8), F(1, 8)])
            m["areafmt"] = [["_", s], [regs[0], 1 - s]]
    return case


def num_yaml(v, intfmt):
    v = F(v)
    if v.denominator == 1 and intfmt:
        return str(v.numerator)
    return repr(float(v))


def to_yaml(case):
    out = ["Modules: {"]
    items = []
    for m in case["modules"]:
        rs = ", ".join("[" + ", ".join(num_yaml(v, m.get("intfmt", True)) for v in r) + "]" for r in m["rects"])
        if m["kind"] == "soft":
            if m.get("areafmt"):
                area = "{" + ", ".join("%s: %s" % (r, num_yaml(F(m["area"]) * F(s), m.get("intfmt", True)))
                                       for r, s in m["areafmt"]) + "}"
            else:
                area = num_yaml(m["area"], False)
            items.append("  %s: {area: %s, rectangles: [%s]}" % (m["name"], area, rs))
        elif m["kind"] == "hard":
            items.append("  %s: {hard: true, rectangles: [%s]}" % (m["name"], rs))
        else:
            items.append("  %s: {fixed: true, rectangles: [%s]}" % (m["name"], rs))
    out.append(",\n".join(items))
    out.append("}")
    out.append("Nets: [" + ", ".join("[" + ", ".join(n) + "]" for n in case.get("nets", [])) + "]")
    return "\n".join(out) + "\n"


# ----------------------------------------------------------------------------------
# the direct oracle: "legal floorplan" restated geometrically (exact Fractions)
# ----------------------------------------------------------------------------------
def legality(net, cfg):
    """net: observed netlist = {"dw","dh","ratio","modules":[{"kind","area","boxes"(original, variable order),
    "sides"(variable order)}]}; cfg[m][i] = (x,y,w,h).
    Returns {clause: violation measure} - 0 when the clause holds exactly, else how far it is broken
    (length, area, 10*thin difference, or overlap depth measure)."""
    dw, dh, r = net["dw"], net["dh"], net["ratio"]
    viol = {c: F(0) for c in CLAUSE_GROUP}

    def bump(c, v):
        if v > viol[c]:
            viol[c] = v

    for m, mod in enumerate(net["modules"]):
        boxes = cfg[m]
        orig = mod["boxes"]
        sides = mod["sides"]
        for (x, y, w, h) in boxes:
            x0, y0, x1, y1 = edges((x, y, w, h))
            # every rectangle inside the die
            bump("inside", max(-x0, -y0, x1 - dw, y1 - dh, 0))
            # and within the aspect-ratio limit: w <= r*h and h <= r*w
            if w > r * h or h > r * w:
                thin = w * h / (w * w + h * h)
                bump("aspect", 10 * (r / (r * r + 1) - thin))
        # at least the required area (soft modules; a rigid module keeps its own)
        if mod["kind"] == "soft":
            bump("area", max(mod["area"] - sum(b[2] * b[3] for b in boxes), 0))
        # branches attached to their trunk within its extent
        tx0, ty0, tx1, ty1 = edges(boxes[0])
        for i in range(1, len(boxes)):
            bx0, by0, bx1, by1 = edges(boxes[i])
            s = sides[i]
            if s == "NORTH":
                bump("attach", max(abs(by0 - ty1), tx0 - bx0, bx1 - tx1))
            elif s == "SOUTH":
                bump("attach", max(abs(by1 - ty0), tx0 - bx0, bx1 - tx1))
            elif s == "EAST":
                bump("attach", max(abs(bx0 - tx1), ty0 - by0, by1 - ty1))
            else:
                bump("attach", max(abs(bx1 - tx0), ty0 - by0, by1 - ty1))
        # same-side branches in their original order and not overlapping
        for s in SIDES:
            ids = [i for i in range(1, len(boxes)) if sides[i] == s]
            horiz = s in ("NORTH", "SOUTH")
            ids.sort(key=lambda i: (orig[i][0] if horiz else orig[i][1]))     # stable
            for a, b in zip(ids, ids[1:]):
                ea, eb = edges(boxes[a]), edges(boxes[b])
                bump("order", (ea[2] - eb[0]) if horiz else (ea[3] - eb[1]))
        # hard modules congruent to their original shape (translation only), fixed ones in place
        if mod["kind"] in ("hard", "fixed"):
            for i in range(len(boxes)):
                bump("rigid", max(abs(boxes[i][2] - orig[i][2]), abs(boxes[i][3] - orig[i][3])))
                if i > 0:
                    bump("rigid", max(abs((boxes[i][0] - boxes[0][0]) - (orig[i][0] - orig[0][0])),
                                      abs((boxes[i][1] - boxes[0][1]) - (orig[i][1] - orig[0][1]))))
        if mod["kind"] == "fixed":
            bump("rigid", max(abs(boxes[0][0] - orig[0][0]), abs(boxes[0][1] - orig[0][1])))
    # rectangles of different modules do not overlap
    nm = len(net["modules"])
    for m in range(nm):
        for n in range(m + 1, nm):
            for a in cfg[m]:
                for b in cfg[n]:
                    px = (a[2] + b[2]) / 2 - abs(a[0] - b[0])      # penetration depths
                    py = (a[3] + b[3]) / 2 - abs(a[1] - b[1])
                    if px > 0 and py > 0:
                        # depth measure in the units of the smoothed constraint (length^2)
                        t1 = px * (abs(a[0] - b[0]) + (a[2] + b[2]) / 2)
                        t2 = py * (abs(a[1] - b[1]) + (a[3] + b[3]) / 2)
                        bump("overlap", min(t1, t2))
    return viol


# ----------------------------------------------------------------------------------
# configurations
# ----------------------------------------------------------------------------------
def translate(boxes, dx, dy):
    return [[b[0] + dx, b[1] + dy, b[2], b[3]] for b in boxes]


def reshape_soft(rng, mod, q):
    """A fresh legal shape for a soft module with the same side structure, inside its slot."""
    sides = mod["sides"]
    orig = mod["boxes"]
    slot = mod.get("slot")
    if slot is None:
        return None
    unit = F(1, q)
    tw = F(rng.randrange(2 * q, 8 * q + 1), q)
    th = F(rng.randrange(2 * q, 8 * q + 1), q)
    used = {s: [i for i in range(1, len(sides)) if sides[i] == s] for s in SIDES}
    room = {s: (F(3) if used[s] else F(0)) for s in SIDES}
    lo_x, hi_x = slot[0] + room["WEST"], slot[2] - room["EAST"] - tw
    lo_y, hi_y = slot[1] + room["SOUTH"], slot[3] - room["NORTH"] - th
    if hi_x < lo_x or hi_y < lo_y:
        return None
    tx0 = lo_x + unit * rng.randrange(0, int((hi_x - lo_x) / unit) + 1)
    ty0 = lo_y + unit * rng.randrange(0, int((hi_y - lo_y) / unit) + 1)
    t = (tx0, ty0, tx0 + tw, ty0 + th)
    out = [None] * len(sides)
    out[0] = from_edges(*t)
    for s in SIDES:
        ids = used[s]
        if not ids:
            continue
        horiz = s in ("NORTH", "SOUTH")
        ids = sorted(ids, key=lambda i: (orig[i][0] if horiz else orig[i][1]))
        lo, hi = (t[0], t[2]) if horiz else (t[1], t[3])
        n_units = int((hi - lo) / unit)
        k = len(ids)
        if n_units < 2 * k:
            return None
        cuts = sorted(rng.sample(range(0, n_units + 1), 2 * k))
        for c, i in enumerate(ids):
            a, b = lo + unit * cuts[2 * c], lo + unit * cuts[2 * c + 1]
            d = unit * rng.randrange(1, 3 * q + 1)
            if s == "NORTH":
                out[i] = from_edges(a, t[3], b, t[3] + d)
            elif s == "SOUTH":
                out[i] = from_edges(a, t[1] - d, b, t[1])
            elif s == "EAST":
                out[i] = from_edges(t[2], a, t[2] + d, b)
            else:
                out[i] = from_edges(t[0] - d, a, t[0], b)
    return out


def legal_variant(rng, net, q):
    cfg = [[list(b) for b in mod["boxes"]] for mod in net["modules"]]
    for m, mod in enumerate(net["modules"]):
        slot = mod.get("slot")
        if mod["kind"] == "fixed" or slot is None or rng.random() < 0.25:
            continue
        if mod["kind"] == "soft" and rng.random() < 0.7:
            new = reshape_soft(rng, mod, q)
            if new is not None:
                cfg[m] = new
                continue
        # translate inside the slot
        es = [edges(b) for b in cfg[m]]
        x0, y0 = min(e[0] for e in es), min(e[1] for e in es)
        x1, y1 = max(e[2] for e in es), max(e[3] for e in es)
        unit = F(1, q)
        dx = unit * rng.randrange(int((slot[0] - x0) / unit), int((slot[2] - x1) / unit) + 1)
        dy = unit * rng.randrange(int((slot[1] - y0) / unit), int((slot[3] - y1) / unit) + 1)
        cfg[m] = translate(cfg[m], dx, dy)
    return cfg


def violate(rng, net, base, clause, margin):
    """Perturb the legal configuration `base` so that `clause` is broken by more than margin."""
    cfg = [[list(b) for b in mod] for mod in base]
    mods = net["modules"]
    big = F(math.ceil(float(margin) * 4 + 1), 4) + F(rng.randrange(0, 5), 4)     # dyadic, > margin
    pick = lambda ks: rng.choice(ks) if ks else None
    if clause == "inside":
        m = pick([k for k, md in enumerate(mods) if md["kind"] != "fixed"])
        if m is None:
            return None
        es = [edges(b) for b in cfg[m]]
        x0, y0 = min(e[0] for e in es), min(e[1] for e in es)
        x1, y1 = max(e[2] for e in es), max(e[3] for e in es)
        d = rng.choice("LBRT")
        if d == "L":
            cfg[m] = translate(cfg[m], -x0 - big, 0)
        elif d == "B":
            cfg[m] = translate(cfg[m], 0, -y0 - big)
        elif d == "R":
            cfg[m] = translate(cfg[m], net["dw"] - x1 + big, 0)
        else:
            cfg[m] = translate(cfg[m], 0, net["dh"] - y1 + big)
        return cfg
    if clause == "aspect":
        cands = [(k, i) for k, md in enumerate(mods) if md["kind"] == "soft" for i in range(1, len(md["sides"]))]
        c = pick(cands)
        if c is None:
            return None
        m, i = c
        s = mods[m]["sides"][i]
        x0, y0, x1, y1 = edges(cfg[m][i])
        r = net["ratio"]
        factor = rng.choice([F(3), F(4), F(6), F(8)])
        # flatten the branch against its trunk: depth = length / (r * factor)
        if s == "NORTH":
            cfg[m][i] = from_edges(x0, y0, x1, y0 + (x1 - x0) / (r * factor))
        elif s == "SOUTH":
            cfg[m][i] = from_edges(x0, y1 - (x1 - x0) / (r * factor), x1, y1)
        elif s == "EAST":
            cfg[m][i] = from_edges(x0, y0, x0 + (y1 - y0) / (r * factor), y1)
        else:
            cfg[m][i] = from_edges(x1 - (y1 - y0) / (r * factor), y0, x1, y1)
        return cfg
    if clause == "area":
        m = pick([k for k, md in enumerate(mods) if md["kind"] == "soft"])
        if m is None:
            return None
        cx, cy = cfg[m][0][0], cfg[m][0][1]
        s = rng.choice([F(1, 2), F(1, 4), F(1, 2)])
        cfg[m] = [[cx + (b[0] - cx) * s, cy + (b[1] - cy) * s, b[2] * s, b[3] * s] for b in cfg[m]]
        return cfg
    if clause == "attach":
        cands = [(k, i) for k, md in enumerate(mods) if md["kind"] == "soft" for i in range(1, len(md["sides"]))]
        c = pick(cands)
        if c is None:
            return None
        m, i = c
        s = mods[m]["sides"][i]
        mode = rng.choice(["gap", "sink", "slide"])
        out = {"NORTH": (0, 1), "SOUTH": (0, -1), "EAST": (1, 0), "WEST": (-1, 0)}[s]
        if mode == "gap":
            cfg[m][i][0] += out[0] * big
            cfg[m][i][1] += out[1] * big
        elif mode == "sink":
            cfg[m][i][0] -= out[0] * big
            cfg[m][i][1] -= out[1] * big
        else:
            t = edges(cfg[m][0])
            b = edges(cfg[m][i])
            sgn = rng.choice([-1, 1])
            if s in ("NORTH", "SOUTH"):
                cfg[m][i][0] += (t[2] - b[2] + big) if sgn > 0 else (t[0] - b[0] - big)
            else:
                cfg[m][i][1] += (t[3] - b[3] + big) if sgn > 0 else (t[1] - b[1] - big)
        return cfg
    if clause == "order":
        cands = []
        for k, md in enumerate(mods):
            if md["kind"] != "soft":
                continue
            for s in SIDES:
                ids = [i for i in range(1, len(md["sides"])) if md["sides"][i] == s]
                if len(ids) >= 2:
                    cands.append((k, s, ids))
        c = pick(cands)
        if c is None:
            return None
        m, s, ids = c
        horiz = s in ("NORTH", "SOUTH")
        ax = 0 if horiz else 1
        ids = sorted(ids, key=lambda i: mods[m]["boxes"][i][ax])
        k = rng.randrange(0, len(ids) - 1)
        a, b = ids[k], ids[k + 1]
        ea, eb = edges(cfg[m][a]), edges(cfg[m][b])
        lo = ea[0] if horiz else ea[1]
        hi = eb[2] if horiz else eb[3]
        if rng.random() < 0.5:
            # swap: b to the start of a's place, a to the end of b's place (still disjoint)
            cfg[m][b][ax] = lo + cfg[m][b][2 + ax] / 2
            cfg[m][a][ax] = hi - cfg[m][a][2 + ax] / 2
        else:
            # slide a onto b
            cfg[m][a][ax] = cfg[m][b][ax]
        return cfg
    if clause == "overlap":
        if len(mods) < 2:
            return None
        m = pick([k for k, md in enumerate(mods) if md["kind"] != "fixed"])
        if m is None:
            return None
        n = pick([k for k in range(len(mods)) if k != m])
        a = cfg[m][rng.randrange(len(cfg[m]))]
        b = cfg[n][rng.randrange(len(cfg[n]))]
        # put rectangle a's centre near b's centre
        off = F(rng.randrange(-2, 3), 4)
        cfg[m] = translate(cfg[m], b[0] - a[0] + off, b[1] - a[1] - off)
        return cfg
    if clause == "rigid":
        cands = [k for k, md in enumerate(mods) if md["kind"] in ("hard", "fixed")]
        m = pick(cands)
        if m is None:
            return None
        md = mods[m]
        modes = ["resize"]
        if len(md["sides"]) > 1:
            modes += ["slide", "deepen"]
        if md["kind"] == "fixed":
            modes += ["move", "move"]
        mode = rng.choice(modes)
        if mode == "move":
            cfg[m] = translate(cfg[m], rng.choice([-1, 1]) * big, rng.choice([-1, 0, 1]) * big)
        elif mode == "resize":
            # widen / heighten the trunk symmetric about its centre: branches detach -> use only without branches,
            # otherwise grow the trunk and push the branches out with it (still attached)
            if len(md["sides"]) == 1:
                cfg[m][0][2 + rng.randrange(2)] += 2 * big
            else:
                g = 2 * big
                cfg[m][0][2] += g
                cfg[m][0][3] += g
                for i in range(1, len(md["sides"])):
                    s = md["sides"][i]
                    o = {"NORTH": (0, 1), "SOUTH": (0, -1), "EAST": (1, 0), "WEST": (-1, 0)}[s]
                    cfg[m][i][0] += o[0] * g / 2
                    cfg[m][i][1] += o[1] * g / 2
        elif mode == "slide":
            i = rng.randrange(1, len(md["sides"]))
            s = md["sides"][i]
            t = edges(cfg[m][0])
            b = edges(cfg[m][i])
            if s in ("NORTH", "SOUTH"):
                room_l, room_r = b[0] - t[0], t[2] - b[2]
                cfg[m][i][0] += room_r if room_r >= room_l else -room_l
            else:
                room_l, room_r = b[1] - t[1], t[3] - b[3]
                cfg[m][i][1] += room_r if room_r >= room_l else -room_l
        else:
            i = rng.randrange(1, len(md["sides"]))
            s = md["sides"][i]
            o = {"NORTH": (0, 1), "SOUTH": (0, -1), "EAST": (1, 0), "WEST": (-1, 0)}[s]
            g = 2 * big
            if o[0]:
                cfg[m][i][2] += g
                cfg[m][i][0] += o[0] * g / 2
            else:
                cfg[m][i][3] += g
                cfg[m][i][1] += o[1] * g / 2
        return cfg
    return None


def classify(net, cfg, delta, tau):
    """('legal', None) if every clause holds exactly; (clause, measure) if exactly one clause is broken by a clear
    margin (> 10*delta, + 2*tau for overlaps) and every other holds exactly; None if in between."""
    v = legality(net, cfg)
    broken = [c for c, x in v.items() if x > 0]
    if not broken:
        return ("legal", None)
    if len(broken) > 1:
        return None
    c = broken[0]
    need = 10 * delta + (2 * tau if c == "overlap" else 0)
    if v[c] > need:
        return (c, v[c])
    return None


def input_vals(obs_netlist, case=None):
    """The input configuration in the legaliser's variable order."""
    out = []
    for m, om in enumerate(obs_netlist):
        order, _ = structure([r["loc"] for r in om["rects"]])
        by_float = {}
        if case is not None:
            by_float = {tuple(float(v) for v in r): [F(v) for v in r] for r in case["modules"][m]["rects"]}
        out.append([by_float.get(tuple(float(om["rects"][k][c]) for c in ("x", "y", "w", "h")),
                                 [F(core.frac(om["rects"][k][c])) for c in ("x", "y", "w", "h")]) for k in order])
    return out


def observed_net(case, obs):
    """The netlist as the oracle sees it: the generator's numbers, the roles observed on the loaded Netlist,
    rectangles in the legaliser's variable order."""
    mods = []
    for cm, om in zip(case["modules"], obs["netlist"]):
        order, sides = structure([r["loc"] for r in om["rects"]])
        # the numbers are the generator's (exact decimals / dyadics); the loaded netlist tells the order and roles
        by_float = {tuple(float(v) for v in r): [F(v) for v in r] for r in cm["rects"]}
        boxes = [by_float.get(tuple(float(om["rects"][k][c]) for c in ("x", "y", "w", "h")),
                              [F(core.frac(om["rects"][k][c])) for c in ("x", "y", "w", "h")]) for k in order]
        mods.append({"kind": cm["kind"], "area": F(cm["area"]) if cm["kind"] == "soft" else None, "boxes": boxes,
                     "sides": sides, "slot": cm.get("slot")})
    return {"dw": F(case["dw"]), "dh": F(case["dh"]), "ratio": F(case["ratio"]), "modules": mods}


# ----------------------------------------------------------------------------------
# running the implementation
# ----------------------------------------------------------------------------------
def dump_tree(t, NodeType):
    ty = t.type
    if ty == NodeType.CST:
        return ["C", float(t.value)]
    if ty == NodeType.VAR:
        name = (t.data or {}).get("name") if t.data else None
        if name is None:
            name = str(t.value.name)
        return ["V", name]
    tag = {NodeType.ADD: "Add", NodeType.SUB: "Sub", NodeType.MUL: "Mul", NodeType.DIV: "Div",
           NodeType.EXP: "Pow", NodeType.SRT: "Sqrt"}[ty]
    return [tag] + [dump_tree(c, NodeType) for c in t.value]


def py_eval(t, env):
    """Transcription of Sem.v: eval."""
    k = t[0]
    if k == "C":
        return t[1]
    if k == "V":
        return env[t[1]]
    if k == "Sqrt":
        v = py_eval(t[1], env)
        return math.sqrt(v) if v >= 0 else 0.0
    a, b = py_eval(t[1], env), py_eval(t[2], env)
    if k == "Add":
        return a + b
    if k == "Sub":
        return a - b
    if k == "Mul":
        return a * b
    if k == "Div":
        return a / b if b != 0 else 0.0
    if k == "Pow":
        if t[2][0] == "C" and t[2][1] >= 0 and float(t[2][1]).is_integer():
            return a ** int(t[2][1])
        return math.exp(b * math.log(a)) if a > 0 else 0.0
    raise ValueError(k)


def py_met(e, env, eps):
    """Transcription of Sem.v: met."""
    l, r = py_eval(e["lhs"], env), py_eval(e["rhs"], env)
    d = 1e-6 if e["hard"] else eps + 1e-6
    if e["cmp"] == "LE":
        return l <= r + d
    if e["cmp"] == "GE":
        return l >= r - d
    if e["hard"]:
        return abs(l - r) <= d
    return l >= r - d and l <= r + d


_tmpdir = None


def _ensure_tmp():
    global _tmpdir
    if _tmpdir is None:
        base = core.WORK_ROOT
        base.mkdir(exist_ok=True)
        _tmpdir = tempfile.mkdtemp(prefix="c09-gk-", dir=str(base))
    tempfile.tempdir = _tmpdir
    os.environ["TMPDIR"] = _tmpdir


def _cleanup_tmp():
    global _tmpdir
    if _tmpdir is not None:
        shutil.rmtree(_tmpdir, ignore_errors=True)
        _tmpdir = None
    tempfile.tempdir = None
    os.environ.pop("TMPDIR", None)


def load_netlist(case):
    """The netlist as netlist_to_utils receives it (roles assigned by create_stog on loading)."""
    from frame.netlist.netlist import Netlist
    from frame.geometry.geometry import Rectangle
    Rectangle.undefine_epsilon()
    try:
        nl = Netlist(to_yaml(case))
        return [{"hard": bool(m.is_hard), "fixed": bool(m.is_fixed), "area": float(m.area()),
                 "rects": [{"loc": r.location.name, "x": float(r.center.x), "y": float(r.center.y),
                            "w": float(r.shape.w), "h": float(r.shape.h)} for r in m.rectangles]}
                for m in nl.modules]
    finally:
        Rectangle.undefine_epsilon()


def run_impl(case):
    _ensure_tmp()
    from frame.netlist.netlist import Netlist
    from frame.geometry.geometry import Rectangle
    from tools.legalfloor import legalfloor as lf
    from tools.legalfloor import expression_tree as et
    from tools.legalfloor.expression_tree import NodeType
    Rectangle.undefine_epsilon()
    buf = io.StringIO()
    try:
        nl = Netlist(to_yaml(case))
        obs = {"netlist": [], "configs": []}
        for m in nl.modules:
            obs["netlist"].append({
                "hard": bool(m.is_hard), "fixed": bool(m.is_fixed), "area": float(m.area()),
                "rects": [{"loc": r.location.name, "x": float(r.center.x), "y": float(r.center.y),
                           "w": float(r.shape.w), "h": float(r.shape.h)} for r in m.rectangles]})
        with contextlib.redirect_stdout(buf):
            ml, al, xl, yl, wl, hl, hyper, og = lf.netlist_to_utils(nl)
        cs = [1 + sum(len(b[k]) for k in range(1, 5)) for b in ml]

        def rows(tab):
            return [[(None if tab.get(m, {}).get(i) is None else float(tab[m][i])) for i in range(cs[m])]
                    if m in tab else [] for m in range(len(ml))]
        obs["utils"] = {"ml": [[list(map(float, b[0]))] + [[list(map(float, r)) for r in b[k]] for k in range(1, 5)]
                               for b in ml],
                        "al": [float(a) for a in al],
                        "xl": rows(xl), "yl": rows(yl), "wl": rows(wl), "hl": rows(hl)}
        with contextlib.redirect_stdout(buf):
            M = lf.Model(ml, al, xl, yl, wl, hl, float(case["dw"]), float(case["dh"]), hyper, float(case["ratio"]),
                         og, 0.9, 0.3, 1)
        eqs, objs, other = [], [], []
        for src in (M.gekko.constraints, M.gekko.macro_constraints):
            for g, lst in src.items():
                for e in lst:
                    if g in GROUPS:
                        eqs.append({"group": g, "name": e.name, "cmp": e.cmp.name, "hard": bool(e.hard),
                                    "lhs": dump_tree(e.lhs, NodeType), "rhs": dump_tree(e.rhs, NodeType)})
                        objs.append(e)
                    else:
                        other.append([g, e.name, e.cmp.name, bool(e.hard)])
        obs["eqs"] = eqs
        obs["other"] = other
        obs["tau"] = float(M.tau.evaluate())
        var0 = {"x": M.x[0][0], "y": M.y[0][0], "w": M.w[0][0], "h": M.h[0][0]}
        obs["ops"] = [dump_tree(build_optree(t, lambda c: et.ExpressionTree(M.gekko.gekko, c), lambda k: var0[k]),
                                NodeType) for t in case.get("ops", [])]
        # configurations
        for cfg in case.get("configs", []):
            M.time.assign(float(cfg["time"]))
            env = {}
            vals = cfg.get("vals") or input_vals(obs["netlist"], case)
            for m in range(len(M.M)):
                for i in range(M.M[m].c):
                    x, y, w, h = (float(v) for v in vals[m][i])
                    M.x[m][i].assign(x)
                    M.y[m][i].assign(y)
                    M.w[m][i].assign(w)
                    M.h[m][i].assign(h)
                    env["x%di%d" % (m, i)], env["y%di%d" % (m, i)] = x, y
                    env["w%di%d" % (m, i)], env["h%di%d" % (m, i)] = w, h
            eps = float(et.epsilon.evaluate())
            met = [bool(e.is_equation_met()) for e in objs]
            sem = [py_met(d, env, eps) for d in eqs]
            obs["configs"].append({"eps": eps, "met": met, "sem": sem})
        for g in (M.gekko.gekko,):
            shutil.rmtree(getattr(g, "_path", "/nonexistent"), ignore_errors=True)
        return obs
    finally:
        Rectangle.undefine_epsilon()
        if _tmpdir:
            for p in os.listdir(_tmpdir):
                shutil.rmtree(os.path.join(_tmpdir, p), ignore_errors=True)


# ----------------------------------------------------------------------------------
# Gallina
# ----------------------------------------------------------------------------------
VAR_RE = re.compile(r"^([xywh])(\d+)i(\d+)$")


def gexpr(t):
    k = t[0]
    if k == "C":
        return f"(C {gq(t[1])})"
    if k == "V":
        mm = VAR_RE.match(t[1])
        if not mm:
            raise ValueError("unknown variable " + str(t[1]))
        return f"(V V{mm.group(1).upper()} {int(mm.group(2))} {int(mm.group(3))})"
    if k == "Sqrt":
        return f"(Sqrt {gexpr(t[1])})"
    return f"({k} {gexpr(t[1])} {gexpr(t[2])})"


def geqn(e):
    return (f"(E {GROUPS[e['group']]} {gstr(e['name'])} {gexpr(e['lhs'])} {e['cmp']} {gexpr(e['rhs'])} "
            f"{gbool(e['hard'])})")


def gbox(b):
    return "(B " + " ".join(gq(v) for v in b) + ")"


def to_coq(case, obs):
    mods = []
    for om in obs["netlist"]:
        rs = glist("(%s, %s)" % (LOCS[r["loc"]], gbox([r["x"], r["y"], r["w"], r["h"]])) for r in om["rects"])
        mods.append(f"(mkModule {gbool(om['hard'])} {gbool(om['fixed'])} {gq(om['area'])} {rs})")
    u = obs["utils"]
    uml = glist("(mkUmod %s %s %s %s %s)" % (gbox(b[0]), *(glist(gbox(r) for r in b[k]) for k in range(1, 5)))
                for b in u["ml"])

    def rows(t):
        return glist(glist(gopt(None if v is None else gq(v)) for v in row) for row in t)
    iu = f"(mkUtils {uml} {glist(gq(a) for a in u['al'])} {rows(u['xl'])} {rows(u['yl'])} {rows(u['wl'])} {rows(u['hl'])})"
    ieqs = glist(geqn(e) for e in obs["eqs"])
    tole = "0" if case.get("exact", True) else "(qc 1 1000000000000)"
    ops = "".join(f" && expr_close 0 {g_optree(t)} {gexpr(o)}" for t, o in zip(case.get("ops", []), obs.get("ops", [])))
    return (f"c09_agree {glist(mods)} {gq(case['dw'])} {gq(case['dh'])} {gq(case['ratio'])} {tole} "
            f"(qc 1 1000000000000) {iu} {ieqs}{ops}")


# ----------------------------------------------------------------------------------
# oracle
# ----------------------------------------------------------------------------------
def oracle(case, obs):
    # groups outside the system: only the clock and the trust region may appear
    for g, name, cmp_, hard in obs["other"]:
        if g == "Exact Value" and name == "exact_value":
            continue
        if g == "radius" and name.startswith("Cap_") and hard:
            continue
        return f"equation group {g!r} ({name}) is not one of the legaliser's documented groups"
    if case.get("nostog") or not case.get("configs"):
        return None
    net = observed_net(case, obs)
    tau = F(1, 100) * min(net["dw"], net["dh"]) / len(net["modules"])
    for cfg, oc in zip(case.get("configs", []), obs["configs"]):
        vals = [[[F(v) for v in b] for b in mod] for mod in (cfg.get("vals") or input_vals(obs["netlist"], case))]
        v = legality(net, vals)
        legal = all(x == 0 for x in v.values())
        all_met = all(oc["met"])
        unmet = sorted({e["group"] + "/" + e["name"] for e, ok in zip(obs["eqs"], oc["met"]) if not ok})
        if legal and not all_met:
            tag = "the input configuration" if cfg.get("label") == "input" else "a legal configuration"
            return (f"{tag} does not satisfy the system (epsilon={oc['eps']}): unmet {unmet[:6]}")
        if not legal and all_met:
            broken = {c: float(x) for c, x in v.items() if x > 0}
            return (f"an illegal configuration satisfies every equation (epsilon={oc['eps']}): broken clauses {broken}")
        # clause by clause: the group's equations are all met iff its clause holds
        for c, g in CLAUSE_GROUP.items():
            gmet = all(ok for e, ok in zip(obs["eqs"], oc["met"]) if e["group"] == g)
            if gmet != (v[c] == 0):
                return (f"clause {c!r} {'holds' if v[c] == 0 else 'is broken by %s' % float(v[c])} but the {g} equations "
                        f"are {'all met' if gmet else 'not all met'} (epsilon={oc['eps']})")
        if oc["met"] != oc["sem"]:
            k = [a == b for a, b in zip(oc["met"], oc["sem"])].index(False)
            return (f"is_equation_met() of {obs['eqs'][k]['group']}/{obs['eqs'][k]['name']} is {oc['met'][k]} but the "
                    f"documented semantics (Sem.v) gives {oc['sem'][k]}")
    return None


def failure_key(case, why):
    w = str(why)
    hard_branch = any(m["kind"] in ("hard", "fixed") and len(m["rects"]) > 1 for m in case["modules"])
    if hard_branch and ("Fix/" in w or "'rigid'" in w):
        return "C09/hard-branch-fix"
    if "raised" in w:
        return "C09/model-construction"
    return "C09/system"


def shrink(case):
    mods = case["modules"]
    # fewer configurations
    cfgs = case.get("configs", [])
    for k in range(len(cfgs)):
        yield dict(case, configs=cfgs[:k] + cfgs[k + 1:])
    # fewer modules (configurations lose the module too)
    for k in range(len(mods)):
        if len(mods) > 1:
            names = {m["name"] for j, m in enumerate(mods) if j != k}
            yield dict(case, modules=mods[:k] + mods[k + 1:],
                       nets=[n for n in case.get("nets", []) if all(x in names for x in n)],
                       configs=[dict(c, vals=None if c["vals"] is None else c["vals"][:k] + c["vals"][k + 1:])
                                for c in cfgs])
    # fewer branches (only the input configuration can be kept)
    for k, m in enumerate(mods):
        for j in range(1, len(m["rects"])):
            m2 = dict(m, rects=m["rects"][:j] + m["rects"][j + 1:])
            if m["kind"] == "soft":          # keep the input legal: the requirement cannot exceed what is left
                m2["area"] = min(F(m["area"]), sum(F(r[2]) * F(r[3]) for r in m2["rects"]))
            yield dict(case, modules=mods[:k] + [m2] + mods[k + 1:],
                       configs=[{"time": 200, "label": "input", "vals": None}, {"time": 1, "label": "input", "vals": None}])
    # no nets
    if case.get("nets"):
        yield dict(case, nets=[])


# ----------------------------------------------------------------------------------
# case construction
# ----------------------------------------------------------------------------------
def add_configs(rng, case, nconf):
    """Needs the roles chosen by the real create_stog, so the netlist is loaded once here."""
    try:
        probe = {"netlist": load_netlist(case)}
        net = observed_net(case, probe)
    except Exception:
        # the harness cannot look at the netlist: let run_cases record what the implementation does
        case["configs"] = [{"time": 1, "label": "input", "vals": None}]
        return case
    q = max(case.get("q", 4), 2)
    tau = F(1, 100) * min(net["dw"], net["dh"]) / len(net["modules"])
    inp = [[list(b) for b in mod["boxes"]] for mod in net["modules"]]
    configs = []

    def push(vals, t, label):
        configs.append({"time": t, "label": label, "vals": vals})
    if classify(net, inp, F(0), tau) == ("legal", None):
        push(inp, 1, "input")
        push(inp, rng.choice(TIMES[1:]), "input")
    else:
        case["input_not_legal"] = True
        # an input that breaks exactly one clause by a clear margin is a configuration of the property's quantifier too
        for t in (200, 60):
            delta = F(eps_of_time(t)) + F(1, 1000000)
            cl = classify(net, inp, delta, tau)
            if cl is not None and cl[0] != "legal":
                push(inp, t, cl[0])
    tries = 0
    while len(configs) < nconf and tries < nconf * 12:
        tries += 1
        t = rng.choice(TIMES)
        delta = F(eps_of_time(t)) + F(1, 1000000)
        base = legal_variant(rng, net, q)
        if classify(net, base, delta, tau) != ("legal", None):
            continue
        if rng.random() < 0.3:
            push(base, t, "legal")
            continue
        clause = rng.choice(list(CLAUSE_GROUP))
        bad = violate(rng, net, base, clause, 10 * delta + 2 * tau)
        if bad is None:
            continue
        cl = classify(net, bad, delta, tau)
        if cl is None or cl[0] != clause:
            continue
        push(bad, t, clause)
    case["configs"] = configs
    return case


OPS = ["add", "sub", "mul", "div", "pow"]


def has_var(t):
    return t[0] == "v" or any(has_var(c) for c in t[1:] if isinstance(c, list))


def gen_optree(rng, depth):
    """A small expression built through the operator overloads: ["c", q] constant node, ["v", k] variable
    k of rectangle 0 of module 0, ["n", q] a bare Python number (right operand only), [op, a, b], ["sqrt", a]."""
    if depth == 0 or rng.random() < 0.3:
        if rng.random() < 0.55:
            return ["c", F(rng.randrange(-16, 17), 4)]
        return ["v", rng.choice("xywh")]
    if rng.random() < 0.1:
        a = gen_optree(rng, depth - 1)
        if not has_var(a):
            a = ["v", "w"]              # sqrt(CST) is folded with math.sqrt: not modelled (see Syntax.v)
        return ["sqrt", a]
    op = rng.choice(OPS)
    a = gen_optree(rng, depth - 1)
    if a[0] == "n":
        a = ["c", a[1]]
    if op == "div":
        b = ["c", rng.choice([F(1, 4), F(1, 2), F(1), F(2), F(4), F(-2)])] if rng.random() < 0.7 else ["v", "h"]
    elif op == "pow":
        b = ["c", F(rng.choice([0, 1, 2, 2, 3]))]
        if a[0] == "c" and a[1] == 0:
            a = ["c", F(3, 2)]
    else:
        b = gen_optree(rng, depth - 1)
    if b[0] == "c" and rng.random() < 0.3:
        b = ["n", b[1]]
    return [op, a, b]


def optree_exact(t):
    """Simulates the constant folding in exact arithmetic; returns (constant value or None, ok) where ok says
    that every folded constant is a binary64 number (so that implementation and model agree exactly)."""
    k = t[0]
    if k in ("c", "n"):
        return F(t[1]), True
    if k == "v":
        return None, True
    if k == "sqrt":
        _, ok = optree_exact(t[1])
        return None, ok
    a, oka = optree_exact(t[1])
    b, okb = optree_exact(t[2])
    if not (oka and okb):
        return None, False
    if a is None or b is None:
        return None, True
    try:
        v = {"add": lambda: a + b, "sub": lambda: a - b, "mul": lambda: a * b, "div": lambda: a / b,
             "pow": lambda: a ** int(b)}[k]()
    except (ZeroDivisionError, ValueError, OverflowError):
        return None, False
    ok = abs(v) < 2 ** 40 and F(float(v)) == v
    return v, ok


def build_optree(t, mk_const, var):
    import operator
    from tools.legalfloor.expression_tree import sqrt as et_sqrt
    k = t[0]
    if k == "c":
        return mk_const(float(t[1]))
    if k == "n":
        q = F(t[1])
        return int(q) if q.denominator == 1 else float(q)
    if k == "v":
        return var(t[1])
    if k == "sqrt":
        return et_sqrt(build_optree(t[1], mk_const, var))
    f = {"add": operator.add, "sub": operator.sub, "mul": operator.mul, "div": operator.truediv,
         "pow": operator.pow}[k]
    return f(build_optree(t[1], mk_const, var), build_optree(t[2], mk_const, var))


def g_optree(t):
    k = t[0]
    if k in ("c", "n"):
        return f"(C {gq(F(t[1]))})"
    if k == "v":
        return f"(V V{t[1].upper()} 0 0)"
    if k == "sqrt":
        return f"(esqrt {g_optree(t[1])})"
    return f"(e{k} {g_optree(t[1])} {g_optree(t[2])})"


def gen_case(rng, nconf, areas=False):
    case = gen_netlist(rng)
    if areas:
        region_areas(rng, case, 0.8)
    case["exact"] = case["q"] != 10
    case["ops"] = []
    while len(case["ops"]) < 6:
        t = gen_optree(rng, 3)
        if optree_exact(t)[1]:
            case["ops"].append(t)
    if rng.random() < 0.04:
        # outside the property's domain (not an orthogon): a soft module with a detached rectangle gets no roles
        # from create_stog; netlist_to_utils then takes the first rectangle as trunk and files the others as north
        # branches.  Only the equation generation is compared on these.
        soft = [m for m in case["modules"] if m["kind"] == "soft" and len(m["rects"]) > 1]
        if soft:
            m = rng.choice(soft)
            r = m["rects"][-1]
            m["rects"][-1] = [r[0] + F(1, 2), r[1] + F(1, 2), r[2], r[3]]
            case["nostog"] = True
            case["configs"] = []
            return case
    return add_configs(rng, case, nconf)


def dist_key(case):
    if case.get("nostog"):
        return "not-an-orthogon (structure only)"
    kinds = "".join(sorted({m["kind"][0] for m in case["modules"]}))
    nb = max(len(m["rects"]) for m in case["modules"])
    return f"mods={len(case['modules'])} kinds={kinds} maxrects={nb}"


def nontrivial(case):
    return any(len(m["rects"]) > 1 for m in case["modules"]) and len(case.get("configs", [])) >= 2


def run(ctx, out, replay=None):
    n = 240 if ctx.quick() else 3000
    nconf = 10
    out.rule = ("netlists of 1-5 single-trunk orthogons in disjoint 16x16 slots of the die (soft with 0-4 branches on "
                "any side incl. several on one side in shuffled netlist order, hard, fixed; integer and dyadic k/2,k/4,k/8 "
                "coordinates, 1 in 7 decimal k/10 (compared within 1e-12), YAML ints and floats; a stream whose soft modules "
                "state the required area per region, with and without a part on the ground region), ratio limits 2..8; 6 random "
                "operator-overload trees (constant folding) per netlist; per netlist the input configuration and ~10 "
                "random configurations: legal (reshaped soft / translated hard modules) or breaking exactly one of "
                "inside/aspect/area/attach/order/overlap/rigid by > 10*(epsilon+1e-6), at epsilon in {0.27,0.0127,5.4e-4,0}; "
                "non-trivial = some module with a branch and >= 2 configurations")
    cases = []
    try:
        if replay and "case" in replay:
            cases.append(fr.unjson(replay["case"]))
        cases += fr.load_corpus("C09")
        while len(cases) < n:
            cases.append(gen_case(ctx.rng, nconf))
        # the input form of the required area (own stream: the cases above do not move)
        rng2 = random.Random(f"C09-region-areas-{ctx.seed}")
        k = 0
        while k < (16 if ctx.quick() else 200):
            c = gen_case(rng2, nconf, areas=True)
            if any(m.get("areafmt") for m in c["modules"]):
                cases.append(c)
                k += 1
        labels = {}
        for c in cases:
            for cfg in c.get("configs", []):
                labels[cfg.get("label", "?")] = labels.get(cfg.get("label", "?"), 0) + 1
        out.extra["configurations"] = labels
        out.extra["configurations_total"] = sum(labels.values())
        fr.run_cases(ctx, out, cases, run_impl, to_coq, oracle, failure_key, HEADER,
                     dist_key=dist_key, nontrivial=nontrivial, shard=8, shrink=shrink)
    finally:
        _cleanup_tmp()
