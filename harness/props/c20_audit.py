#!/usr/bin/env python3
"""Static audit of process-wide mutable state in a FRAME tree (used by C20: it steers the generator towards the
operations of a file that gained such state and is recorded in the evidence; it is never a verdict).

Lists, for every .py file under frame/ and tools/ of the given repository:
  module   NAME   module-level binding to a mutable value (dict/list/set literal or comprehension, or a call)
  class    C.NAME class-level binding to a mutable value (shared by all instances)
  default  f(arg) a default argument that is a mutable literal or a call (evaluated once, at definition)
  cache    f      functools cache / lru_cache / cached_property / a decorator whose name contains 'memo' or 'cache'
  global   f:NAME a `global` (or `nonlocal`) statement: the function rebinds module state
  classattr-write C.NAME  an assignment `ClassName.attr = ...` / `cls.attr = ...` inside a function

usage: python3 -m harness.props.c20_audit [repo] [--json]
"""
import ast
import json
import os
import sys

IMMUTABLE_CALLS = {"int", "float", "str", "bool", "bytes", "tuple", "frozenset", "complex", "range", "type",
                   "TypeVar", "NewType", "namedtuple", "Enum", "auto", "compile", "Path", "getenv", "len", "max", "min",
                   "abs", "round", "sorted_tuple", "field"}
TYPING_NAMES = {"Union", "Optional", "Any", "Callable", "Iterator", "Sequence", "NamedTuple", "Literal"}


def call_name(node):
    f = node.func
    if isinstance(f, ast.Name):
        return f.id
    if isinstance(f, ast.Attribute):
        return f.attr
    return "?"


def mutable(node):
    """a value whose later in-place change would be seen by every later user"""
    if isinstance(node, (ast.Dict, ast.List, ast.Set, ast.ListComp, ast.DictComp, ast.SetComp)):
        return type(node).__name__.lower()
    if isinstance(node, ast.IfExp):
        return mutable(node.body) or mutable(node.orelse)
    if isinstance(node, ast.Call):
        n = call_name(node)
        if n in IMMUTABLE_CALLS or n in TYPING_NAMES:
            return None
        return f"call:{n}"
    return None


def type_alias(node):
    """X = dict[str, int] / list[float] / A | B : a typing alias, not a value"""
    if isinstance(node, ast.Subscript):
        return True
    if isinstance(node, ast.BinOp) and isinstance(node.op, ast.BitOr):
        return True
    return False


def targets(stmt):
    if isinstance(stmt, ast.Assign):
        ts = stmt.targets
    elif isinstance(stmt, (ast.AnnAssign, ast.AugAssign)):
        ts = [stmt.target]
    else:
        return []
    out = []
    for t in ts:
        if isinstance(t, ast.Name):
            out.append(t.id)
        elif isinstance(t, (ast.Tuple, ast.List)):
            out += [e.id for e in t.elts if isinstance(e, ast.Name)]
    return out


def audit_file(path, rel):
    try:
        tree = ast.parse(open(path, encoding="utf-8").read())
    except SyntaxError as e:
        return [{"file": rel, "line": 0, "kind": "unparsable", "name": str(e)}]
    found = []

    def add(kind, name, node, what=""):
        found.append({"file": rel, "line": getattr(node, "lineno", 0), "kind": kind, "name": name, "what": what})

    def body_bindings(body, kind, prefix):
        for st in body:
            if isinstance(st, (ast.Assign, ast.AnnAssign)) and st.value is not None and not type_alias(st.value):
                m = mutable(st.value)
                if m:
                    for n in targets(st):
                        if n == "__all__":
                            continue
                        add(kind, prefix + n, st, m)
            elif isinstance(st, (ast.If, ast.Try, ast.With)):
                for sub in ("body", "orelse", "finalbody"):
                    body_bindings(getattr(st, sub, []) or [], kind, prefix)

    body_bindings(tree.body, "module", "")
    classes = set()
    for node in ast.walk(tree):
        if isinstance(node, ast.ClassDef):
            classes.add(node.name)
            body_bindings(node.body, "class", node.name + ".")
    for node in ast.walk(tree):
        if isinstance(node, (ast.FunctionDef, ast.AsyncFunctionDef, ast.Lambda)):
            a = node.args
            name = getattr(node, "name", "<lambda>")
            pos = a.posonlyargs + a.args
            for arg, d in zip(pos[len(pos) - len(a.defaults):], a.defaults):
                m = mutable(d)
                if m:
                    add("default", f"{name}({arg.arg})", d, m)
            for arg, d in zip(a.kwonlyargs, a.kw_defaults):
                if d is not None and mutable(d):
                    add("default", f"{name}({arg.arg})", d, mutable(d))
            for dec in getattr(node, "decorator_list", []):
                dn = dec
                if isinstance(dn, ast.Call):
                    dn = dn.func
                s = dn.attr if isinstance(dn, ast.Attribute) else (dn.id if isinstance(dn, ast.Name) else "")
                if s in ("cache", "lru_cache", "cached_property") or "memo" in s.lower() or "cache" in s.lower():
                    add("cache", name, dec, s)
            if not isinstance(node, ast.Lambda):
                for sub in ast.walk(node):
                    if isinstance(sub, (ast.Global, ast.Nonlocal)):
                        for n in sub.names:
                            add("global", f"{name}:{n}", sub, type(sub).__name__.lower())
                    if isinstance(sub, (ast.Assign, ast.AugAssign, ast.AnnAssign)):
                        ts = sub.targets if isinstance(sub, ast.Assign) else [sub.target]
                        for t in ts:
                            base = t
                            while isinstance(base, ast.Subscript):
                                base = base.value
                            if isinstance(base, ast.Attribute) and isinstance(base.value, ast.Name) and \
                                    (base.value.id in classes or base.value.id == "cls"):
                                add("classattr-write", f"{base.value.id}.{base.attr}", sub, name)
    return found


def audit(repo):
    out = []
    for top in ("frame", "tools"):
        for d, _, fs in sorted(os.walk(os.path.join(repo, top))):
            for f in sorted(fs):
                if f.endswith(".py"):
                    p = os.path.join(d, f)
                    out += audit_file(p, os.path.relpath(p, repo))
    return out


def site_key(s):
    """identity of a site that survives line renumbering"""
    return f"{s['file']}|{s['kind']}|{s['name']}"


if __name__ == "__main__":
    args = [a for a in sys.argv[1:] if not a.startswith("--")]
    repo = args[0] if args else os.environ.get("VERIF_REPO", "/repo")
    res = audit(repo)
    if "--json" in sys.argv:
        print(json.dumps(res, indent=1))
    else:
        for s in res:
            print(f"{s['file']}:{s['line']}: {s['kind']:15s} {s['name']:40s} {s.get('what', '')}")
